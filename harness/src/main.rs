#![allow(dead_code, clippy::too_many_arguments)]
//! hv — runtime-monitoring harness for huginn-net (see /verif/DESIGN.md).
//!
//!   hv <ID> [--tier quick|thorough|miri] [--seed N]     run a check (parent: shards + merge)
//!   hv child <ID> <tier> <seed> <shard> <nshards> <out>  one shard (internal)
//!   hv replay <path>                                     re-execute a recorded violation
//!   hv list

mod alloc;
mod canon;
mod h1ref;
mod h2gen;
mod p0fref;
mod pkt;
mod pool;
mod props;
mod rt;
mod scenario;
mod sha256;
mod siggen;
mod tcpref;
mod tlsgen;

use rt::Tier;

#[global_allocator]
static GLOBAL: alloc::Counting = alloc::Counting;

fn usage() -> ! {
    eprintln!("usage: hv <ID> [--tier quick|thorough|miri] [--seed N] | hv replay <path> | hv list");
    std::process::exit(2);
}

fn main() {
    let args: Vec<String> = std::env::args().collect();
    if args.len() < 2 {
        usage();
    }
    let specs = props::registry();
    match args[1].as_str() {
        "list" => {
            for s in &specs {
                println!("{}", s.id);
            }
        }
        "child" => {
            if args.len() < 8 {
                usage();
            }
            let Some(spec) = specs.iter().find(|s| s.id == args[2]) else { usage() };
            let tier = Tier::parse(&args[3]).unwrap_or(Tier::Quick);
            let seed: u64 = args[4].parse().unwrap_or(1);
            let shard: usize = args[5].parse().unwrap_or(0);
            let nshards: usize = args[6].parse().unwrap_or(1);
            std::process::exit(rt::run_child(spec, tier, seed, shard, nshards, &args[7]));
        }
        "isolate" => {
            if args.len() < 4 {
                usage();
            }
            std::process::exit(props::c01::isolate(&args[3]));
        }
        "replay" => {
            if args.len() < 3 {
                usage();
            }
            let text = std::fs::read_to_string(&args[2]).unwrap_or_default();
            let v: serde_json::Value = serde_json::from_str(&text).unwrap_or_default();
            let id = v["property"].as_str().unwrap_or("").to_string();
            let Some(spec) = specs.iter().find(|s| s.id == id) else {
                eprintln!("hv: replay file names unknown property {id:?}");
                std::process::exit(2);
            };
            std::process::exit(rt::run_replay(spec, &args[2]));
        }
        id => {
            let Some(spec) = specs.iter().find(|s| s.id == id) else {
                eprintln!("hv: unknown property {id}");
                usage();
            };
            let mut tier = Tier::Quick;
            let mut seed: u64 = std::env::var("VERIF_SEED").ok().and_then(|s| s.parse().ok()).unwrap_or(1);
            let mut i = 2;
            while i < args.len() {
                match args[i].as_str() {
                    "--tier" if i + 1 < args.len() => {
                        tier = Tier::parse(&args[i + 1]).unwrap_or_else(|| usage());
                        i += 1;
                    }
                    "--seed" if i + 1 < args.len() => {
                        seed = args[i + 1].parse().unwrap_or(1);
                        i += 1;
                    }
                    _ => usage(),
                }
                i += 1;
            }
            if let Ok(t) = std::env::var("VERIF_TIER") {
                if let Some(t) = Tier::parse(&t) {
                    tier = t;
                }
            }
            if tier == Tier::Miri {
                // under Miri there is no process spawning: run a single shard in-process
                let out = format!("{}/work/{}-miri.json", rt::verif_dir(), spec.id);
                let code = rt::run_child(spec, tier, seed, 0, 1, &out);
                std::process::exit(code);
            }
            std::process::exit(rt::run_parent(spec, tier, seed));
        }
    }
}
