//! Runtime of the harness: tiers, shards (child processes), reports, known findings,
//! panic monitor, evidence and replay files.

use serde_json::{json, Map, Value};
use std::collections::{BTreeMap, BTreeSet};
use std::io::Write;
use std::panic::{self, AssertUnwindSafe};
use std::path::PathBuf;
use std::process::{Command, Stdio};
use std::sync::atomic::{AtomicBool, AtomicU64, Ordering};
use std::sync::Mutex;
use std::time::Instant;

/// Root of the verification tree (evidence, work files, known findings).  `/verif` unless the
/// environment variable HV_VERIF_DIR points elsewhere (used only for scratch development copies).
pub fn verif_dir() -> String {
    std::env::var("HV_VERIF_DIR").unwrap_or_else(|_| "/verif".to_string())
}

#[derive(Clone, Copy, PartialEq, Eq, Debug)]
pub enum Tier {
    Quick,
    Thorough,
    Miri,
}

impl Tier {
    pub fn parse(s: &str) -> Option<Tier> {
        match s {
            "quick" => Some(Tier::Quick),
            "thorough" => Some(Tier::Thorough),
            "miri" => Some(Tier::Miri),
            _ => None,
        }
    }
    pub fn name(self) -> &'static str {
        match self {
            Tier::Quick => "quick",
            Tier::Thorough => "thorough",
            Tier::Miri => "miri",
        }
    }
}

// ---------------------------------------------------------------------------------------------
// PRNG (SplitMix64 seeding + xoshiro256**): deterministic function of (seed, shard, stream)
// ---------------------------------------------------------------------------------------------

#[derive(Clone)]
pub struct Rng {
    s: [u64; 4],
}

fn splitmix(x: &mut u64) -> u64 {
    *x = x.wrapping_add(0x9E37_79B9_7F4A_7C15);
    let mut z = *x;
    z = (z ^ (z >> 30)).wrapping_mul(0xBF58_476D_1CE4_E5B9);
    z = (z ^ (z >> 27)).wrapping_mul(0x94D0_49BB_1331_11EB);
    z ^ (z >> 31)
}

impl Rng {
    pub fn new(seed: u64) -> Rng {
        let mut x = seed;
        Rng { s: [splitmix(&mut x), splitmix(&mut x), splitmix(&mut x), splitmix(&mut x)] }
    }
    pub fn from_parts(parts: &[u64]) -> Rng {
        let mut x = 0x1234_5678_9abc_def0u64;
        for p in parts {
            x ^= *p;
            splitmix(&mut x);
            x = x.rotate_left(17);
        }
        Rng::new(x)
    }
    pub fn next_u64(&mut self) -> u64 {
        let result = self.s[1].wrapping_mul(5).rotate_left(7).wrapping_mul(9);
        let t = self.s[1] << 17;
        self.s[2] ^= self.s[0];
        self.s[3] ^= self.s[1];
        self.s[1] ^= self.s[2];
        self.s[0] ^= self.s[3];
        self.s[2] ^= t;
        self.s[3] = self.s[3].rotate_left(45);
        result
    }
    pub fn u32(&mut self) -> u32 {
        (self.next_u64() >> 32) as u32
    }
    pub fn u16(&mut self) -> u16 {
        (self.next_u64() >> 48) as u16
    }
    pub fn u8(&mut self) -> u8 {
        (self.next_u64() >> 56) as u8
    }
    /// uniform in 0..n (n > 0)
    pub fn below(&mut self, n: u64) -> u64 {
        if n == 0 {
            return 0;
        }
        ((self.next_u64() as u128 * n as u128) >> 64) as u64
    }
    pub fn usize(&mut self, n: usize) -> usize {
        self.below(n as u64) as usize
    }
    /// inclusive range
    pub fn range(&mut self, lo: u64, hi: u64) -> u64 {
        lo + self.below(hi - lo + 1)
    }
    pub fn chance(&mut self, num: u64, den: u64) -> bool {
        self.below(den) < num
    }
    pub fn pick<'a, T>(&mut self, xs: &'a [T]) -> &'a T {
        &xs[self.usize(xs.len())]
    }
    pub fn bytes(&mut self, n: usize) -> Vec<u8> {
        (0..n).map(|_| self.u8()).collect()
    }
    pub fn shuffle<T>(&mut self, xs: &mut [T]) {
        for i in (1..xs.len()).rev() {
            let j = self.usize(i + 1);
            xs.swap(i, j);
        }
    }
}

// ---------------------------------------------------------------------------------------------
// Panic monitor
// ---------------------------------------------------------------------------------------------

static PANIC_LOG: Mutex<Vec<String>> = Mutex::new(Vec::new());
static PANIC_COUNT: AtomicU64 = AtomicU64::new(0);
static QUIET_PANICS: AtomicBool = AtomicBool::new(true);

pub fn install_panic_monitor() {
    panic::set_hook(Box::new(|info| {
        let thread = std::thread::current();
        let name = thread.name().unwrap_or("<unnamed>").to_string();
        let loc = info
            .location()
            .map(|l| format!("{}:{}:{}", l.file(), l.line(), l.column()))
            .unwrap_or_else(|| "<unknown>".to_string());
        let msg = if let Some(s) = info.payload().downcast_ref::<&str>() {
            (*s).to_string()
        } else if let Some(s) = info.payload().downcast_ref::<String>() {
            s.clone()
        } else {
            "<non-string panic payload>".to_string()
        };
        PANIC_COUNT.fetch_add(1, Ordering::SeqCst);
        let line = format!("thread '{name}' panicked at {loc}: {msg}");
        if !QUIET_PANICS.load(Ordering::SeqCst) {
            eprintln!("{line}");
        }
        if let Ok(mut log) = PANIC_LOG.lock() {
            if log.len() < 64 {
                log.push(line);
            }
        }
    }));
}

pub fn panic_count() -> u64 {
    PANIC_COUNT.load(Ordering::SeqCst)
}

pub fn take_panics() -> Vec<String> {
    PANIC_LOG.lock().map(|mut l| std::mem::take(&mut *l)).unwrap_or_default()
}

/// Run `f`, converting a panic on this thread into `Err(description)`.
pub fn guard<T>(f: impl FnOnce() -> T) -> Result<T, String> {
    let before = panic_count();
    match panic::catch_unwind(AssertUnwindSafe(f)) {
        Ok(v) => Ok(v),
        Err(_) => {
            let log = PANIC_LOG.lock().map(|l| l.last().cloned()).unwrap_or(None);
            let _ = before;
            Err(log.unwrap_or_else(|| "panic (no message captured)".to_string()))
        }
    }
}

// ---------------------------------------------------------------------------------------------
// Known findings
// ---------------------------------------------------------------------------------------------

#[derive(Clone, Debug)]
pub struct Finding {
    pub id: String,
    pub property: String,
    pub status: String,
    pub signature: String,
}

#[derive(Clone, Debug, Default)]
pub struct KnownFindings {
    pub entries: Vec<Finding>,
}

impl KnownFindings {
    pub fn load() -> KnownFindings {
        let path = format!("{}/known_findings.json", verif_dir());
        let mut out = KnownFindings::default();
        let Ok(text) = std::fs::read_to_string(&path) else {
            return out;
        };
        let Ok(v) = serde_json::from_str::<Value>(&text) else {
            eprintln!("hv: cannot parse {path}; treating as empty");
            return out;
        };
        if let Some(list) = v.get("findings").and_then(|f| f.as_array()) {
            for e in list {
                let g = |k: &str| e.get(k).and_then(|x| x.as_str()).unwrap_or("").to_string();
                out.entries.push(Finding {
                    id: g("id"),
                    property: g("property"),
                    status: g("status"),
                    signature: g("signature"),
                });
            }
        }
        out
    }
    pub fn is_open(&self, property: &str, id: &str) -> bool {
        self.entries
            .iter()
            .any(|f| f.id == id && f.property == property && f.status == "open")
    }
    pub fn signature(&self, id: &str) -> String {
        self.entries
            .iter()
            .find(|f| f.id == id)
            .map(|f| f.signature.clone())
            .unwrap_or_default()
    }
}

// ---------------------------------------------------------------------------------------------
// Report (per shard) and context
// ---------------------------------------------------------------------------------------------

const MAX_BUCKETS: usize = 400_000;
const MAX_VIOLATIONS: usize = 12;
const MAX_SAMPLES: usize = 6;

#[derive(Default, Debug)]
pub struct Report {
    pub evaluations: u64,
    pub buckets: BTreeSet<u64>,
    pub bucket_examples: Vec<String>,
    pub classes: BTreeMap<String, u64>,
    pub samples: Vec<Value>,
    pub violations: Vec<Value>,
    pub violation_count: u64,
    pub known: BTreeMap<String, u64>,
    pub known_examples: BTreeMap<String, Value>,
    pub inconclusive: u64,
    pub notes: Vec<String>,
    pub stages: BTreeMap<String, Value>,
    pub exhaustive: Vec<String>,
}

fn fnv(s: &str) -> u64 {
    let mut h: u64 = 0xcbf29ce484222325;
    for b in s.as_bytes() {
        h ^= *b as u64;
        h = h.wrapping_mul(0x100000001b3);
    }
    h
}

impl Report {
    pub fn to_json(&self) -> Value {
        json!({
            "evaluations": self.evaluations,
            "buckets": self.buckets.iter().collect::<Vec<_>>(),
            "bucket_examples": self.bucket_examples,
            "classes": self.classes,
            "samples": self.samples,
            "violations": self.violations,
            "violation_count": self.violation_count,
            "known": self.known,
            "known_examples": self.known_examples,
            "inconclusive": self.inconclusive,
            "notes": self.notes,
            "stages": self.stages,
            "exhaustive": self.exhaustive,
        })
    }
    pub fn merge_json(&mut self, v: &Value) {
        self.evaluations += v["evaluations"].as_u64().unwrap_or(0);
        if let Some(a) = v["buckets"].as_array() {
            for b in a {
                if self.buckets.len() < MAX_BUCKETS * 4 {
                    self.buckets.insert(b.as_u64().unwrap_or(0));
                }
            }
        }
        if let Some(a) = v["bucket_examples"].as_array() {
            for b in a {
                if self.bucket_examples.len() < 40 {
                    if let Some(s) = b.as_str() {
                        if !self.bucket_examples.iter().any(|x| x == s) {
                            self.bucket_examples.push(s.to_string());
                        }
                    }
                }
            }
        }
        if let Some(m) = v["classes"].as_object() {
            for (k, n) in m {
                *self.classes.entry(k.clone()).or_insert(0) += n.as_u64().unwrap_or(0);
            }
        }
        if let Some(a) = v["samples"].as_array() {
            for s in a {
                if self.samples.len() < MAX_SAMPLES {
                    self.samples.push(s.clone());
                }
            }
        }
        if let Some(a) = v["violations"].as_array() {
            for s in a {
                if self.violations.len() < MAX_VIOLATIONS {
                    self.violations.push(s.clone());
                }
            }
        }
        self.violation_count += v["violation_count"].as_u64().unwrap_or(0);
        if let Some(m) = v["known"].as_object() {
            for (k, n) in m {
                *self.known.entry(k.clone()).or_insert(0) += n.as_u64().unwrap_or(0);
            }
        }
        if let Some(m) = v["known_examples"].as_object() {
            for (k, e) in m {
                self.known_examples.entry(k.clone()).or_insert(e.clone());
            }
        }
        self.inconclusive += v["inconclusive"].as_u64().unwrap_or(0);
        if let Some(a) = v["notes"].as_array() {
            for s in a {
                if let Some(s) = s.as_str() {
                    if self.notes.len() < 60 && !self.notes.iter().any(|x| x == s) {
                        self.notes.push(s.to_string());
                    }
                }
            }
        }
        if let Some(m) = v["stages"].as_object() {
            for (k, e) in m {
                match (self.stages.get_mut(k), e) {
                    (Some(Value::Number(old)), Value::Number(new)) => {
                        let s = old.as_u64().unwrap_or(0) + new.as_u64().unwrap_or(0);
                        self.stages.insert(k.clone(), json!(s));
                    }
                    (None, _) => {
                        self.stages.insert(k.clone(), e.clone());
                    }
                    _ => {}
                }
            }
        }
        if let Some(a) = v["exhaustive"].as_array() {
            for s in a {
                if let Some(s) = s.as_str() {
                    if !self.exhaustive.iter().any(|x| x == s) {
                        self.exhaustive.push(s.to_string());
                    }
                }
            }
        }
    }
}

pub struct Ctx {
    pub id: &'static str,
    pub tier: Tier,
    pub seed: u64,
    pub shard: usize,
    pub nshards: usize,
    pub rep: Report,
    pub kf: KnownFindings,
    pub start: Instant,
    /// When replaying: the stored violation record.
    pub replay: Option<Value>,
}

impl Ctx {
    pub fn quick(&self) -> bool {
        self.tier == Tier::Quick
    }
    pub fn thorough(&self) -> bool {
        self.tier == Tier::Thorough
    }
    pub fn miri(&self) -> bool {
        self.tier == Tier::Miri
    }
    /// Pick a size by tier.
    pub fn scale(&self, quick: u64, thorough: u64, miri: u64) -> u64 {
        match self.tier {
            Tier::Quick => quick,
            Tier::Thorough => thorough,
            Tier::Miri => miri,
        }
    }
    pub fn rng(&self, stream: u64) -> Rng {
        Rng::from_parts(&[self.seed, self.shard as u64, stream, fnv(self.id)])
    }
    /// A generator that does not depend on the shard (for work split by index).
    pub fn rng_global(&self, stream: u64, index: u64) -> Rng {
        Rng::from_parts(&[self.seed, 0xabcdef, stream, index, fnv(self.id)])
    }
    /// Is work item `index` handled by this shard?
    pub fn mine(&self, index: u64) -> bool {
        (index % self.nshards as u64) as usize == self.shard
    }
    pub fn eval(&mut self) {
        self.rep.evaluations += 1;
    }
    pub fn evals(&mut self, n: u64) {
        self.rep.evaluations += n;
    }
    pub fn class(&mut self, name: &str) {
        *self.rep.classes.entry(name.to_string()).or_insert(0) += 1;
    }
    pub fn class_n(&mut self, name: &str, n: u64) {
        *self.rep.classes.entry(name.to_string()).or_insert(0) += n;
    }
    /// Record a distinct non-trivial case (semantic bucket).
    pub fn bucket(&mut self, key: &str) {
        if self.rep.buckets.len() < MAX_BUCKETS {
            if self.rep.buckets.insert(fnv(key)) && self.rep.bucket_examples.len() < 12 {
                self.rep.bucket_examples.push(key.to_string());
            }
        }
    }
    pub fn sample(&mut self, v: Value) {
        if self.rep.samples.len() < MAX_SAMPLES {
            self.rep.samples.push(v);
        }
    }
    pub fn want_sample(&self) -> bool {
        self.rep.samples.len() < MAX_SAMPLES
    }
    pub fn note(&mut self, s: &str) {
        if !self.rep.notes.iter().any(|x| x == s) {
            self.rep.notes.push(s.to_string());
        }
    }
    pub fn stage(&mut self, name: &str, v: Value) {
        self.rep.stages.insert(name.to_string(), v);
    }
    pub fn stage_add(&mut self, name: &str, n: u64) {
        let cur = self.rep.stages.get(name).and_then(|v| v.as_u64()).unwrap_or(0);
        self.rep.stages.insert(name.to_string(), json!(cur + n));
    }
    pub fn exhaustive(&mut self, what: &str) {
        if !self.rep.exhaustive.iter().any(|x| x == what) {
            self.rep.exhaustive.push(what.to_string());
        }
    }
    pub fn inconclusive(&mut self, why: &str) {
        self.rep.inconclusive += 1;
        self.class(&format!("inconclusive:{why}"));
    }
    pub fn violation(&mut self, what: &str, detail: Value) {
        self.rep.violation_count += 1;
        if self.rep.violations.len() < MAX_VIOLATIONS {
            self.rep.violations.push(json!({
                "property": self.id,
                "what": what,
                "seed": self.seed,
                "shard": self.shard,
                "nshards": self.nshards,
                "tier": self.tier.name(),
                "detail": detail,
            }));
        }
    }
    /// Is the finding listed as open for this property?  (No counting.)
    pub fn finding_open(&self, finding: &str) -> bool {
        self.kf.is_open(self.id, finding)
    }
    /// Count a hit of an open known finding (call only after `finding_open`).
    pub fn known_hit(&mut self, finding: &str, example: impl FnOnce() -> Value) {
        *self.rep.known.entry(finding.to_string()).or_insert(0) += 1;
        if !self.rep.known_examples.contains_key(finding) {
            self.rep.known_examples.insert(finding.to_string(), example());
        }
    }
    /// The oracle step of DESIGN §4: `ok` -> pass; else the first open finding whose
    /// (precondition && actual == deviant) holds -> KNOWN-FINDING; else VIOLATION.
    pub fn judge(
        &mut self,
        ok: bool,
        deviations: &[(&str, bool)],
        what: &str,
        detail: impl FnOnce() -> Value,
    ) -> bool {
        self.eval();
        if ok {
            return true;
        }
        for (finding, matches) in deviations {
            if *matches && self.finding_open(finding) {
                let mut d = Some(detail);
                self.known_hit(finding, || (d.take().unwrap())());
                return false;
            }
        }
        self.violation(what, detail());
        false
    }
    /// Multi-finding form of the oracle step: `explained` = None when the actual result cannot be
    /// explained at all; Some(list) = the known findings that are needed to explain it (empty =
    /// conforms to the specification).  All needed findings must be open, otherwise VIOLATION.
    pub fn judge_explained(
        &mut self,
        explained: Option<Vec<&'static str>>,
        what: &str,
        detail: impl FnOnce() -> Value,
    ) -> bool {
        self.eval();
        match explained {
            Some(list) if list.is_empty() => true,
            Some(list) if list.iter().all(|f| self.finding_open(f)) => {
                let d = detail();
                for f in list {
                    let dd = d.clone();
                    self.known_hit(f, move || dd);
                }
                false
            }
            Some(list) => {
                let missing: Vec<&str> = list.iter().copied().filter(|f| !self.finding_open(f)).collect();
                let mut d = detail();
                if let Some(o) = d.as_object_mut() {
                    o.insert("deviation_of_unlisted_finding".into(), json!(missing));
                }
                self.violation(what, d);
                false
            }
            None => {
                self.violation(what, detail());
                false
            }
        }
    }
    pub fn elapsed(&self) -> f64 {
        self.start.elapsed().as_secs_f64()
    }
}

pub fn hex(b: &[u8]) -> String {
    let mut s = String::with_capacity(b.len() * 2);
    for x in b {
        s.push_str(&format!("{x:02x}"));
    }
    s
}

pub fn unhex(s: &str) -> Vec<u8> {
    let s: Vec<u8> = s.bytes().filter(|c| c.is_ascii_hexdigit()).collect();
    s.chunks(2)
        .filter(|c| c.len() == 2)
        .map(|c| u8::from_str_radix(std::str::from_utf8(c).unwrap_or("00"), 16).unwrap_or(0))
        .collect()
}

// ---------------------------------------------------------------------------------------------
// Driver: shard over child processes, merge, write evidence
// ---------------------------------------------------------------------------------------------

pub struct PropSpec {
    pub id: &'static str,
    pub run: fn(&mut Ctx),
    /// number of shards per tier (quick, thorough)
    pub shards: fn(Tier) -> usize,
    pub rule: &'static str,
    pub assumptions: &'static [&'static str],
    /// extra stage run once in the parent after the shards (sanitizer builds etc.)
    pub parent_stage: Option<fn(&mut Ctx)>,
}

fn work_dir(id: &str) -> PathBuf {
    let p = PathBuf::from(format!("{}/work/{id}", verif_dir()));
    let _ = std::fs::create_dir_all(&p);
    p
}

pub fn run_child(spec: &PropSpec, tier: Tier, seed: u64, shard: usize, nshards: usize, out: &str) -> i32 {
    install_panic_monitor();
    let mut ctx = Ctx {
        id: spec.id,
        tier,
        seed,
        shard,
        nshards,
        rep: Report::default(),
        kf: KnownFindings::load(),
        start: Instant::now(),
        replay: None,
    };
    let res = panic::catch_unwind(AssertUnwindSafe(|| (spec.run)(&mut ctx)));
    if let Err(_) = res {
        let log = take_panics();
        // a panic raised by harness code itself (location inside this crate) is a broken check,
        // never a verdict about the library
        let in_harness = log.last().map(|l| l.contains(" at src/")).unwrap_or(false);
        if in_harness {
            ctx.note(&format!("HARNESS-PANIC: {}", log.last().cloned().unwrap_or_default()));
        } else {
            ctx.violation(
                "panic escaped to the harness top level outside a guarded library call",
                json!({ "panics": log }),
            );
        }
    }
    let v = ctx.rep.to_json();
    match std::fs::write(out, serde_json::to_vec(&v).unwrap_or_default()) {
        Ok(_) => 0,
        Err(e) => {
            eprintln!("hv: cannot write {out}: {e}");
            2
        }
    }
}

pub fn run_parent(spec: &PropSpec, tier: Tier, seed: u64) -> i32 {
    let start = Instant::now();
    let nshards = (spec.shards)(tier).max(1);
    let dir = work_dir(spec.id);
    let exe = std::env::current_exe().expect("current_exe");
    let mut children = Vec::new();
    for shard in 0..nshards {
        let out = dir.join(format!("shard_{shard}.json"));
        let _ = std::fs::remove_file(&out);
        let child = Command::new(&exe)
            .arg("child")
            .arg(spec.id)
            .arg(tier.name())
            .arg(seed.to_string())
            .arg(shard.to_string())
            .arg(nshards.to_string())
            .arg(&out)
            .stdin(Stdio::null())
            .stdout(Stdio::inherit())
            .stderr(Stdio::inherit())
            .spawn();
        match child {
            Ok(c) => children.push((shard, out, c)),
            Err(e) => {
                eprintln!("hv: cannot spawn shard {shard}: {e}");
                return 2;
            }
        }
    }
    let mut merged = Report::default();
    let mut broken: Vec<String> = Vec::new();
    let mut died: Vec<Value> = Vec::new();
    for (shard, out, mut c) in children {
        let status = c.wait();
        let ok = matches!(&status, Ok(s) if s.success());
        if !ok {
            let desc = match &status {
                Ok(s) => format!("{s}"),
                Err(e) => format!("{e}"),
            };
            // the child normally reports the last progress in a side file
            let progress = std::fs::read_to_string(dir.join(format!("progress_{shard}.txt"))).unwrap_or_default();
            died.push(json!({"shard": shard, "status": desc, "last_progress": progress}));
        }
        match std::fs::read(&out).ok().and_then(|b| serde_json::from_slice::<Value>(&b).ok()) {
            Some(v) => merged.merge_json(&v),
            None => {
                if ok {
                    broken.push(format!("shard {shard}: no result file"));
                }
            }
        }
    }

    let kf = KnownFindings::load();
    let mut ctx = Ctx {
        id: spec.id,
        tier,
        seed,
        shard: 0,
        nshards: 1,
        rep: merged,
        kf,
        start,
        replay: None,
    };
    for d in &died {
        // An abnormal child death (abort, signal, stack overflow, allocation failure) while the
        // library was being driven is a totality violation for C01 and makes any other check's
        // result unusable.
        if spec.id == "C01" {
            let shard = d["shard"].as_u64().unwrap_or(0);
            let stash = format!("{}/work/C01/stash_{}.bin", verif_dir(), shard);
            let input = crate::props::c01::read_stash(&stash);
            let witness = json!({
                "child": d,
                "entry_point": input.as_ref().map(|x| x.0.clone()),
                "input_hex": input.as_ref().map(|x| hex(&x.1)),
            });
            let watchdog = d["status"].as_str().map(|s| s.contains("86")).unwrap_or(false);
            let confirmed_hangs = ctx.rep.violations.iter().filter(|v| v["what"].as_str().map(|w| w.starts_with("a call does not return")).unwrap_or(false)).count();
            if watchdog && confirmed_hangs >= 2 {
                // two isolated re-runs already confirmed non-termination in this run: do not spend
                // another minute per shard on the same symptom
                ctx.violation("a call does not return (20 s watchdog; isolation skipped after two confirmed cases in this run)", witness);
            } else if watchdog {
                // bounded progress: re-run the stashed input alone with a 60 s budget
                let exe = std::env::current_exe().expect("current_exe");
                let mut alone = Command::new(&exe).arg("isolate").arg("C01").arg(&stash).stdin(Stdio::null()).spawn();
                let mut finished = false;
                if let Ok(child) = alone.as_mut() {
                    let t0 = Instant::now();
                    while t0.elapsed().as_secs() < 60 {
                        if let Ok(Some(_)) = child.try_wait() {
                            finished = true;
                            break;
                        }
                        std::thread::sleep(std::time::Duration::from_millis(200));
                    }
                    if !finished {
                        let _ = child.kill();
                        let _ = child.wait();
                    }
                }
                if finished {
                    ctx.inconclusive("a call exceeded the 20 s watchdog but returned when re-run alone");
                } else {
                    ctx.violation("a call does not return (20 s watchdog, then 60 s alone in a fresh process)", witness);
                }
            } else {
                ctx.violation("worker process died abnormally while driving the library", witness);
            }
        } else {
            broken.push(format!("child died: {d}"));
        }
    }
    if let Some(stage) = spec.parent_stage {
        install_panic_monitor();
        let res = panic::catch_unwind(AssertUnwindSafe(|| stage(&mut ctx)));
        if res.is_err() {
            broken.push(format!("parent stage panicked: {:?}", take_panics()));
        }
    }

    finish(spec, &mut ctx, broken)
}

fn finish(spec: &PropSpec, ctx: &mut Ctx, mut broken: Vec<String>) -> i32 {
    let rep = &ctx.rep;
    // replay files + VIOLATION lines
    let replay_dir = PathBuf::from(format!("{}/evidence/replays", verif_dir()));
    let _ = std::fs::create_dir_all(&replay_dir);
    let mut stdout = std::io::stdout();
    for (i, v) in rep.violations.iter().enumerate() {
        let path = replay_dir.join(format!("{}-{}-seed{}-{}.json", spec.id, ctx.tier.name(), ctx.seed, i));
        let _ = std::fs::write(&path, serde_json::to_vec_pretty(v).unwrap_or_default());
        let what = v["what"].as_str().unwrap_or("");
        let _ = writeln!(stdout, "VIOLATION property={} replay={}", spec.id, path.display());
        let _ = writeln!(stdout, "  what: {what}");
        let mut d = v["detail"].to_string();
        if d.len() > 1500 {
            let mut cut = 1500;
            while !d.is_char_boundary(cut) {
                cut -= 1;
            }
            d.truncate(cut);
            d.push_str("...");
        }
        let _ = writeln!(stdout, "  detail: {d}");
    }
    for (id, hits) in &rep.known {
        let _ = writeln!(
            stdout,
            "KNOWN-FINDING: property={} {} — {} (hits={})",
            spec.id,
            id,
            ctx.kf.signature(id),
            hits
        );
    }
    for n in &rep.notes {
        if n.starts_with("HARNESS-PANIC") {
            broken.push(n.clone());
        }
    }
    if rep.evaluations == 0 && rep.violation_count == 0 {
        broken.push("no oracle evaluation was performed (vacuous run)".to_string());
    }
    let distinct = rep.buckets.len() as u64;
    let tier_name = if ctx.tier == Tier::Miri { "thorough" } else { ctx.tier.name() };
    let mut coverage = Map::new();
    coverage.insert("evaluations".into(), json!(rep.evaluations));
    coverage.insert("distinct_nontrivial".into(), json!(distinct));
    coverage.insert("rule".into(), json!(spec.rule));
    let mut samples = rep.samples.clone();
    if samples.is_empty() {
        for b in rep.bucket_examples.iter().take(4) {
            samples.push(json!({ "bucket": b }));
        }
    }
    coverage.insert("samples".into(), json!(samples));
    coverage.insert("bucket_examples".into(), json!(rep.bucket_examples));
    coverage.insert("classes".into(), json!(rep.classes));
    coverage.insert("inconclusive".into(), json!(rep.inconclusive));
    coverage.insert("known_finding_hits".into(), json!(rep.known));
    coverage.insert("known_finding_examples".into(), json!(rep.known_examples));
    coverage.insert("stages".into(), json!(rep.stages));
    coverage.insert("exhaustive_parts".into(), json!(rep.exhaustive));
    coverage.insert("exhaustive".into(), json!(false));
    coverage.insert("notes".into(), json!(rep.notes));
    coverage.insert("shards".into(), json!((spec.shards)(ctx.tier)));
    if !broken.is_empty() {
        coverage.insert("harness_errors".into(), json!(broken));
    }
    let evidence = json!({
        "property_id": spec.id,
        "tier": tier_name,
        "seed": ctx.seed,
        "level": "exploration",
        "coverage": Value::Object(coverage),
        "assumptions": spec.assumptions,
        "wall_s": ctx.start.elapsed().as_secs_f64(),
        "violations": rep.violation_count,
    });
    let epath = format!("{}/evidence/{}.json", verif_dir(), spec.id);
    if let Err(e) = std::fs::write(&epath, serde_json::to_vec_pretty(&evidence).unwrap_or_default()) {
        eprintln!("hv: cannot write {epath}: {e}");
        return 2;
    }
    let _ = writeln!(
        stdout,
        "{}: tier={} seed={} evaluations={} distinct={} known_findings={} inconclusive={} violations={} wall={:.1}s",
        spec.id,
        ctx.tier.name(),
        ctx.seed,
        rep.evaluations,
        distinct,
        rep.known.len(),
        rep.inconclusive,
        rep.violation_count,
        ctx.start.elapsed().as_secs_f64()
    );
    if rep.violation_count > 0 {
        return 1;
    }
    if !broken.is_empty() {
        for b in &broken {
            eprintln!("hv: BROKEN CHECK: {b}");
        }
        return 2;
    }
    0
}

/// Progress marker written by long workloads so that an abnormal death can be localised.
pub fn progress(ctx: &Ctx, text: &str) {
    let p = work_dir(ctx.id).join(format!("progress_{}.txt", ctx.shard));
    let _ = std::fs::write(p, text);
}

pub fn run_replay(spec: &PropSpec, path: &str) -> i32 {
    install_panic_monitor();
    QUIET_PANICS.store(false, Ordering::SeqCst);
    let Ok(text) = std::fs::read_to_string(path) else {
        eprintln!("hv: cannot read {path}");
        return 2;
    };
    let Ok(v) = serde_json::from_str::<Value>(&text) else {
        eprintln!("hv: cannot parse {path}");
        return 2;
    };
    let tier = Tier::parse(v["tier"].as_str().unwrap_or("quick")).unwrap_or(Tier::Quick);
    let mut ctx = Ctx {
        id: spec.id,
        tier,
        seed: v["seed"].as_u64().unwrap_or(1),
        shard: v["shard"].as_u64().unwrap_or(0) as usize,
        nshards: v["nshards"].as_u64().unwrap_or(1) as usize,
        rep: Report::default(),
        kf: KnownFindings::load(),
        start: Instant::now(),
        replay: Some(v.clone()),
    };
    println!("replaying {} ({}): {}", spec.id, path, v["what"].as_str().unwrap_or(""));
    println!("recorded detail: {}", serde_json::to_string_pretty(&v["detail"]).unwrap_or_default());
    // Re-run the shard that found it: generators are deterministic in (seed, shard, nshards).
    (spec.run)(&mut ctx);
    let again = ctx.rep.violations.iter().any(|x| x["what"] == v["what"]);
    println!(
        "re-executed shard {}/{} with seed {}: {} violation(s); same kind reproduced: {}",
        ctx.shard, ctx.nshards, ctx.seed, ctx.rep.violation_count, again
    );
    if ctx.rep.violation_count > 0 {
        1
    } else {
        0
    }
}

// ---------------------------------------------------------------------------------------------
// Sanitizer / interpreter stages (thorough tier, run once in the parent)
// ---------------------------------------------------------------------------------------------

fn run_with_timeout(mut cmd: Command, secs: u64) -> (Option<i32>, String) {
    cmd.stdin(Stdio::null()).stdout(Stdio::piped()).stderr(Stdio::piped());
    let Ok(mut child) = cmd.spawn() else { return (None, "could not spawn".into()) };
    // drain pipes on threads so that a chatty child cannot block
    let mut out = child.stdout.take();
    let mut err = child.stderr.take();
    let t1 = std::thread::spawn(move || {
        let mut s = String::new();
        if let Some(o) = out.as_mut() {
            let _ = std::io::Read::read_to_string(o, &mut s);
        }
        s
    });
    let t2 = std::thread::spawn(move || {
        let mut s = String::new();
        if let Some(o) = err.as_mut() {
            let _ = std::io::Read::read_to_string(o, &mut s);
        }
        s
    });
    let t0 = Instant::now();
    let mut code = None;
    loop {
        match child.try_wait() {
            Ok(Some(st)) => {
                code = st.code();
                break;
            }
            Ok(None) => {
                if t0.elapsed().as_secs() > secs {
                    let _ = child.kill();
                    let _ = child.wait();
                    break;
                }
                std::thread::sleep(std::time::Duration::from_millis(200));
            }
            Err(_) => break,
        }
    }
    let text = format!("{}\n{}", t1.join().unwrap_or_default(), t2.join().unwrap_or_default());
    (code, text)
}

/// Miri stage: the same check compiled for the interpreter with its reduced `miri` tier, under
/// several scheduler seeds.  UB / data race / deadlock reports are violations; an unusable
/// toolchain only marks the stage as skipped.
pub fn miri_stage(ctx: &mut Ctx, many_seeds: &str, budget_s: u64) {
    let harness = format!("{}/harness/Cargo.toml", verif_dir());
    let mut cmd = Command::new("cargo");
    cmd.arg("+nightly")
        .arg("miri")
        .arg("run")
        .arg("--offline")
        .arg("--manifest-path")
        .arg(&harness)
        .arg("--")
        .arg(ctx.id)
        .arg("--tier")
        .arg("miri")
        .arg("--seed")
        .arg(ctx.seed.to_string())
        .env("CARGO_TARGET_DIR", format!("{}/target", verif_dir()))
        .env("CARGO_NET_OFFLINE", "true")
        .env("MIRIFLAGS", format!("-Zmiri-disable-isolation -Zmiri-ignore-leaks {many_seeds}"));
    let t0 = Instant::now();
    let (code, text) = run_with_timeout(cmd, budget_s);
    let ub = text.contains("Undefined Behavior") || text.contains("Data race detected") || text.contains("deadlock");
    let summary = json!({
        "exit_code": code, "wall_s": t0.elapsed().as_secs_f64(), "many_seeds": many_seeds,
        "reported_ub_or_race": ub,
        "tail": text.lines().rev().take(6).collect::<Vec<_>>(),
    });
    if ub {
        let report: Vec<&str> = text.lines().filter(|l| l.contains("error") || l.contains("Undefined") || l.contains("race") || l.contains("-->")).take(40).collect();
        ctx.violation("Miri reported undefined behaviour / a data race / a deadlock", json!({"report": report}));
    } else if code == Some(0) {
        // merge what the interpreted run judged
        let p = format!("{}/work/{}-miri.json", verif_dir(), ctx.id);
        if let Some(v) = std::fs::read(&p).ok().and_then(|b| serde_json::from_slice::<Value>(&b).ok()) {
            let evals = v["evaluations"].as_u64().unwrap_or(0);
            let viol = v["violation_count"].as_u64().unwrap_or(0);
            ctx.stage_add("miri_evaluations", evals);
            if viol > 0 {
                if let Some(a) = v["violations"].as_array() {
                    for x in a.iter().take(3) {
                        ctx.violation("violation observed under Miri", x.clone());
                    }
                }
            }
        }
    } else if code == Some(1) && text.contains("VIOLATION") {
        ctx.violation("violation observed under Miri", json!({"output": text.lines().rev().take(20).collect::<Vec<_>>()}));
    } else {
        ctx.note(&format!("Miri stage did not complete (exit {code:?}); treated as skipped, not as a verdict"));
    }
    ctx.stage("miri", summary);
}

/// ThreadSanitizer stage: rebuild the harness with -Zsanitizer=thread (-Zbuild-std) and run one
/// shard of the quick workload; any report fails the run (exit 66).
pub fn tsan_stage(ctx: &mut Ctx, budget_s: u64) {
    let harness = format!("{}/harness/Cargo.toml", verif_dir());
    let target_dir = format!("{}/target/tsan", verif_dir());
    let mut build = Command::new("cargo");
    build
        .arg("+nightly")
        .arg("build")
        .arg("--release")
        .arg("--offline")
        .arg("-Zbuild-std")
        .arg("--target")
        .arg("x86_64-unknown-linux-gnu")
        .arg("--manifest-path")
        .arg(&harness)
        .env("CARGO_TARGET_DIR", &target_dir)
        .env("CARGO_NET_OFFLINE", "true")
        .env("RUSTFLAGS", "-Zsanitizer=thread");
    let t0 = Instant::now();
    let (bcode, btext) = run_with_timeout(build, 900);
    if bcode != Some(0) {
        ctx.note(&format!("TSan build did not succeed (exit {bcode:?}); stage skipped, not a verdict"));
        ctx.stage("tsan", json!({"built": false, "tail": btext.lines().rev().take(5).collect::<Vec<_>>()}));
        return;
    }
    let exe = format!("{target_dir}/x86_64-unknown-linux-gnu/release/hv");
    let out = format!("{}/work/{}-tsan.json", verif_dir(), ctx.id);
    let mut run = Command::new(&exe);
    run.arg("child").arg(ctx.id).arg("quick").arg(ctx.seed.to_string()).arg("0").arg("16").arg(&out).env("TSAN_OPTIONS", "halt_on_error=1 exitcode=66 second_deadlock_stack=1");
    let (code, text) = run_with_timeout(run, budget_s);
    let raced = code == Some(66) || text.contains("WARNING: ThreadSanitizer");
    if raced {
        let report: Vec<&str> = text.lines().filter(|l| !l.trim().is_empty()).take(60).collect();
        ctx.violation("ThreadSanitizer reported a data race", json!({"report": report}));
    } else if code == Some(0) {
        if let Some(v) = std::fs::read(&out).ok().and_then(|b| serde_json::from_slice::<Value>(&b).ok()) {
            ctx.stage_add("tsan_evaluations", v["evaluations"].as_u64().unwrap_or(0));
            if v["violation_count"].as_u64().unwrap_or(0) > 0 {
                if let Some(a) = v["violations"].as_array() {
                    for x in a.iter().take(3) {
                        ctx.violation("violation observed in the ThreadSanitizer build", x.clone());
                    }
                }
            }
        }
    } else {
        ctx.note(&format!("TSan run did not complete (exit {code:?}); treated as skipped, not as a verdict"));
    }
    ctx.stage("tsan", json!({"built": true, "exit_code": code, "wall_s": t0.elapsed().as_secs_f64(), "reported_race": raced}));
}
