//! Independent reference for the p0f TCP signature of a segment (C03), computed from the
//! *model* the packet was generated from, plus the deviation models of the known findings.

use crate::pkt::{flags, Ip, Tcp};

#[derive(Clone, Debug, PartialEq, Eq)]
pub struct RefSig {
    pub version: String,
    pub ittl: String,
    pub olen: String,
    pub mss: String,
    pub wsize: String,
    pub wscale: String,
    pub olayout: Vec<String>,
    /// as a sorted set
    pub quirks: Vec<String>,
    pub pclass: String,
    /// option list was malformed: only the prefix layout and the `bad` quirk are specified
    pub malformed: bool,
    /// the `ts1-` quirk is specified even if `ambiguous_values` (exactly one timestamp option whose TSval octets are present)
    pub ts1_decided: bool,
    /// malformed list: layout name of the option whose kind octet was read last
    pub aborted_kind: Option<String>,
    /// more than one MSS/WS/TS option, or one with a non-standard length: value fields unjudged
    pub ambiguous_values: bool,
    pub mss_value: Option<u16>,
}

#[derive(Clone, Copy, Debug, PartialEq, Eq)]
pub enum Role {
    Client,
    Server,
    /// valid flags but not a handshake segment
    Other,
    /// fails the flag sanity filter (SYN+FIN/RST, FIN+RST, none of SYN/ACK/FIN/RST)
    Invalid,
}

pub fn role(fl: u8) -> Role {
    let syn = fl & flags::SYN != 0;
    let ack = fl & flags::ACK != 0;
    let fin = fl & flags::FIN != 0;
    let rst = fl & flags::RST != 0;
    if (syn && (fin || rst)) || (fin && rst) || !(syn || ack || fin || rst) {
        return Role::Invalid;
    }
    if syn && !ack {
        Role::Client
    } else if syn && ack {
        Role::Server
    } else {
        Role::Other
    }
}

pub fn ref_ittl(ttl: u8) -> String {
    if ttl == 0 {
        return "0-".to_string();
    }
    let initial: u16 = if ttl > 128 {
        255
    } else if ttl > 64 {
        128
    } else if ttl > 32 {
        64
    } else {
        32
    };
    let dist = initial - ttl as u16;
    if dist <= 30 {
        format!("{ttl}+{dist}")
    } else {
        format!("{ttl}")
    }
}

/// The crate's documented window classification (window_size.rs doc + tests), restated.
pub fn ref_window(win: u16, mss: Option<u16>, has_ts: bool, v4: bool, total_header: u16) -> String {
    let mss = mss.unwrap_or(0);
    if win == 0 || mss < 100 {
        return format!("{win}");
    }
    let w = win as u32;
    let try_div = |d: u32| -> Option<u32> {
        if d != 0 && w % d == 0 && w / d <= 255 {
            Some(w / d)
        } else {
            None
        }
    };
    if let Some(k) = try_div(mss as u32) {
        return format!("mss*{k}");
    }
    if has_ts && mss > 12 {
        if let Some(k) = try_div(mss as u32 - 12) {
            return format!("mss*{k}");
        }
    }
    for m in [4096u32, 2048, 1024, 512, 256] {
        if w % m == 0 {
            return format!("%{m}");
        }
    }
    if let Some(k) = try_div(1500) {
        return format!("mtu*{k}");
    }
    let min_hdr: u32 = if v4 { 40 } else { 60 };
    if let Some(k) = try_div(1500 - min_hdr) {
        return format!("mtu*{k}");
    }
    if has_ts {
        if let Some(k) = try_div(1500 - min_hdr - 12) {
            return format!("mtu*{k}");
        }
    }
    let th = if total_header > 0 { total_header as u32 } else { min_hdr };
    if let Some(k) = try_div((mss as u32 + th).min(65535)) {
        return format!("mtu*{k}");
    }
    format!("{win}")
}

pub struct ParsedOpts {
    pub layout: Vec<String>,
    pub mss: Option<u16>,
    pub ws: Option<u8>,
    /// some window-scale option (of standard length) carries a shift above 14
    pub ws_excessive: bool,
    pub ts: Option<(u32, u32)>,
    /// exactly one timestamp option and its TSval field (first four data octets) is on the wire,
    /// whatever the option's declared length: Some(TSval == 0)
    pub ts1_zero: Option<bool>,
    pub malformed: bool,
    /// layout name of the option at which a malformed list ends
    pub aborted_kind: Option<String>,
    pub ambiguous: bool,
    pub opt_plus: bool,
    /// number of `opt+` pushes a parser that does not stop at EOL would make
    pub eol_seen: bool,
    pub bytes_after_eol: Vec<u8>,
}

/// RFC 793 option walk; `stop_at_eol` = the specified behaviour; false = the deviation model of
/// finding C03-eol-continues (keep parsing the padding as options).
pub fn parse_opts(area: &[u8], stop_at_eol: bool) -> ParsedOpts {
    let mut p = ParsedOpts {
        layout: Vec::new(),
        mss: None,
        ws: None,
        ws_excessive: false,
        ts: None,
        ts1_zero: None,
        malformed: false,
        aborted_kind: None,
        ambiguous: false,
        opt_plus: false,
        eol_seen: false,
        bytes_after_eol: Vec::new(),
    };
    let mut i = 0usize;
    let (mut n_mss, mut n_ws, mut n_ts) = (0, 0, 0);
    while i < area.len() {
        let kind = area[i];
        if kind == 0 {
            let rest = &area[i + 1..];
            p.layout.push(format!("eol+{}", rest.len()));
            if rest.iter().any(|b| *b != 0) {
                p.opt_plus = true;
            }
            if !p.eol_seen {
                p.eol_seen = true;
                p.bytes_after_eol = rest.to_vec();
            }
            if stop_at_eol {
                break;
            }
            i += 1;
            continue;
        }
        if kind == 1 {
            p.layout.push("nop".to_string());
            i += 1;
            continue;
        }
        // the kind of an option is part of the layout as soon as its kind octet is read (p0f
        // records it before it looks at the length): a truncated or ill-sized final option still
        // shows in the layout, and the walk ends there
        let kind_name = |k: u8| -> String {
            match k {
                2 => "mss".into(),
                3 => "ws".into(),
                4 => "sok".into(),
                5 => "sack".into(),
                8 => "ts".into(),
                k => format!("?{k}"),
            }
        };
        if i + 1 >= area.len() {
            p.malformed = true;
            p.aborted_kind = Some(kind_name(kind));
            break;
        }
        let len = area[i + 1] as usize;
        if len < 2 || i + len > area.len() {
            p.malformed = true;
            p.aborted_kind = Some(kind_name(kind));
            break;
        }
        let data = &area[i + 2..i + len];
        match kind {
            2 => {
                p.layout.push("mss".to_string());
                n_mss += 1;
                if len == 4 {
                    p.mss = Some(u16::from_be_bytes([data[0], data[1]]));
                } else {
                    p.ambiguous = true;
                }
            }
            3 => {
                p.layout.push("ws".to_string());
                n_ws += 1;
                if len == 3 {
                    p.ws = Some(data[0]);
                    p.ws_excessive |= data[0] > 14;
                } else {
                    p.ambiguous = true;
                }
            }
            4 => {
                p.layout.push("sok".to_string());
            }
            5 => {
                p.layout.push("sack".to_string());
            }
            8 => {
                p.layout.push("ts".to_string());
                n_ts += 1;
                if len == 10 {
                    p.ts = Some((
                        u32::from_be_bytes([data[0], data[1], data[2], data[3]]),
                        u32::from_be_bytes([data[4], data[5], data[6], data[7]]),
                    ));
                } else {
                    p.ambiguous = true;
                }
                if len >= 6 {
                    p.ts1_zero = Some(data[..4] == [0, 0, 0, 0]);
                }
            }
            k => p.layout.push(format!("?{k}")),
        }
        i += len;
    }
    // A repeated MSS or window-scale option of standard length is not ambiguous: the option walk
    // of the p0f language takes every occurrence in turn, so the value reported is the last one
    // and `exws` is set as soon as any occurrence has an excessive shift.  Repeated timestamp
    // options stay unjudged (two quirks and the uptime reference depend on which one is meant).
    let _ = (n_mss, n_ws);
    if n_ts > 1 {
        p.ambiguous = true;
    }
    if n_ts != 1 {
        p.ts1_zero = None;
    }
    p
}

/// `opt_area` = the TCP option bytes exactly as they are on the wire (after padding).
pub fn ref_sig(ip: &Ip, tcp: &Tcp, opt_area: &[u8], stop_at_eol: bool) -> RefSig {
    let v4 = ip.is_v4();
    let mut quirks: Vec<String> = Vec::new();
    let (ttl, olen, ip_hdr_bytes): (u8, u16, u16) = match ip {
        Ip::V4(h) => {
            let ihl = h.ihl.unwrap_or((5 + h.options.len() / 4) as u8) & 0x0f;
            let olen = if ihl > 5 { (ihl as u16 - 5) * 4 } else { 0 };
            if h.tos & 0x03 != 0 {
                quirks.push("ecn".into());
            }
            if h.flags & 0b100 != 0 {
                quirks.push("0+".into());
            }
            if h.flags & 0b010 != 0 {
                quirks.push("df".into());
                if h.id != 0 {
                    quirks.push("id+".into());
                }
            } else if h.id == 0 {
                quirks.push("id-".into());
            }
            (h.ttl, olen, ihl as u16 * 4)
        }
        Ip::V6(h) => {
            if h.flow & 0xfffff != 0 {
                quirks.push("flow".into());
            }
            if h.tclass & 0x03 != 0 {
                quirks.push("ecn".into());
            }
            (h.hop, 0, 40)
        }
    };
    let fl = tcp.flags;
    if fl & (flags::ECE | flags::CWR) != 0 && !quirks.iter().any(|q| q == "ecn") {
        quirks.push("ecn".into());
    }
    if tcp.seq == 0 {
        quirks.push("seq-".into());
    }
    if fl & flags::ACK != 0 {
        if tcp.ack == 0 {
            quirks.push("ack-".into());
        }
    } else if tcp.ack != 0 && fl & flags::RST == 0 {
        quirks.push("ack+".into());
    }
    if fl & flags::URG != 0 {
        quirks.push("urgf+".into());
    } else if tcp.urg != 0 {
        quirks.push("uptr+".into());
    }
    if fl & flags::PSH != 0 {
        quirks.push("pushf+".into());
    }
    let p = parse_opts(opt_area, stop_at_eol);
    // "own timestamp specified as zero": decided by the TSval octets alone, also when the one
    // timestamp option has a non-standard length (p0f reads TSval at a fixed offset as well)
    if p.ts1_zero == Some(true) {
        quirks.push("ts1-".into());
    }
    if let Some((_tsval, tsecr)) = p.ts {
        let pure_syn = fl & (flags::SYN | flags::ACK | flags::FIN | flags::RST) == flags::SYN;
        if pure_syn && tsecr != 0 {
            quirks.push("ts2+".into());
        }
    }
    if p.opt_plus {
        quirks.push("opt+".into());
    }
    if p.ws_excessive {
        quirks.push("exws".into());
    }
    if p.malformed {
        quirks.push("bad".into());
    }
    quirks.sort();
    quirks.dedup();
    let has_ts = p.layout.iter().any(|o| o == "ts");
    let doff = tcp.data_offset.unwrap_or((5 + opt_area.len() / 4) as u8) as u16;
    let total_header = ip_hdr_bytes + doff * 4;
    RefSig {
        version: if v4 { "4".into() } else { "6".into() },
        ittl: ref_ittl(ttl),
        olen: format!("{olen}"),
        mss: p.mss.map(|m| m.to_string()).unwrap_or_else(|| "*".into()),
        wsize: ref_window(tcp.window, p.mss, has_ts, v4, total_header),
        wscale: p.ws.map(|m| m.to_string()).unwrap_or_else(|| "*".into()),
        olayout: p.layout,
        quirks,
        pclass: if tcp.payload.is_empty() { "0".into() } else { "+".into() },
        malformed: p.malformed,
        ambiguous_values: p.ambiguous,
        ts1_decided: p.ts1_zero.is_some(),
        aborted_kind: p.aborted_kind.clone(),
        mss_value: p.mss,
    }
}

impl RefSig {
    pub fn text(&self) -> String {
        format!(
            "{}:{}:{}:{}:{},{}:{}:{}:{}",
            self.version,
            self.ittl,
            self.olen,
            self.mss,
            self.wsize,
            self.wscale,
            self.olayout.join(","),
            self.quirks.join(","),
            self.pclass
        )
    }
}

/// Specified MTU of a SYN: MSS + minimal IP + TCP header sizes.
pub fn ref_mtu(v4: bool, mss: u16) -> u16 {
    (mss as u32 + if v4 { 40 } else { 60 }).min(65535) as u16
}

/// Deviation model of finding C03-mtu-formula: MSS + actual IP header bytes + TCP option bytes
/// (or the whole TCP header when it has no options), saturating.
pub fn dev_mtu(ip: &Ip, tcp: &Tcp, opt_area_len: usize, mss: u16) -> u16 {
    let ip_hdr: u16 = match ip {
        Ip::V4(h) => (h.ihl.unwrap_or((5 + h.options.len() / 4) as u8) & 0x0f) as u16 * 4,
        Ip::V6(_) => 40,
    };
    let doff = tcp.data_offset.unwrap_or((5 + opt_area_len / 4) as u8) as u16;
    let mut tcp_hdr = doff * 4;
    if tcp_hdr > 20 {
        tcp_hdr -= 20;
    }
    mss.saturating_add(ip_hdr).saturating_add(tcp_hdr)
}
