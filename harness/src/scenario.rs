//! Scenario generation shared by the trace-level properties (C07, C09, C10, C15, C18, C20, C01):
//! scripted connections of several kinds, order-preserving interleavings, and uniform runners
//! around the four analyzers.

use crate::canon;
use crate::pkt::{self, flags, Endpoints, Link, Script};
use crate::rt::{guard, Rng};
use huginn_net_db::Database;
use std::sync::{Arc, OnceLock};

pub const T0: u64 = 1_700_000_000_000;

// ------------------------------------------------------------------------------------------------
// payload builders
// ------------------------------------------------------------------------------------------------

pub const UAS: [&str; 6] = [
    "Mozilla/5.0 (X11; Linux x86_64; rv:109.0) Gecko/20100101 Firefox/115.0",
    "Mozilla/5.0 (Windows NT 10.0; Win64; x64) AppleWebKit/537.36 (KHTML, like Gecko) Chrome/120.0.0.0 Safari/537.36",
    "curl/8.4.0",
    "Wget/1.21.3",
    "Mozilla/5.0 (Macintosh; Intel Mac OS X 10_15_7) AppleWebKit/605.1.15 (KHTML, like Gecko) Version/17.0 Safari/605.1.15",
    "python-requests/2.31.0",
];

pub fn http1_request(r: &mut Rng, id: u64) -> Vec<u8> {
    let method = *r.pick(&["GET", "POST", "HEAD", "PUT", "OPTIONS"]);
    let mut s = format!("{method} /p{id}/{} HTTP/1.{}\r\n", r.below(1000), if r.chance(1, 5) { 0 } else { 1 });
    s.push_str(&format!("Host: h{id}.example.org\r\n"));
    if r.chance(4, 5) {
        s.push_str(&format!("User-Agent: {}\r\n", r.pick(&UAS)));
    }
    s.push_str("Accept: */*\r\n");
    if r.chance(1, 2) {
        s.push_str(&format!("Accept-Language: {}\r\n", r.pick(&["en-US,en;q=0.9", "de;q=0.7, fr; q=0.9", "es", "ja,en;q=0.1"])));
    }
    if r.chance(1, 2) {
        s.push_str("Accept-Encoding: gzip, deflate\r\n");
    }
    if r.chance(1, 3) {
        s.push_str(&format!("Cookie: sid={id}; theme=dark\r\n"));
    }
    if r.chance(1, 3) {
        s.push_str(&format!("Referer: http://ref{id}.example/\r\n"));
    }
    if r.chance(1, 3) {
        s.push_str(&format!("X-Conn-Id: {id}\r\n"));
    }
    s.push_str("Connection: keep-alive\r\n\r\n");
    let mut b = s.into_bytes();
    if method == "POST" || method == "PUT" {
        let n = r.usize(200);
        b.extend(r.bytes(n));
    }
    b
}

pub fn http1_response(r: &mut Rng, id: u64) -> Vec<u8> {
    let mut s = format!("HTTP/1.1 {} OK\r\n", r.pick(&[200u16, 204, 301, 404, 500]));
    if r.chance(4, 5) {
        s.push_str(&format!("Server: {}\r\n", r.pick(&["nginx/1.24.0", "Apache/2.4.57 (Debian)", "Microsoft-IIS/10.0", "lighttpd/1.4.69"])));
    }
    s.push_str("Date: Tue, 14 Nov 2023 22:13:20 GMT\r\n");
    s.push_str("Content-Type: text/html\r\n");
    if r.chance(1, 2) {
        s.push_str(&format!("X-Conn-Id: {id}\r\n"));
    }
    let body_len = r.usize(300);
    s.push_str(&format!("Content-Length: {body_len}\r\nConnection: keep-alive\r\n\r\n"));
    let mut b = s.into_bytes();
    b.extend(r.bytes(body_len));
    b
}

/// Minimal well-formed ClientHello record (TLS 1.2 legacy version, optional SNI / ALPN /
/// supported_versions / signature_algorithms), enough for trace-level properties.  C04 has its
/// own full generator.
pub fn client_hello(r: &mut Rng, id: u64, pad_to: usize) -> Vec<u8> {
    let mut body = Vec::new();
    body.extend_from_slice(&[0x03, 0x03]);
    body.extend(r.bytes(32));
    let sid = r.usize(2) * 32;
    body.push(sid as u8);
    body.extend(r.bytes(sid));
    let all = [0x1301u16, 0x1302, 0x1303, 0xc02b, 0xc02f, 0xc02c, 0xc030, 0xcca9, 0xcca8, 0xc013, 0xc014, 0x009c, 0x009d, 0x002f, 0x0035];
    let nc = 1 + r.usize(all.len());
    let mut cs = Vec::new();
    if r.chance(1, 2) {
        cs.extend_from_slice(&0x5a5au16.to_be_bytes());
    }
    for c in all.iter().take(nc) {
        cs.extend_from_slice(&c.to_be_bytes());
    }
    body.extend_from_slice(&(cs.len() as u16).to_be_bytes());
    body.extend(cs);
    body.extend_from_slice(&[1, 0]);
    let mut exts = Vec::new();
    fn push_ext(exts: &mut Vec<u8>, t: u16, data: &[u8]) {
        exts.extend_from_slice(&t.to_be_bytes());
        exts.extend_from_slice(&(data.len() as u16).to_be_bytes());
        exts.extend_from_slice(data);
    }
    macro_rules! ext {
        ($t:expr, $d:expr) => {
            push_ext(&mut exts, $t, $d)
        };
    }
    if r.chance(4, 5) {
        let name = format!("host{id}.example.com");
        let mut d = Vec::new();
        d.extend_from_slice(&((name.len() + 3) as u16).to_be_bytes());
        d.push(0);
        d.extend_from_slice(&(name.len() as u16).to_be_bytes());
        d.extend_from_slice(name.as_bytes());
        ext!(0x0000, &d);
    }
    ext!(0x000a, &[0x00, 0x04, 0x00, 0x1d, 0x00, 0x17]);
    ext!(0x000b, &[0x01, 0x00]);
    if r.chance(1, 2) {
        ext!(0x0010, &[0x00, 0x0c, 0x02, b'h', b'2', 0x08, b'h', b't', b't', b'p', b'/', b'1', b'.', b'1']);
    }
    ext!(0x000d, &[0x00, 0x08, 0x04, 0x03, 0x08, 0x04, 0x04, 0x01, 0x02, 0x01]);
    if r.chance(1, 2) {
        ext!(0x002b, &[0x04, 0x03, 0x04, 0x03, 0x03]);
    }
    if r.chance(1, 3) {
        ext!(0x3a3a, &[]);
    }
    // padding extension up to the requested size
    let cur = 4 + body.len() + 2 + exts.len();
    if pad_to > cur + 4 {
        let n = pad_to - cur - 4;
        ext!(0x0015, &vec![0u8; n]);
    }
    body.extend_from_slice(&(exts.len() as u16).to_be_bytes());
    body.extend(exts);
    let mut hs = vec![0x01, (body.len() >> 16) as u8, (body.len() >> 8) as u8, body.len() as u8];
    hs.extend(body);
    let mut rec = vec![0x16, 0x03, 0x01, (hs.len() >> 8) as u8, hs.len() as u8];
    rec.extend(hs);
    rec
}

pub fn server_hello_like() -> Vec<u8> {
    // handshake record with a ServerHello (type 2) of 38+ bytes
    let mut body = vec![0x03, 0x03];
    body.extend_from_slice(&[7u8; 32]);
    body.push(0);
    body.extend_from_slice(&[0x13, 0x01, 0x00]);
    let mut hs = vec![0x02, 0, 0, body.len() as u8];
    hs.extend(body);
    let mut rec = vec![0x16, 0x03, 0x03, 0, hs.len() as u8];
    rec.extend(hs);
    rec
}

pub fn app_data(r: &mut Rng, n: usize) -> Vec<u8> {
    let mut rec = vec![0x17, 0x03, 0x03, (n >> 8) as u8, n as u8];
    rec.extend(r.bytes(n));
    rec
}

// ------------------------------------------------------------------------------------------------
// connections
// ------------------------------------------------------------------------------------------------

#[derive(Clone, Copy, Debug, PartialEq, Eq)]
pub enum Kind {
    TcpHandshake,
    Tls,
    Http1,
    Http2,
    Http2Hostile,
    Garbage,
    Truncated,
}

#[derive(Clone, Debug)]
pub struct Conn {
    pub kind: Kind,
    pub ep: Endpoints,
    /// (virtual arrival time, frame)
    pub frames: Vec<(u64, Vec<u8>)>,
}

/// Optional provider of HTTP/2 byte streams (installed once h2gen is available).
pub type H2Provider = fn(&mut Rng, u64, bool) -> (Vec<u8>, Vec<u8>);
static H2: OnceLock<H2Provider> = OnceLock::new();
pub fn install_h2(p: H2Provider) {
    let _ = H2.set(p);
}

/// hand-made HTTP/2 request/response used until a full encoder is installed:
/// preface, SETTINGS, HEADERS(END_HEADERS) with static-table and literal fields.
pub fn simple_h2(r: &mut Rng, id: u64, hostile: bool) -> (Vec<u8>, Vec<u8>) {
    simple_h2_ex(r, id, hostile, false)
}

/// `frame_size_play`: the request may announce SETTINGS_MAX_FRAME_SIZE = 1 MiB and the response may
/// carry its header block in one HEADERS frame of more than 16384 octets (which an analyzer that
/// keeps to the default limit does not report -- alone or in company).
pub fn simple_h2_ex(r: &mut Rng, id: u64, hostile: bool, frame_size_play: bool) -> (Vec<u8>, Vec<u8>) {
    fn frame(t: u8, fl: u8, sid: u32, payload: &[u8]) -> Vec<u8> {
        let mut f = vec![(payload.len() >> 16) as u8, (payload.len() >> 8) as u8, payload.len() as u8, t, fl];
        f.extend_from_slice(&sid.to_be_bytes());
        f.extend_from_slice(payload);
        f
    }
    fn lit(name: &str, value: &str, indexing: bool) -> Vec<u8> {
        let mut b = vec![if indexing { 0x40 } else { 0x00 }, name.len() as u8];
        b.extend_from_slice(name.as_bytes());
        b.push(value.len() as u8);
        b.extend_from_slice(value.as_bytes());
        b
    }
    let mut req = b"PRI * HTTP/2.0\r\n\r\nSM\r\n\r\n".to_vec();
    if frame_size_play && r.chance(1, 4) {
        // the client also announces SETTINGS_MAX_FRAME_SIZE = 1 MiB (legal: 2^14..2^24-1)
        req.extend(frame(4, 0, 0, &[0, 3, 0, 0, 0, 100, 0, 4, 0, 1, 0, 0, 0, 5, 0, 0x10, 0, 0]));
    } else {
        req.extend(frame(4, 0, 0, &[0, 3, 0, 0, 0, 100, 0, 4, 0, 1, 0, 0]));
    }
    let mut block = vec![0x82, 0x86, 0x84]; // :method GET, :scheme http, :path /
    block.extend(lit(":authority", &format!("h{id}.example"), hostile || r.chance(1, 2)));
    let ua: &str = *r.pick(&UAS);
    block.extend(lit("user-agent", ua, r.chance(1, 2)));
    block.extend(lit("x-conn-id", &id.to_string(), true));
    if hostile {
        match r.below(4) {
            0 => block.insert(0, 0x20),                // dynamic table size update to 0
            1 => block.extend_from_slice(&[0x3f, 0xe1, 0x7f]), // size update (misplaced) to 16384
            2 => block.push(0xbe),                      // indexed field 62 (first dynamic entry)
            _ => block.extend_from_slice(&[0xbf, 0xc0]), // indexed 63, 64 (may not exist)
        }
    }
    if hostile && r.chance(1, 3) {
        // PADDED and/or PRIORITY framing whose Pad Length does not fit what is left of the
        // payload (hostile: the frame is malformed, everything else on the analyzer must go on)
        let padded = r.chance(3, 4);
        let prio = r.chance(3, 4);
        let mut payload = Vec::new();
        if padded {
            let full = block.len() + 1 + if prio { 5 } else { 0 };
            let pl = match r.below(5) {
                0 => full.saturating_sub(1 + r.usize(7)),
                1 => full,
                2 => block.len(),
                3 => 255,
                _ => r.usize(full + 2),
            };
            payload.push(pl.min(255) as u8);
        }
        if prio {
            payload.extend_from_slice(&[0x80, 0, 0, 0, 200]);
        }
        payload.extend_from_slice(&block);
        let fl = 0x05 | if padded { 0x08 } else { 0 } | if prio { 0x20 } else { 0 };
        req.extend(frame(1, fl, 1, &payload));
    } else {
        req.extend(frame(1, 0x05, 1, &block));
    }
    let mut res = frame(4, 0, 0, &[]);
    let mut rb = vec![0x88]; // :status 200
    let srv: &str = *r.pick(&["nginx", "h2o/2.2.6", "envoy"]);
    rb.extend(lit("server", srv, r.chance(1, 2)));
    rb.extend(lit("x-conn-id", &id.to_string(), true));
    if hostile && r.chance(1, 2) {
        rb.push(0xbe);
    }
    if frame_size_play && r.chance(1, 6) {
        // a header block in one HEADERS frame of more than 16384 octets (one long field value):
        // whether such a frame is acceptable must not depend on what another connection announced
        let n = 16500 + r.usize(900);
        let mut big = vec![0x00, 5];
        big.extend_from_slice(b"x-big");
        big.push(0x7f);
        let mut rest = n - 127;
        while rest >= 128 {
            big.push((rest % 128) as u8 | 0x80);
            rest /= 128;
        }
        big.push(rest as u8);
        big.extend(std::iter::repeat(b'v').take(n));
        rb.extend(big);
    }
    res.extend(frame(1, 0x04, 1, &rb));
    (req, res)
}

/// HTTP/2 request/response built with the full HPACK encoder (varied representations, Huffman,
/// dynamic-table inserts and references); single HEADERS frame with END_HEADERS.
pub fn rich_h2(r: &mut Rng, id: u64, hostile: bool) -> (Vec<u8>, Vec<u8>) {
    use crate::h2gen::{self, Encoder, HeadersOpts, Indexing, Repr};
    fn repr(r: &mut Rng) -> Repr {
        match r.below(5) {
            0 => Repr::Indexed,
            1 => Repr::PLAIN,
            2 => Repr::lit(Indexing::Incremental, true, true),
            3 => Repr::lit(Indexing::Never, r.chance(1, 2), r.chance(1, 2)),
            _ => Repr::lit(Indexing::Incremental, r.chance(1, 2), false),
        }
    }
    let ua: &str = *r.pick(&UAS);
    let auth = format!("h{id}.example");
    let cid = id.to_string();
    let mut fields: Vec<(String, String)> = vec![
        (":method".into(), (*r.pick(&["GET", "POST"])).to_string()),
        (":scheme".into(), "https".into()),
        (":path".into(), format!("/r/{}", r.below(100))),
        (":authority".into(), auth),
    ];
    if r.chance(1, 2) {
        fields.swap(1, 3);
    }
    fields.push(("user-agent".into(), ua.to_string()));
    fields.push(("accept".into(), "*/*".into()));
    if r.chance(1, 2) {
        fields.push(("accept-language".into(), "en-US,en;q=0.9".into()));
    }
    if r.chance(1, 2) {
        fields.push(("cookie".into(), format!("sid={id}")));
    }
    fields.push(("x-conn-id".into(), cid.clone()));
    if r.chance(1, 3) {
        fields.push(("x-conn-id".into(), cid.clone()));
    }
    let mut enc = Encoder::new();
    let mut block = Vec::new();
    if hostile && r.chance(1, 3) {
        enc.size_update(&mut block, *r.pick(&[0usize, 64, 4096]));
    }
    for (n, v) in &fields {
        enc.field(&mut block, n.as_bytes(), v.as_bytes(), repr(r));
    }
    if hostile {
        match r.below(3) {
            0 => enc.raw_indexed(&mut block, 62 + r.usize(4)),
            1 => block.extend_from_slice(&[0x3f, 0xe1, 0x7f]),
            _ => enc.raw_indexed(&mut block, 70 + r.usize(60)),
        }
    }
    let mut pre = h2gen::settings(&[(1, 65536), (3, 1000), (4, 6291456)]);
    if r.chance(1, 2) {
        pre.extend_from_slice(&h2gen::window_update(0, 15663105));
    }
    let req = h2gen::request_bytes(&pre, &block, &HeadersOpts::plain(1), &[]);
    let mut enc = Encoder::new();
    let mut rb = Vec::new();
    let server: &str = *r.pick(&["nginx", "h2o/2.2.6", "envoy", "cloudflare"]);
    let status = (*r.pick(&["200", "204", "404"])).to_string();
    let rf: Vec<(String, String)> = vec![(":status".into(), status), ("server".into(), server.into()), ("content-type".into(), "text/html".into()), ("x-conn-id".into(), cid)];
    for (n, v) in &rf {
        enc.field(&mut rb, n.as_bytes(), v.as_bytes(), repr(r));
    }
    if hostile && r.chance(1, 2) {
        enc.raw_indexed(&mut rb, 62 + r.usize(3));
    }
    let mut o = HeadersOpts::plain(1);
    o.end_stream = false;
    let body_len = r.usize(120);
    let body = r.bytes(body_len);
    let res = h2gen::response_bytes(&h2gen::settings(&[(3, 100)]), &rb, &o, &h2gen::data(1, &body, true, None));
    (req, res)
}

pub fn ep_for(r: &mut Rng, id: u64, v6: bool) -> Endpoints {
    let cport = 1025 + ((id * 7 + r.below(50000)) % 64000) as u16;
    let sport = *r.pick(&[80u16, 443, 8080, 8443]);
    // (a connection from an address and port to the same address and port has no directions)
    let cport = if cport == sport { cport + 1 } else { cport };
    if r.chance(1, 10) {
        // loopback-style connection: client and server on the same address
        return if v6 {
            let a: std::net::IpAddr = format!("2001:db8:c::{:x}", 1 + id % 0xfffe).parse().unwrap();
            Endpoints { client: a, server: a, cport, sport }
        } else {
            let a = [127, 1 + (id >> 16) as u8 % 200, (id >> 8) as u8, id as u8];
            Endpoints::v4(a, cport, a, sport)
        };
    }
    if v6 && r.chance(1, 8) {
        // IPv4-mapped IPv6 endpoints: IPv6 packets, to be reported with their IPv6 addresses
        return Endpoints {
            client: format!("::ffff:10.{}.{}.{}", 1 + (id >> 16) % 200, (id >> 8) & 0xff, id & 0xff).parse().unwrap(),
            server: format!("::ffff:172.16.{}.{}", id % 250, 1 + id % 200).parse().unwrap(),
            cport,
            sport,
        };
    }
    if v6 {
        Endpoints {
            client: format!("2001:db8:a::{:x}", 1 + id % 0xfffe).parse().unwrap(),
            server: format!("2001:db8:b::{:x}", 1 + (id * 3) % 0xfffe).parse().unwrap(),
            cport,
            sport,
        }
    } else {
        Endpoints::v4(
            [10, 1 + (id >> 16) as u8 % 200, (id >> 8) as u8, id as u8],
            cport,
            [172, 16, (id % 250) as u8, 1 + (id % 200) as u8],
            sport,
        )
    }
}

fn cuts(r: &mut Rng, len: usize, max_parts: usize) -> Vec<usize> {
    if len < 2 {
        return vec![];
    }
    let k = r.usize(max_parts);
    let mut c: Vec<usize> = (0..k).map(|_| 1 + r.usize(len - 1)).collect();
    c.sort();
    c.dedup();
    c
}

/// Build one scripted connection of the given kind.  `base` = virtual time of its first frame.
pub fn gen_conn(r: &mut Rng, id: u64, kind: Kind, base: u64) -> Conn {
    gen_conn_ep(r, id, kind, base, None)
}

/// Like `gen_conn`, with the endpoints chosen by the caller (e.g. several connections between the
/// same two hosts).
pub fn gen_conn_ep(r: &mut Rng, id: u64, kind: Kind, base: u64, ep: Option<Endpoints>) -> Conn {
    let v6 = r.chance(1, 5);
    let ep = match ep {
        Some(e) => e,
        None => ep_for(r, id, v6),
    };
    let link = if r.chance(1, 6) {
        Link::RawIp
    } else if r.chance(1, 8) {
        // MAC addresses whose bytes read like an IP header / a loopback family word
        let x = [r.u8(), r.u8(), r.u8(), r.u8(), r.u8(), r.u8()];
        pkt::lookalike_macs(r.below(6), x)
    } else {
        Link::Ethernet
    };
    let mut s = Script::new(ep.clone(), link, r.u32(), r.u32());
    if r.chance(1, 5) {
        // per-packet IPv6 flow labels / IPv4 identification values on the data segments
        s.vary_ip.set(r.next_u64() | 1);
    }
    if r.chance(1, 12) {
        // every packet is a "first fragment" (More Fragments set, offset 0) holding the whole segment
        s.v4_flags = Some(0b001);
    } else if r.chance(1, 10) {
        // IP options come and go between the packets of the connection
        s.v4_opt_alt = true;
    }
    if r.chance(1, 6) {
        // Ethernet minimum-frame padding (and, half of the time, a captured FCS) after the IP datagram
        s.eth_trailer = 1 + r.below(2) as u8;
    }
    let tsc = r.u32();
    let tss = r.u32();
    let with_ts = r.chance(2, 3);
    let syn_opts = |mss: u16, ts: u32| {
        let mut o = pkt::opt_mss(mss);
        o.extend(pkt::opt_sok());
        if with_ts {
            o.extend(pkt::opt_ts(ts, 0));
        }
        o.extend(pkt::opt_nop());
        o.extend(pkt::opt_ws(7));
        o
    };
    if matches!(kind, Kind::Http1 | Kind::Http2) && r.chance(1, 10) {
        // opened by a SYN carrying FIN / RST / URG / PSH as well: the TCP analyzer rejects the
        // invalid combinations, the HTTP analyzer still tracks the connection
        let extra = *r.pick(&[flags::FIN, flags::RST, flags::URG, flags::PSH, flags::FIN | flags::PSH]);
        let f = s.seg(true, s.c_isn, 0, flags::SYN | extra, syn_opts(1460, tsc), &[]);
        s.frames.push(f);
    } else {
        s.syn(syn_opts(1460, tsc));
    }
    s.syn_ack(syn_opts(1440, tss));
    s.ack();
    match kind {
        Kind::TcpHandshake => {
            // a few more timestamped pure ACKs so that uptime estimation happens
            if with_ts {
                let f = s.seg(true, s.c_next, s.s_next, flags::ACK, ts_only(tsc.wrapping_add(100)), &[]);
                s.frames.push(f);
                let f = s.seg(false, s.s_next, s.c_next, flags::ACK, ts_only(tss.wrapping_add(25)), &[]);
                s.frames.push(f);
            }
        }
        Kind::Tls => {
            let size = *r.pick(&[0usize, 0, 517, 1800, 4000]);
            let mut hello = client_hello(r, id, size);
            let c = cuts(r, hello.len(), 4).into_iter().filter(|x| *x >= 5).collect::<Vec<_>>();
            if r.chance(1, 4) {
                // further records coalesced into the segment that completes the hello (0-RTT early
                // data, a change_cipher_spec): bytes after the ClientHello record belong to no result
                let extra = if r.chance(1, 2) { app_data(r, 30) } else { vec![0x14, 0x03, 0x03, 0x00, 0x01, 0x01] };
                hello.extend(extra);
            }
            s.c_stream(&hello, &c);
            s.s_stream(&server_hello_like(), &[]);
            if r.chance(1, 2) {
                let a = app_data(r, 40);
                s.c_data(&a);
            }
        }
        Kind::Http1 => {
            let req = http1_request(r, id);
            let res = http1_response(r, id);
            let c = cuts(r, req.len(), 3);
            let before = s.frames.len();
            s.c_stream(&req, &c);
            reorder_tail(r, &mut s.frames, before);
            let c = cuts(r, res.len(), 3);
            let before = s.frames.len();
            s.s_stream(&res, &c);
            reorder_tail(r, &mut s.frames, before);
        }
        Kind::Http2 | Kind::Http2Hostile => {
            let hostile = kind == Kind::Http2Hostile;
            let (req, res) = match H2.get() {
                Some(p) => p(r, id, hostile),
                None if r.chance(2, 3) => rich_h2(r, id, hostile),
                None => simple_h2_ex(r, id, hostile, true),
            };
            let c = cuts(r, req.len(), 3);
            let before = s.frames.len();
            s.c_stream(&req, &c);
            reorder_tail(r, &mut s.frames, before);
            let c = cuts(r, res.len(), 2);
            let before = s.frames.len();
            s.s_stream(&res, &c);
            reorder_tail(r, &mut s.frames, before);
        }
        Kind::Garbage => {
            for _ in 0..1 + r.usize(4) {
                let n = 1 + r.usize(300);
                let b = r.bytes(n);
                if r.chance(1, 2) {
                    s.c_data(&b);
                } else {
                    s.s_data(&b);
                }
            }
        }
        Kind::Truncated => {
            let req = http1_request(r, id);
            let n = 1 + r.usize(req.len() - 1);
            s.c_data(&req[..n.min(req.len() - 1)]);
            let hello = client_hello(r, id, 600);
            let m = 5 + r.usize(hello.len() - 6);
            s.s_data(&hello[..m]);
        }
    }
    let mut t = base;
    let frames = s
        .frames
        .into_iter()
        .map(|f| {
            t += *r.pick(&[0u64, 1, 3, 20, 30, 120]);
            (t, f)
        })
        .collect();
    Conn { kind, ep, frames }
}

/// One connection in five delivers the segments of a message out of order (the network
/// reordered them): two neighbouring segments swapped, or the segment with the first byte last.
fn reorder_tail(r: &mut Rng, frames: &mut [Vec<u8>], from: usize) {
    let n = frames.len().saturating_sub(from);
    if n < 2 || !r.chance(1, 5) {
        return;
    }
    if r.chance(1, 2) {
        let k = from + r.usize(n - 1);
        frames.swap(k, k + 1);
    } else {
        frames[from..].rotate_left(1);
    }
}

fn ts_only(v: u32) -> Vec<u8> {
    let mut o = pkt::opt_nop();
    o.extend(pkt::opt_nop());
    o.extend(pkt::opt_ts(v, 1));
    o
}

/// One frame of a merged trace.
#[derive(Clone, Debug)]
pub struct TFrame {
    pub at_ms: u64,
    pub conn: usize,
    pub frame: Vec<u8>,
}

#[derive(Clone, Copy, Debug)]
pub enum Mix {
    Sequential,
    RoundRobin,
    Riffle,
    HostileFirst,
    Bursts,
}

/// Order-preserving interleaving of the connections' frames.
pub fn interleave(r: &mut Rng, conns: &[Conn], mix: Mix) -> Vec<TFrame> {
    let mut pos = vec![0usize; conns.len()];
    let total: usize = conns.iter().map(|c| c.frames.len()).sum();
    let mut out = Vec::with_capacity(total);
    let mut order: Vec<usize> = (0..conns.len()).collect();
    if let Mix::HostileFirst = mix {
        order.sort_by_key(|i| match conns[*i].kind {
            Kind::Http2Hostile | Kind::Garbage | Kind::Truncated => 0,
            _ => 1,
        });
    }
    let mut rr = 0usize;
    while out.len() < total {
        let live: Vec<usize> = order.iter().copied().filter(|i| pos[*i] < conns[*i].frames.len()).collect();
        let pick = match mix {
            Mix::Sequential | Mix::HostileFirst => live[0],
            Mix::RoundRobin => {
                rr += 1;
                live[rr % live.len()]
            }
            Mix::Riffle => live[r.usize(live.len())],
            Mix::Bursts => {
                let c = live[r.usize(live.len())];
                let burst = 1 + r.usize(4);
                for _ in 1..burst {
                    if pos[c] < conns[c].frames.len() {
                        let (t, f) = &conns[c].frames[pos[c]];
                        out.push(TFrame { at_ms: *t, conn: c, frame: f.clone() });
                        pos[c] += 1;
                    }
                }
                c
            }
        };
        if pos[pick] < conns[pick].frames.len() {
            let (t, f) = &conns[pick].frames[pos[pick]];
            out.push(TFrame { at_ms: *t, conn: pick, frame: f.clone() });
            pos[pick] += 1;
        }
    }
    out
}

// ------------------------------------------------------------------------------------------------
// runners
// ------------------------------------------------------------------------------------------------

static DB: OnceLock<Arc<Database>> = OnceLock::new();
pub fn db() -> Arc<Database> {
    DB.get_or_init(|| Arc::new(Database::load_default().expect("bundled database loads"))).clone()
}
pub fn db_static() -> &'static Database {
    static LEAK: OnceLock<&'static Database> = OnceLock::new();
    LEAK.get_or_init(|| Box::leak(Box::new(Database::load_default().expect("bundled database loads"))))
}

#[derive(Clone, Copy, Debug, PartialEq, Eq)]
pub enum Which {
    Tcp,
    Http,
    Tls,
    Unified,
}

pub enum Runner {
    Tcp(huginn_net_tcp::HuginnNetTcp, ttl_cache::TtlCache<huginn_net_tcp::ConnectionKey, huginn_net_tcp::TcpTimestamp>),
    Http(huginn_net_http::HuginnNetHttp),
    Tls(huginn_net_tls::HuginnNetTls),
    Unified(huginn_net::HuginnNet<'static>),
}

impl Runner {
    pub fn new(which: Which, cap: usize, with_db: bool) -> Runner {
        Runner::with_tracker(which, cap, cap, with_db)
    }
    /// `tracker_cap`: capacity of the caller-supplied uptime tracker of the TCP analyzer's
    /// per-packet entry (one entry per direction of a connection; it is the harness's table, not
    /// part of the analyzer's configured connection capacity)
    pub fn with_tracker(which: Which, cap: usize, tracker_cap: usize, with_db: bool) -> Runner {
        match which {
            Which::Tcp => Runner::Tcp(
                huginn_net_tcp::HuginnNetTcp::new(if with_db { Some(db()) } else { None }, cap).expect("tcp analyzer"),
                ttl_cache::TtlCache::new(tracker_cap),
            ),
            Which::Http => Runner::Http(
                huginn_net_http::HuginnNetHttp::new(if with_db { Some(db()) } else { None }, cap).expect("http analyzer"),
            ),
            Which::Tls => Runner::Tls(huginn_net_tls::HuginnNetTls::new(cap)),
            Which::Unified => {
                let cfg = huginn_net::AnalysisConfig { http_enabled: true, tcp_enabled: true, tls_enabled: true, matcher_enabled: with_db };
                Runner::Unified(huginn_net::HuginnNet::new(if with_db { Some(db_static()) } else { None }, cap, Some(cfg)).expect("unified analyzer"))
            }
        }
    }
    pub fn with_filter_tcp(self, f: huginn_net_tcp::FilterConfig) -> Runner {
        match self {
            Runner::Tcp(a, t) => Runner::Tcp(a.with_filter(f), t),
            other => other,
        }
    }
    /// Feed one frame at virtual time `at_ms`; canonical lines of everything reported.
    pub fn feed(&mut self, at_ms: u64, frame: &[u8]) -> Result<Vec<String>, String> {
        huginn_net_tcp::verif_hooks::clock::set_ms(at_ms);
        match self {
            Runner::Tcp(a, t) => guard(|| a.verif_process_packet(frame, t)).map(|r| r.map(|x| canon::tcp(&x)).unwrap_or_default()),
            Runner::Http(a) => guard(|| a.verif_process_packet(frame)).map(|r| r.map(|x| canon::http(&x)).unwrap_or_default()),
            Runner::Tls(a) => guard(|| a.verif_process_packet(frame)).map(|r| match r {
                Ok(Some(x)) => vec![canon::tls(&x)],
                _ => vec![],
            }),
            Runner::Unified(a) => guard(|| a.analyze_tcp(frame)).map(|x| canon::unified(&x)),
        }
    }
}
