//! Worker-pool driver and event log shared by C10, C18 (and C01/C15 pool paths).
//!
//! Events come from two places: the client boundary (dispatch call / return, recorded by the
//! harness) and the `verif-hooks` points inside the pools (worker chosen, dequeue, processed).
//! Every event gets a global sequence number; the callback also injects seeded yields / short
//! sleeps *between* critical sections to widen the interleavings explored.

use crate::canon;
use std::collections::HashMap;
use std::sync::atomic::{AtomicU64, Ordering};
use std::sync::mpsc::{channel, Receiver};
use std::sync::{Arc, Mutex};
use std::time::{Duration, Instant};

#[derive(Clone, Copy, Debug, PartialEq, Eq, Hash)]
pub enum PoolKind {
    Tcp,
    Http,
    Tls,
}

#[derive(Clone, Copy, Debug, PartialEq, Eq, Hash)]
pub enum Site {
    DispatchEnter,
    DispatchChosen,
    DispatchQueued,
    DispatchDropped,
    WorkerDequeue,
    WorkerProcessed,
}

#[derive(Clone, Debug)]
pub struct Ev {
    pub seq: u64,
    pub site: Site,
    pub worker: usize,
    pub frame: u64, // fnv hash of the frame bytes (0 when the point carries no frame)
    /// bytes allocated so far by the thread that reached the point (counting allocator)
    pub thread_alloc: u64,
}

pub fn fnv(b: &[u8]) -> u64 {
    let mut h: u64 = 0xcbf29ce484222325;
    for x in b {
        h ^= *x as u64;
        h = h.wrapping_mul(0x100000001b3);
    }
    h | 1
}

pub struct Log {
    pub events: Mutex<Vec<Ev>>,
    pub seq: AtomicU64,
    pub processed: AtomicU64,
    /// frames that reached the `WorkerDequeue` point (in flight inside a worker = dequeued - processed)
    pub dequeued: AtomicU64,
    pub perturb_seed: AtomicU64,
    /// 0 = no perturbation; otherwise 1/n of the points yield or sleep
    pub perturb_rate: AtomicU64,
}

static LOG: Log = Log {
    events: Mutex::new(Vec::new()),
    seq: AtomicU64::new(0),
    processed: AtomicU64::new(0),
    dequeued: AtomicU64::new(0),
    perturb_seed: AtomicU64::new(0),
    perturb_rate: AtomicU64::new(0),
};

pub fn log() -> &'static Log {
    &LOG
}

fn on_point(site: Site, worker: usize, packet: &[u8]) {
    let l = log();
    let seq = l.seq.fetch_add(1, Ordering::SeqCst);
    let frame = if packet.is_empty() { 0 } else { fnv(packet) };
    if let Ok(mut e) = l.events.lock() {
        e.push(Ev { seq, site, worker, frame, thread_alloc: crate::alloc::thread_snap().alloc });
    }
    if site == Site::WorkerProcessed {
        l.processed.fetch_add(1, Ordering::SeqCst);
    }
    if site == Site::WorkerDequeue {
        l.dequeued.fetch_add(1, Ordering::SeqCst);
    }
    let rate = l.perturb_rate.load(Ordering::Relaxed);
    if rate > 0 {
        // seeded, but keyed on the point so that different runs of the same seed take the same
        // decisions at the same logical points
        let mut x = l.perturb_seed.load(Ordering::Relaxed) ^ frame ^ ((site as u64) << 56) ^ (worker as u64).wrapping_mul(0x9E3779B97F4A7C15);
        x ^= x >> 33;
        x = x.wrapping_mul(0xff51afd7ed558ccd);
        x ^= x >> 33;
        if x % rate == 0 {
            match (x >> 8) % 3 {
                0 => std::thread::yield_now(),
                1 => std::thread::sleep(Duration::from_micros(20 + (x >> 16) % 200)),
                _ => {
                    for _ in 0..((x >> 16) % 2000) {
                        std::hint::spin_loop();
                    }
                }
            }
        }
    }
}

macro_rules! install_for {
    ($krate:ident) => {{
        use $krate::verif_hooks::sched::{install, Site as S};
        install(Some(Arc::new(|site: S, worker: usize, packet: &[u8]| {
            let s = match site {
                S::DispatchEnter => Site::DispatchEnter,
                S::DispatchChosen => Site::DispatchChosen,
                S::DispatchQueued => Site::DispatchQueued,
                S::DispatchDropped => Site::DispatchDropped,
                S::WorkerDequeue => Site::WorkerDequeue,
                S::WorkerProcessed => Site::WorkerProcessed,
            };
            on_point(s, worker, packet);
        })));
    }};
}

pub fn install_hooks() {
    install_for!(huginn_net_tcp);
    install_for!(huginn_net_http);
    install_for!(huginn_net_tls);
}

pub fn reset_log(perturb_seed: u64, perturb_rate: u64) {
    let l = log();
    if let Ok(mut e) = l.events.lock() {
        e.clear();
        // pushes at the hook points must not allocate (the points are used for allocation accounting)
        if e.capacity() < (1 << 16) {
            e.reserve(1 << 16);
        }
    }
    l.seq.store(0, Ordering::SeqCst);
    l.processed.store(0, Ordering::SeqCst);
    l.dequeued.store(0, Ordering::SeqCst);
    l.perturb_seed.store(perturb_seed, Ordering::SeqCst);
    l.perturb_rate.store(perturb_rate, Ordering::SeqCst);
}

pub fn take_events() -> Vec<Ev> {
    log().events.lock().map(|mut e| std::mem::take(&mut *e)).unwrap_or_default()
}

#[derive(Clone, Copy, Debug)]
pub struct PoolCfg {
    pub workers: usize,
    pub queue: usize,
    pub batch: usize,
    pub timeout_ms: u64,
    pub max_conn: usize,
    pub with_db: bool,
}

pub enum Handle {
    Tcp(Arc<huginn_net_tcp::WorkerPool>, Receiver<huginn_net_tcp::TcpAnalysisResult>),
    Http(Arc<huginn_net_http::WorkerPool>, Receiver<huginn_net_http::HttpAnalysisResult>),
    Tls(Arc<huginn_net_tls::WorkerPool>, Receiver<huginn_net_tls::TlsClientOutput>),
}

#[derive(Clone, Debug, Default)]
pub struct Stats {
    pub dispatched: u64,
    pub dropped: u64,
    pub worker_dropped: Vec<u64>,
    pub queue_sizes: Vec<usize>,
}

pub struct Filters {
    pub tcp: Option<huginn_net_tcp::FilterConfig>,
    pub http: Option<huginn_net_http::FilterConfig>,
    pub tls: Option<huginn_net_tls::FilterConfig>,
}

impl Filters {
    pub fn none() -> Filters {
        Filters { tcp: None, http: None, tls: None }
    }
}

impl Handle {
    pub fn new(kind: PoolKind, c: &PoolCfg, filters: Filters) -> Result<Handle, String> {
        let db = if c.with_db { Some(crate::scenario::db()) } else { None };
        match kind {
            PoolKind::Tcp => {
                let (tx, rx) = channel();
                let p = huginn_net_tcp::WorkerPool::new(c.workers, c.queue, c.batch, c.timeout_ms, tx, db, c.max_conn, filters.tcp)
                    .map_err(|e| e.to_string())?;
                Ok(Handle::Tcp(Arc::new(p), rx))
            }
            PoolKind::Http => {
                let (tx, rx) = channel();
                let p = huginn_net_http::WorkerPool::new(c.workers, c.queue, c.batch, c.timeout_ms, tx, db, c.max_conn, filters.http)
                    .map_err(|e| e.to_string())?;
                Ok(Handle::Http(p, rx))
            }
            PoolKind::Tls => {
                let (tx, rx) = channel();
                let p = huginn_net_tls::WorkerPool::new(c.workers, c.queue, c.batch, c.timeout_ms, tx, c.max_conn, filters.tls)
                    .map_err(|e| e.to_string())?;
                Ok(Handle::Tls(Arc::new(p), rx))
            }
        }
    }
    /// The same pool, obtained the way an application does: analyzer `with_config(..)` +
    /// `init_pool(sender)` + `worker_pool()`.  The configuration values must arrive in the pool
    /// as given (queue size as queue size, connection capacity as connection capacity).
    pub fn new_via_analyzer(kind: PoolKind, c: &PoolCfg, filters: Filters) -> Result<Handle, String> {
        let db = if c.with_db { Some(crate::scenario::db()) } else { None };
        match kind {
            PoolKind::Tcp => {
                let (tx, rx) = channel();
                let mut a = huginn_net_tcp::HuginnNetTcp::with_config(db, c.max_conn, c.workers, c.queue, c.batch, c.timeout_ms).map_err(|e| e.to_string())?;
                if let Some(f) = filters.tcp {
                    a = a.with_filter(f);
                }
                a.init_pool(tx).map_err(|e| e.to_string())?;
                let p = a.worker_pool().ok_or("init_pool left no pool")?;
                Ok(Handle::Tcp(p, rx))
            }
            PoolKind::Http => {
                let (tx, rx) = channel();
                let mut a = huginn_net_http::HuginnNetHttp::with_config(db, c.max_conn, c.workers, c.queue, c.batch, c.timeout_ms).map_err(|e| e.to_string())?;
                if let Some(f) = filters.http {
                    a = a.with_filter(f);
                }
                a.init_pool(tx).map_err(|e| e.to_string())?;
                let p = a.worker_pool().cloned().ok_or("init_pool left no pool")?;
                Ok(Handle::Http(p, rx))
            }
            PoolKind::Tls => {
                let (tx, rx) = channel();
                let mut a = huginn_net_tls::HuginnNetTls::with_config_and_max_connections(c.workers, c.queue, c.batch, c.timeout_ms, c.max_conn);
                if let Some(f) = filters.tls {
                    a = a.with_filter(f);
                }
                a.init_pool(tx).map_err(|e| e.to_string())?;
                let p = a.worker_pool().ok_or("init_pool left no pool")?;
                Ok(Handle::Tls(p, rx))
            }
        }
    }
    /// true = Queued
    pub fn dispatch(&self, frame: Vec<u8>) -> bool {
        match self {
            Handle::Tcp(p, _) => p.dispatch(frame) == huginn_net_tcp::DispatchResult::Queued,
            Handle::Http(p, _) => p.dispatch(frame) == huginn_net_http::DispatchResult::Queued,
            Handle::Tls(p, _) => p.dispatch(frame) == huginn_net_tls::DispatchResult::Queued,
        }
    }
    pub fn dispatcher(&self) -> Box<dyn Fn(Vec<u8>) -> bool + Send + Sync> {
        match self {
            Handle::Tcp(p, _) => {
                let p = p.clone();
                Box::new(move |f| p.dispatch(f) == huginn_net_tcp::DispatchResult::Queued)
            }
            Handle::Http(p, _) => {
                let p = p.clone();
                Box::new(move |f| p.dispatch(f) == huginn_net_http::DispatchResult::Queued)
            }
            Handle::Tls(p, _) => {
                let p = p.clone();
                Box::new(move |f| p.dispatch(f) == huginn_net_tls::DispatchResult::Queued)
            }
        }
    }
    pub fn stats(&self) -> Stats {
        match self {
            Handle::Tcp(p, _) => {
                let s = p.stats();
                Stats { dispatched: s.total_dispatched, dropped: s.total_dropped, worker_dropped: s.workers.iter().map(|w| w.dropped).collect(), queue_sizes: s.workers.iter().map(|w| w.queue_size).collect() }
            }
            Handle::Http(p, _) => {
                let s = p.stats();
                Stats { dispatched: s.total_dispatched, dropped: s.total_dropped, worker_dropped: s.workers.iter().map(|w| w.dropped).collect(), queue_sizes: s.workers.iter().map(|w| w.queue_size).collect() }
            }
            Handle::Tls(p, _) => {
                let s = p.stats();
                Stats { dispatched: s.total_dispatched, dropped: s.total_dropped, worker_dropped: s.workers.iter().map(|w| w.dropped).collect(), queue_sizes: s.workers.iter().map(|w| w.queue_size).collect() }
            }
        }
    }
    pub fn shutdown(&self) {
        match self {
            Handle::Tcp(p, _) => p.shutdown(),
            Handle::Http(p, _) => p.shutdown(),
            Handle::Tls(p, _) => p.shutdown(),
        }
    }
    pub fn queued_now(&self) -> usize {
        self.stats().queue_sizes.iter().sum()
    }
    /// logical drain of this pool (see `wait_drain`)
    pub fn wait_drain(&self, n: u64, watchdog: Duration) -> Drain {
        wait_drain(n, watchdog, &|| self.queued_now())
    }
    /// everything currently in the result channel, one Vec of canonical lines per result
    /// (all-empty results are dropped: they report nothing)
    pub fn drain_results(&self) -> Vec<Vec<String>> {
        let mut out = Vec::new();
        match self {
            Handle::Tcp(_, rx) => {
                for r in rx.try_iter() {
                    let l = canon::tcp(&r);
                    if !l.is_empty() {
                        out.push(l);
                    }
                }
            }
            Handle::Http(_, rx) => {
                for r in rx.try_iter() {
                    let l = canon::http(&r);
                    if !l.is_empty() {
                        out.push(l);
                    }
                }
            }
            Handle::Tls(_, rx) => {
                for r in rx.try_iter() {
                    out.push(vec![canon::tls(&r)]);
                }
            }
        }
        out
    }
}

impl Handle {
    /// Let go of the pool without calling shutdown and read the result channel until it closes:
    /// the workers finish what was accepted as Queued and end when their queues are gone.  None =
    /// the channel did not close within the budget (inconclusive).
    pub fn drop_and_collect(self, budget: Duration) -> Option<Vec<Vec<String>>> {
        fn collect<T>(rx: Receiver<T>, budget: Duration, f: impl Fn(&T) -> Vec<String>) -> Option<Vec<Vec<String>>> {
            let start = Instant::now();
            let mut out = Vec::new();
            loop {
                match rx.recv_timeout(Duration::from_millis(100)) {
                    Ok(x) => {
                        let l = f(&x);
                        if !l.is_empty() {
                            out.push(l);
                        }
                    }
                    Err(std::sync::mpsc::RecvTimeoutError::Disconnected) => return Some(out),
                    Err(std::sync::mpsc::RecvTimeoutError::Timeout) => {
                        if start.elapsed() > budget {
                            return None;
                        }
                    }
                }
            }
        }
        match self {
            Handle::Tcp(p, rx) => {
                drop(p);
                collect(rx, budget, |r| canon::tcp(r))
            }
            Handle::Http(p, rx) => {
                drop(p);
                collect(rx, budget, |r| canon::http(r))
            }
            Handle::Tls(p, rx) => {
                drop(p);
                collect(rx, budget, |r| vec![canon::tls(r)])
            }
        }
    }
}

#[derive(Clone, Copy, Debug, PartialEq, Eq)]
pub enum Drain {
    /// every queued frame reached the `WorkerProcessed` point
    Complete,
    /// all queues are empty and nothing has moved for 2 s, yet fewer frames than were queued
    /// reached `WorkerProcessed`: the pool is idle, the missing frames were lost inside it
    IdleShort,
    /// frames are still queued and nothing moves (stalled machine or stuck worker): inconclusive
    Stalled,
}

/// Wait for logical drain.  `queued_now` reports the total length of the worker queues.
pub fn wait_drain(n: u64, watchdog: Duration, queued_now: &dyn Fn() -> usize) -> Drain {
    let start = Instant::now();
    let mut last = log().processed.load(Ordering::SeqCst);
    let mut last_change = Instant::now();
    loop {
        let p = log().processed.load(Ordering::SeqCst);
        if p >= n {
            return Drain::Complete;
        }
        if p != last {
            last = p;
            last_change = Instant::now();
        }
        // idle = nothing waits in a queue AND nothing is in flight inside a worker (every frame
        // that reached the dequeue point also reached the processed point) AND nothing has moved
        // for 2 s.  The first two are logical facts read from the hook counters; the time only
        // covers the instant between two frames of one batch.  Under the interpreter, where a
        // thread may take seconds for that instant, no idle verdict is given at all: the run
        // ends at the watchdog as inconclusive.
        let in_flight = || log().dequeued.load(Ordering::SeqCst) != log().processed.load(Ordering::SeqCst);
        if !cfg!(miri) && last_change.elapsed() > Duration::from_secs(2) && queued_now() == 0 && !in_flight() {
            // re-check once more after the queue observation to avoid a race with a last frame
            std::thread::sleep(Duration::from_millis(50));
            if log().processed.load(Ordering::SeqCst) == last && queued_now() == 0 && !in_flight() {
                return Drain::IdleShort;
            }
        }
        if start.elapsed() > watchdog {
            return Drain::Stalled;
        }
        std::thread::sleep(Duration::from_micros(200));
    }
}

/// Wait until `n` frames have reached the `WorkerProcessed` point (logical drain).
/// Returns false if the generous wall-clock watchdog fired (=> inconclusive).
pub fn wait_processed(n: u64, watchdog: Duration) -> bool {
    let start = Instant::now();
    while log().processed.load(Ordering::SeqCst) < n {
        if start.elapsed() > watchdog {
            return false;
        }
        std::thread::sleep(Duration::from_micros(200));
    }
    true
}

/// worker chosen for each frame hash, from the DispatchChosen events
pub fn chosen_workers(events: &[Ev]) -> HashMap<u64, Vec<usize>> {
    let mut m: HashMap<u64, Vec<usize>> = HashMap::new();
    for e in events {
        if e.site == Site::DispatchChosen {
            m.entry(e.frame).or_default().push(e.worker);
        }
    }
    m
}
