//! `ref_http1` — independent reference reader for HTTP/1.x message heads.
//!
//! Written from RFC 7230 (message syntax: start-line, header-field = field-name ":" OWS
//! field-value OWS, OWS = *( SP / HTAB ), field names case-insensitive), RFC 7231 section 5.3.1/5.3.5
//! (Accept-Language, quality values), RFC 6265 section 4.2.1 (cookie-string) and the p0f v3 README
//! section 5 "HTTP signatures" (ver:horder:habsent:expsw).  It never calls the library; the only
//! library data used are the p0f header-name lists handed in by the caller.
//!
//! The reader returns `None` for every head that lies outside the domain in which the specification
//! is unambiguous (see `spec().assumptions` of C05); those inputs are run crash-only / metamorphic-only.

pub const METHODS: [&str; 16] = [
    "GET", "POST", "PUT", "DELETE", "HEAD", "OPTIONS", "PATCH", "TRACE", "CONNECT", "PROPFIND",
    "PROPPATCH", "MKCOL", "COPY", "MOVE", "LOCK", "UNLOCK",
];

/// The fixed dictionary of language tags used by the judged domain (ISO 639-1 → English name).
pub const LANGS: [(&str, &str); 12] = [
    ("en", "English"),
    ("es", "Spanish"),
    ("fr", "French"),
    ("de", "German"),
    ("it", "Italian"),
    ("pt", "Portuguese"),
    ("ru", "Russian"),
    ("zh", "Chinese"),
    ("ja", "Japanese"),
    ("nl", "Dutch"),
    ("ko", "Korean"),
    ("ar", "Arabic"),
];
/// Tags that are not ISO 639-1 codes of any language: a conforming table cannot contain them.
pub const UNKNOWN_TAGS: [&str; 4] = ["xx", "qq", "zz", "*"];

#[derive(Clone, Debug, PartialEq)]
pub struct RefHeader {
    pub name: String,
    pub value: String,
    pub position: usize,
}

/// Expected entry of the p0f header-order list.
#[derive(Clone, Debug, PartialEq)]
pub enum ExpH {
    /// canonically-cased name: optional mark and value elision are judged strictly
    Exact { optional: bool, name: String, value: Option<String> },
    /// case variant of a listed name: only the name is judged; the value, if printed, must be `value`
    NameOnly { name: String, value: String },
}

#[derive(Clone, Debug, PartialEq)]
pub enum Judged<T> {
    Is(T),
    /// the specification does not determine the answer for this input
    Open(&'static str),
}

#[derive(Clone, Debug)]
pub struct RefHead {
    pub is_request: bool,
    /// request
    pub method: String,
    pub target: String,
    /// response
    pub status: u16,
    pub reason: String,
    /// 0 or 1 (HTTP/1.0, HTTP/1.1)
    pub minor: u8,
    /// every header field in wire order (position = index of its line)
    pub all: Vec<RefHeader>,
    /// `all` minus Cookie / Referer for requests
    pub headers: Vec<RefHeader>,
    pub cookies: Judged<Vec<(String, Option<String>)>>,
    pub referer: Judged<Option<String>>,
    /// User-Agent (request) or Server (response): first such field, name compared case-insensitively
    pub software: Option<String>,
    pub host: Option<String>,
    pub lang: Judged<Option<String>>,
    pub horder: Vec<ExpH>,
    pub habsent: Vec<String>,
    pub expsw: String,
    /// offset of the first byte after the CRLFCRLF
    pub head_len: usize,
}

pub struct Lists {
    pub optional: Vec<&'static str>,
    pub skip_value: Vec<&'static str>,
    pub common: Vec<&'static str>,
}

fn is_tchar(b: u8) -> bool {
    b.is_ascii_alphanumeric() || b"!#$%&'*+-.^_`|~".contains(&b)
}

fn trim_ows(s: &str) -> &str {
    s.trim_matches(|c| c == ' ' || c == '\t')
}

/// First CRLFCRLF, on bytes.
pub fn head_end(data: &[u8]) -> Option<usize> {
    data.windows(4).position(|w| w == b"\r\n\r\n").map(|p| p + 4)
}

fn edge_ok(v: &str) -> bool {
    // After OWS trimming the value must start and end with a character that no notion of
    // "whitespace" covers (the property says "whitespace-trimmed"; RFC 7230 says SP/HTAB).
    let first = v.chars().next();
    let last = v.chars().next_back();
    !(first.map(|c| c.is_whitespace()).unwrap_or(false) || last.map(|c| c.is_whitespace()).unwrap_or(false))
}

/// qvalue = ( "0" [ "." 0*3DIGIT ] ) / ( "1" [ "." 0*3("0") ] ) -> thousandths
fn qvalue(s: &str) -> Option<u32> {
    let b = s.as_bytes();
    if b.is_empty() {
        return None;
    }
    let int = match b[0] {
        b'0' => 0u32,
        b'1' => 1,
        _ => return None,
    };
    if b.len() == 1 {
        return Some(int * 1000);
    }
    if b[1] != b'.' || b.len() > 5 {
        return None;
    }
    let mut frac = 0u32;
    let mut scale = 100u32;
    for d in &b[2..] {
        if !d.is_ascii_digit() {
            return None;
        }
        frac += (*d - b'0') as u32 * scale;
        scale /= 10;
    }
    if int == 1 && frac != 0 {
        return None;
    }
    Some(int * 1000 + frac)
}

/// RFC 7231 section 5.3.5 over the fixed dictionary.  `Open` when the value leaves the judged grammar.
pub fn ref_lang(value: &str) -> Judged<Option<String>> {
    let mut best: Option<(u32, String)> = None;
    for element in value.split(',') {
        let element = trim_ows(element);
        if element.is_empty() {
            continue; // RFC 7230 section 7: empty list elements are ignored
        }
        let mut parts = element.split(';');
        let range = trim_ows(parts.next().unwrap_or(""));
        let weight = parts.next();
        if parts.next().is_some() {
            return Judged::Open("more than one parameter");
        }
        // language-range = (1*8ALPHA *("-" 1*8alphanum)) / "*"
        let primary = range.split('-').next().unwrap_or("");
        let range_ok = range == "*"
            || (range.split('-').enumerate().all(|(i, sub)| {
                !sub.is_empty()
                    && sub.len() <= 8
                    && sub.bytes().all(|b| if i == 0 { b.is_ascii_alphabetic() } else { b.is_ascii_alphanumeric() })
            }));
        if !range_ok {
            return Judged::Open("not a language-range");
        }
        let q = match weight {
            None => 1000,
            Some(w) => {
                let w = trim_ows(w);
                let Some(v) = w.strip_prefix("q=") else {
                    return Judged::Open("parameter is not a lower-case q=");
                };
                match qvalue(v) {
                    Some(q) => q,
                    None => return Judged::Open("malformed qvalue"),
                }
            }
        };
        let name = if let Some((_, n)) = LANGS.iter().find(|(t, _)| *t == primary) {
            Some(n.to_string())
        } else if UNKNOWN_TAGS.contains(&primary) {
            None
        } else {
            return Judged::Open("tag outside the fixed dictionary");
        };
        if let Some(name) = name {
            // strictly greater: the earliest entry wins ties
            if best.as_ref().map(|(bq, _)| q > *bq).unwrap_or(true) {
                best = Some((q, name));
            }
        }
    }
    match best {
        Some((0, _)) => Judged::Open("best known language has q=0 (not acceptable)"),
        Some((_, n)) => Judged::Is(Some(n)),
        None => Judged::Is(None),
    }
}

/// RFC 6265 cookie-string reader restricted to the unambiguous form.
pub fn ref_cookies(value: &str) -> Judged<Vec<(String, Option<String>)>> {
    let mut out = Vec::new();
    for piece in value.split(';') {
        let piece = trim_ows(piece);
        if piece.is_empty() {
            return Judged::Open("empty cookie piece");
        }
        match piece.split_once('=') {
            Some((n, v)) => {
                if n.is_empty() || n != n.trim() || v != v.trim() {
                    return Judged::Open("whitespace around '=' or empty cookie name");
                }
                out.push((n.to_string(), Some(v.to_string())));
            }
            None => {
                if piece != piece.trim() {
                    return Judged::Open("non-OWS whitespace");
                }
                out.push((piece.to_string(), None))
            }
        }
    }
    Judged::Is(out)
}

fn parse_fields(lines: &[&str]) -> Option<Vec<RefHeader>> {
    if lines.len() > 100 {
        return None;
    }
    let mut all = Vec::new();
    for (position, line) in lines.iter().enumerate() {
        if line.len() > 8000 {
            return None;
        }
        if line.starts_with(' ') || line.starts_with('\t') {
            return None; // obs-fold
        }
        let (name, rest) = line.split_once(':')?;
        if name.is_empty() || !name.bytes().all(is_tchar) {
            return None;
        }
        // field-value: no control characters except HTAB
        if rest.chars().any(|c| (c.is_control() && c != '\t') || c == '\u{2028}' || c == '\u{2029}') {
            return None;
        }
        let value = trim_ows(rest);
        if !edge_ok(value) {
            return None;
        }
        all.push(RefHeader { name: name.to_string(), value: value.to_string(), position });
    }
    Some(all)
}

fn first_ci<'a>(hs: &'a [RefHeader], lname: &str) -> Option<&'a RefHeader> {
    hs.iter().find(|h| h.name.to_ascii_lowercase() == lname)
}

fn signature_parts(headers: &[RefHeader], lists: &Lists) -> (Vec<ExpH>, Vec<String>) {
    let mut horder = Vec::new();
    for h in headers {
        let n = h.name.as_str();
        if lists.optional.contains(&n) {
            horder.push(ExpH::Exact { optional: true, name: h.name.clone(), value: None });
        } else if lists.skip_value.contains(&n) {
            horder.push(ExpH::Exact { optional: false, name: h.name.clone(), value: None });
        } else {
            let ln = n.to_ascii_lowercase();
            let variant = lists
                .optional
                .iter()
                .chain(lists.skip_value.iter())
                .any(|x| x.to_ascii_lowercase() == ln);
            if variant {
                horder.push(ExpH::NameOnly { name: h.name.clone(), value: h.value.clone() });
            } else {
                horder.push(ExpH::Exact { optional: false, name: h.name.clone(), value: Some(h.value.clone()) });
            }
        }
    }
    let present: Vec<String> = headers.iter().map(|h| h.name.to_ascii_lowercase()).collect();
    let habsent = lists
        .common
        .iter()
        .filter(|c| !present.contains(&c.to_ascii_lowercase()))
        .map(|c| c.to_string())
        .collect();
    (horder, habsent)
}

fn version_minor(s: &str) -> Option<u8> {
    match s {
        "HTTP/1.0" => Some(0),
        "HTTP/1.1" => Some(1),
        _ => None,
    }
}

/// Reference reading of a request head; `None` = outside the judged domain.
pub fn ref_request(data: &[u8], lists: &Lists) -> Option<RefHead> {
    let end = head_end(data)?;
    let head = std::str::from_utf8(&data[..end - 4]).ok()?;
    if head.split("\r\n").any(|l| l.contains('\n') || l.contains('\r')) {
        return None; // bare CR / LF inside the head
    }
    let mut lines = head.split("\r\n");
    let start = lines.next()?;
    if start.len() > 8000 {
        return None;
    }
    let parts: Vec<&str> = start.split(' ').collect();
    if parts.len() != 3 {
        return None;
    }
    let (method, target, version) = (parts[0], parts[1], parts[2]);
    if !METHODS.contains(&method) {
        return None;
    }
    if target.is_empty() || target.chars().any(|c| c.is_whitespace() || c.is_control()) {
        return None;
    }
    let minor = version_minor(version)?;
    let field_lines: Vec<&str> = lines.collect();
    let all = parse_fields(&field_lines)?;

    let mut headers = Vec::new();
    let mut cookie_fields = Vec::new();
    let mut referer_fields = Vec::new();
    for h in &all {
        match h.name.to_ascii_lowercase().as_str() {
            "cookie" => cookie_fields.push(h.clone()),
            "referer" => referer_fields.push(h.clone()),
            _ => headers.push(h.clone()),
        }
    }
    let cookies = match cookie_fields.len() {
        0 => Judged::Is(Vec::new()),
        1 => ref_cookies(&cookie_fields[0].value),
        _ => Judged::Open("more than one Cookie field (RFC 6265 forbids it)"),
    };
    let referer = match referer_fields.len() {
        0 => Judged::Is(None),
        1 => Judged::Is(Some(referer_fields[0].value.clone())),
        _ => Judged::Open("more than one Referer field"),
    };
    let software = first_ci(&headers, "user-agent").map(|h| h.value.clone());
    let host = first_ci(&headers, "host").map(|h| h.value.clone());
    let al: Vec<&RefHeader> = headers.iter().filter(|h| h.name.to_ascii_lowercase() == "accept-language").collect();
    let lang = match al.len() {
        0 => Judged::Is(None),
        1 => ref_lang(&al[0].value),
        _ => {
            // RFC 7230 section 3.2.2: repeated list fields may be combined; the library documents
            // first-wins.  Judged only where both readings agree.
            let first = ref_lang(&al[0].value);
            let combined = ref_lang(&al.iter().map(|h| h.value.as_str()).collect::<Vec<_>>().join(", "));
            if first == combined {
                first
            } else {
                Judged::Open("repeated Accept-Language fields: first-wins and combined readings differ")
            }
        }
    };
    let (horder, habsent) = signature_parts(&headers, lists);
    let expsw = software.clone().unwrap_or_else(|| "???".to_string());
    Some(RefHead {
        is_request: true,
        method: method.to_string(),
        target: target.to_string(),
        status: 0,
        reason: String::new(),
        minor,
        all,
        headers,
        cookies,
        referer,
        software,
        host,
        lang,
        horder,
        habsent,
        expsw,
        head_len: end,
    })
}

/// Reference reading of a response head; `None` = outside the judged domain.
pub fn ref_response(data: &[u8], lists: &Lists) -> Option<RefHead> {
    let end = head_end(data)?;
    let head = std::str::from_utf8(&data[..end - 4]).ok()?;
    if head.split("\r\n").any(|l| l.contains('\n') || l.contains('\r')) {
        return None;
    }
    let mut lines = head.split("\r\n");
    let start = lines.next()?;
    if start.len() > 8000 {
        return None;
    }
    // status-line = HTTP-version SP status-code [ SP reason-phrase ]
    let (version, rest) = start.split_once(' ')?;
    let minor = version_minor(version)?;
    let (code, reason) = match rest.split_once(' ') {
        Some((c, r)) => (c, r),
        None => (rest, ""),
    };
    if code.len() != 3 || !code.bytes().all(|b| b.is_ascii_digit()) {
        return None;
    }
    let status: u16 = code.parse().ok()?;
    // RFC 7230 3.1.2: status-code = 3DIGIT -- every three-digit number is a well-formed status
    // code (600..999 and 000..099 are seen in the wild; RFC 7231 6 tells a client to treat an
    // unrecognised code like x00 of its class, not to drop the message)
    if reason.chars().any(|c| c.is_control() && c != '\t') {
        return None;
    }
    let field_lines: Vec<&str> = lines.collect();
    let all = parse_fields(&field_lines)?;
    let headers = all.clone();
    let software = first_ci(&headers, "server").map(|h| h.value.clone());
    let (horder, habsent) = signature_parts(&headers, lists);
    let expsw = software.clone().unwrap_or_else(|| "???".to_string());
    Some(RefHead {
        is_request: false,
        method: String::new(),
        target: String::new(),
        status,
        reason: reason.to_string(),
        minor,
        all,
        headers,
        cookies: Judged::Is(Vec::new()),
        referer: Judged::Is(None),
        software,
        host: None,
        lang: Judged::Is(None),
        horder,
        habsent,
        expsw,
        head_len: end,
    })
}
