//! Counting allocator (monitor for C11): thread-local counters of bytes/blocks allocated and
//! freed, plus optional process-wide counters for work that happens on pool worker threads.

use std::alloc::{GlobalAlloc, Layout, System};
use std::cell::Cell;
use std::sync::atomic::{AtomicBool, AtomicU64, Ordering};

pub struct Counting;

thread_local! {
    static T_ALLOC: Cell<u64> = const { Cell::new(0) };
    static T_FREED: Cell<u64> = const { Cell::new(0) };
    static T_BLOCKS: Cell<u64> = const { Cell::new(0) };
}

static G_TRACK: AtomicBool = AtomicBool::new(false);
static G_ALLOC: AtomicU64 = AtomicU64::new(0);
static G_FREED: AtomicU64 = AtomicU64::new(0);
/// largest single allocation request seen while tracking (huge-allocation guard)
static G_MAX_REQ: AtomicU64 = AtomicU64::new(0);

#[inline]
fn on_alloc(n: usize) {
    let _ = T_ALLOC.try_with(|c| c.set(c.get().wrapping_add(n as u64)));
    let _ = T_BLOCKS.try_with(|c| c.set(c.get().wrapping_add(1)));
    if G_TRACK.load(Ordering::Relaxed) {
        G_ALLOC.fetch_add(n as u64, Ordering::Relaxed);
        G_MAX_REQ.fetch_max(n as u64, Ordering::Relaxed);
    }
}

#[inline]
fn on_free(n: usize) {
    let _ = T_FREED.try_with(|c| c.set(c.get().wrapping_add(n as u64)));
    if G_TRACK.load(Ordering::Relaxed) {
        G_FREED.fetch_add(n as u64, Ordering::Relaxed);
    }
}

unsafe impl GlobalAlloc for Counting {
    unsafe fn alloc(&self, layout: Layout) -> *mut u8 {
        let p = System.alloc(layout);
        if !p.is_null() {
            on_alloc(layout.size());
        }
        p
    }
    unsafe fn dealloc(&self, ptr: *mut u8, layout: Layout) {
        System.dealloc(ptr, layout);
        on_free(layout.size());
    }
    unsafe fn alloc_zeroed(&self, layout: Layout) -> *mut u8 {
        let p = System.alloc_zeroed(layout);
        if !p.is_null() {
            on_alloc(layout.size());
        }
        p
    }
    unsafe fn realloc(&self, ptr: *mut u8, layout: Layout, new_size: usize) -> *mut u8 {
        let p = System.realloc(ptr, layout, new_size);
        if !p.is_null() {
            on_free(layout.size());
            on_alloc(new_size);
        }
        p
    }
}

#[derive(Clone, Copy, Debug, Default)]
pub struct Snap {
    pub alloc: u64,
    pub freed: u64,
    pub blocks: u64,
}

impl Snap {
    pub fn live(&self) -> i64 {
        self.alloc as i64 - self.freed as i64
    }
}

/// counters of the calling thread
pub fn thread_snap() -> Snap {
    Snap {
        alloc: T_ALLOC.try_with(|c| c.get()).unwrap_or(0),
        freed: T_FREED.try_with(|c| c.get()).unwrap_or(0),
        blocks: T_BLOCKS.try_with(|c| c.get()).unwrap_or(0),
    }
}

pub fn track_global(on: bool) {
    G_TRACK.store(on, Ordering::SeqCst);
}

pub fn global_snap() -> Snap {
    Snap { alloc: G_ALLOC.load(Ordering::SeqCst), freed: G_FREED.load(Ordering::SeqCst), blocks: 0 }
}

pub fn max_request() -> u64 {
    G_MAX_REQ.load(Ordering::SeqCst)
}
