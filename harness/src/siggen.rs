//! Seeded generators of p0f signature values (TCP and HTTP) over the whole p0f vocabulary,
//! an independent printer of signatures / whole databases in p0f text form (so that generated
//! databases go through the real loader `Database::from_str`), and *instantiation*: from a
//! signature, enumerate / sample the observations that conform to it.
//!
//! Nothing in here calls the matching code of the library; only its plain data types are used.

use crate::rt::Rng;
use huginn_net_db::db::{Label, Type};
use huginn_net_db::http::{self, Header, Version};
use huginn_net_db::observable_signals::{HttpRequestObservation, HttpResponseObservation, TcpObservation};
use huginn_net_db::tcp::{self, IpVersion, PayloadSize, Quirk, TcpOption, Ttl, WindowSize};

// ------------------------------------------------------------------------------------ vocabulary

pub const ALL_QUIRKS: [Quirk; 17] = [
    Quirk::Df,
    Quirk::NonZeroID,
    Quirk::ZeroID,
    Quirk::Ecn,
    Quirk::MustBeZero,
    Quirk::FlowID,
    Quirk::SeqNumZero,
    Quirk::AckNumNonZero,
    Quirk::AckNumZero,
    Quirk::NonZeroURG,
    Quirk::Urg,
    Quirk::Push,
    Quirk::OwnTimestampZero,
    Quirk::PeerTimestampNonZero,
    Quirk::TrailinigNonZero,
    Quirk::ExcessiveWindowScaling,
    Quirk::OptBad,
];

pub fn quirk_text(q: &Quirk) -> &'static str {
    match q {
        Quirk::Df => "df",
        Quirk::NonZeroID => "id+",
        Quirk::ZeroID => "id-",
        Quirk::Ecn => "ecn",
        Quirk::MustBeZero => "0+",
        Quirk::FlowID => "flow",
        Quirk::SeqNumZero => "seq-",
        Quirk::AckNumNonZero => "ack+",
        Quirk::AckNumZero => "ack-",
        Quirk::NonZeroURG => "uptr+",
        Quirk::Urg => "urgf+",
        Quirk::Push => "pushf+",
        Quirk::OwnTimestampZero => "ts1-",
        Quirk::PeerTimestampNonZero => "ts2+",
        Quirk::TrailinigNonZero => "opt+",
        Quirk::ExcessiveWindowScaling => "exws",
        Quirk::OptBad => "bad",
    }
}

pub fn option_text(o: &TcpOption) -> String {
    match o {
        TcpOption::Eol(n) => format!("eol+{n}"),
        TcpOption::Nop => "nop".into(),
        TcpOption::Mss => "mss".into(),
        TcpOption::Ws => "ws".into(),
        TcpOption::Sok => "sok".into(),
        TcpOption::Sack => "sack".into(),
        TcpOption::TS => "ts".into(),
        TcpOption::Unknown(n) => format!("?{n}"),
    }
}

pub fn ttl_text(t: &Ttl) -> String {
    match t {
        Ttl::Value(n) => format!("{n}"),
        Ttl::Distance(n, d) => format!("{n}+{d}"),
        Ttl::Guess(n) => format!("{n}+?"),
        Ttl::Bad(n) => format!("{n}-"),
    }
}

pub fn wsize_text(w: &WindowSize) -> String {
    match w {
        WindowSize::Mss(n) => format!("mss*{n}"),
        WindowSize::Mtu(n) => format!("mtu*{n}"),
        WindowSize::Value(n) => format!("{n}"),
        WindowSize::Mod(n) => format!("%{n}"),
        WindowSize::Any => "*".into(),
    }
}

/// p0f text of a TCP signature (README section 5 grammar:
/// `ver:ittl:olen:mss:wsize,scale:olayout:quirks:pclass`).
pub fn tcp_sig_text(s: &tcp::Signature) -> String {
    let ver = match s.version {
        IpVersion::V4 => "4",
        IpVersion::V6 => "6",
        IpVersion::Any => "*",
    };
    let mss = s.mss.map(|m| m.to_string()).unwrap_or_else(|| "*".into());
    let wscale = s.wscale.map(|m| m.to_string()).unwrap_or_else(|| "*".into());
    let olayout: Vec<String> = s.olayout.iter().map(option_text).collect();
    let quirks: Vec<&str> = s.quirks.iter().map(quirk_text).collect();
    let pclass = match s.pclass {
        PayloadSize::Zero => "0",
        PayloadSize::NonZero => "+",
        PayloadSize::Any => "*",
    };
    format!(
        "{ver}:{}:{}:{mss}:{},{wscale}:{}:{}:{pclass}",
        ttl_text(&s.ittl),
        s.olen,
        wsize_text(&s.wsize),
        olayout.join(","),
        quirks.join(",")
    )
}

pub fn tcp_obs_text(o: &TcpObservation) -> String {
    tcp_sig_text(&tcp::Signature {
        version: o.version,
        ittl: o.ittl.clone(),
        olen: o.olen,
        mss: o.mss,
        wsize: o.wsize.clone(),
        wscale: o.wscale,
        olayout: o.olayout.clone(),
        quirks: o.quirks.clone(),
        pclass: o.pclass,
    })
}

pub fn header_text(h: &Header) -> String {
    let mut s = String::new();
    if h.optional {
        s.push('?');
    }
    s.push_str(&h.name);
    if let Some(v) = &h.value {
        s.push_str("=[");
        s.push_str(v);
        s.push(']');
    }
    s
}

pub fn http_version_text(v: Version) -> &'static str {
    match v {
        Version::V10 => "0",
        Version::V11 => "1",
        Version::V20 => "2",
        Version::V30 => "3",
        Version::Any => "*",
    }
}

/// p0f text of an HTTP signature (`ver:horder:habsent:expsw`).  Versions 2 and 3 have no p0f
/// spelling that the loader accepts; they are printed as `2`/`3` for diagnostics only.
pub fn http_sig_text(s: &http::Signature) -> String {
    let ho: Vec<String> = s.horder.iter().map(header_text).collect();
    let ha: Vec<String> = s.habsent.iter().map(header_text).collect();
    format!("{}:{}:{}:{}", http_version_text(s.version), ho.join(","), ha.join(","), s.expsw)
}

/// Harness-side HTTP observation (request and response observations have identical fields).
#[derive(Clone, Debug, PartialEq)]
pub struct HttpObs {
    pub version: Version,
    pub horder: Vec<Header>,
    pub habsent: Vec<Header>,
    pub expsw: String,
}

impl HttpObs {
    pub fn req(&self) -> HttpRequestObservation {
        HttpRequestObservation {
            version: self.version,
            horder: self.horder.clone(),
            habsent: self.habsent.clone(),
            expsw: self.expsw.clone(),
        }
    }
    pub fn resp(&self) -> HttpResponseObservation {
        HttpResponseObservation {
            version: self.version,
            horder: self.horder.clone(),
            habsent: self.habsent.clone(),
            expsw: self.expsw.clone(),
        }
    }
    pub fn text(&self) -> String {
        http_sig_text(&http::Signature {
            version: self.version,
            horder: self.horder.clone(),
            habsent: self.habsent.clone(),
            expsw: self.expsw.clone(),
        })
    }
}

// ------------------------------------------------------------------------------ TCP generation

/// Tunable generator of TCP signatures.  Values are drawn from small per-generator pools so that
/// several signatures of one database accept the same observation (competition inside one index
/// bucket), with an escape probability to fresh values from the whole vocabulary.
#[derive(Clone, Debug)]
pub struct TcpGen {
    /// probability (percent) that IP version / payload class are `*`
    pub wild_pct: u64,
    /// probability (percent) that mss / wscale / wsize are `*`
    pub wild_field_pct: u64,
    /// probability (percent) of leaving the pools for a fresh value
    pub fresh_pct: u64,
    pub layouts: Vec<Vec<TcpOption>>,
    pub quirks: Vec<Vec<Quirk>>,
    pub ttls: Vec<Ttl>,
    pub msss: Vec<u16>,
    pub wsizes: Vec<WindowSize>,
    pub wscales: Vec<u8>,
    pub olens: Vec<u8>,
}

pub fn gen_option(r: &mut Rng) -> TcpOption {
    match r.below(12) {
        0 => TcpOption::Eol(*r.pick(&[0u8, 1, 2, 3, 7, 255])),
        1 | 2 => TcpOption::Nop,
        3 | 4 => TcpOption::Mss,
        5 => TcpOption::Ws,
        6 => TcpOption::Sok,
        7 => TcpOption::Sack,
        8 | 9 => TcpOption::TS,
        _ => TcpOption::Unknown(*r.pick(&[0u8, 1, 2, 5, 9, 19, 34, 76, 254, 255])),
    }
}

pub fn gen_layout(r: &mut Rng) -> Vec<TcpOption> {
    const COMMON: [&[TcpOption]; 6] = [
        &[TcpOption::Mss, TcpOption::Sok, TcpOption::TS, TcpOption::Nop, TcpOption::Ws],
        &[TcpOption::Mss, TcpOption::Nop, TcpOption::Ws, TcpOption::Nop, TcpOption::Nop, TcpOption::Sok],
        &[TcpOption::Mss],
        &[TcpOption::Mss, TcpOption::Nop, TcpOption::Nop, TcpOption::TS, TcpOption::Nop, TcpOption::Ws],
        &[TcpOption::Mss, TcpOption::Sok, TcpOption::TS, TcpOption::Ws, TcpOption::Eol(0)],
        &[],
    ];
    if r.chance(1, 3) {
        return r.pick(&COMMON).to_vec();
    }
    let n = if r.chance(1, 10) { 0 } else { r.range(1, 8) as usize };
    (0..n).map(|_| gen_option(r)).collect()
}

pub fn gen_quirks(r: &mut Rng) -> Vec<Quirk> {
    if r.chance(1, 5) {
        return vec![];
    }
    // canonical order subset, sometimes shuffled / with a duplicate
    let mut v: Vec<Quirk> = ALL_QUIRKS.iter().filter(|_| r.chance(1, 5)).cloned().collect();
    if r.chance(1, 3) {
        v = vec![Quirk::Df, Quirk::NonZeroID];
    }
    if r.chance(1, 8) {
        r.shuffle(&mut v);
    }
    if r.chance(1, 20) && !v.is_empty() {
        let q = v[0].clone();
        v.push(q);
    }
    v
}

pub fn gen_sig_ttl(r: &mut Rng) -> Ttl {
    let n = match r.below(8) {
        0..=4 => *r.pick(&[32u8, 64, 128, 255, 64, 128]),
        5 => *r.pick(&[0u8, 1, 30, 31, 60, 100, 192, 254]),
        _ => r.u8(),
    };
    match r.below(20) {
        0..=13 => Ttl::Value(n),
        14 | 15 => Ttl::Bad(n),
        16 | 17 => Ttl::Guess(n),
        _ => {
            let d = r.below(31) as u8;
            Ttl::Distance(n.saturating_sub(d), d)
        }
    }
}

pub fn gen_mss(r: &mut Rng) -> u16 {
    match r.below(6) {
        0..=2 => *r.pick(&[1460u16, 1380, 1400, 536, 265, 1440, 65495]),
        3 => *r.pick(&[0u16, 1, 65535]),
        _ => r.u16(),
    }
}

pub fn gen_sig_wsize(r: &mut Rng) -> WindowSize {
    match r.below(10) {
        0..=2 => WindowSize::Mss(*r.pick(&[0u8, 1, 2, 4, 10, 20, 44, 45, 255])),
        3 => WindowSize::Mtu(*r.pick(&[1u8, 2, 4, 0, 255])),
        4..=6 => WindowSize::Value(*r.pick(&[0u16, 1, 512, 1024, 5840, 8192, 16384, 32768, 65535])),
        7 => WindowSize::Mod(*r.pick(&[0u16, 1, 2, 1024, 8192, 65535])),
        8 => WindowSize::Value(r.u16()),
        _ => WindowSize::Any,
    }
}

impl TcpGen {
    pub fn new(r: &mut Rng, pool: usize, wild_pct: u64) -> TcpGen {
        let pool = pool.max(1);
        TcpGen {
            wild_pct,
            wild_field_pct: 30,
            fresh_pct: 10,
            layouts: (0..pool).map(|_| gen_layout(r)).collect(),
            quirks: (0..pool).map(|_| gen_quirks(r)).collect(),
            ttls: (0..pool + 1).map(|_| gen_sig_ttl(r)).collect(),
            msss: (0..pool + 1).map(|_| gen_mss(r)).collect(),
            wsizes: (0..pool + 2).map(|_| gen_sig_wsize(r)).collect(),
            wscales: (0..pool).map(|_| *r.pick(&[0u8, 1, 2, 5, 7, 8, 14, 15, 255])).collect(),
            olens: vec![0, 0, 0, *r.pick(&[0u8, 4, 8, 40, 255])],
        }
    }

    fn fresh(&self, r: &mut Rng) -> bool {
        r.chance(self.fresh_pct, 100)
    }

    pub fn layout(&self, r: &mut Rng) -> Vec<TcpOption> {
        if self.fresh(r) { gen_layout(r) } else { r.pick(&self.layouts).clone() }
    }
    pub fn quirk_list(&self, r: &mut Rng) -> Vec<Quirk> {
        if self.fresh(r) { gen_quirks(r) } else { r.pick(&self.quirks).clone() }
    }

    pub fn sig(&self, r: &mut Rng) -> tcp::Signature {
        let version = if r.chance(self.wild_pct, 100) {
            IpVersion::Any
        } else if r.chance(2, 3) {
            IpVersion::V4
        } else {
            IpVersion::V6
        };
        let pclass = if r.chance(self.wild_pct, 100) {
            PayloadSize::Any
        } else if r.chance(2, 3) {
            PayloadSize::Zero
        } else {
            PayloadSize::NonZero
        };
        let ittl = if self.fresh(r) { gen_sig_ttl(r) } else { r.pick(&self.ttls).clone() };
        let mss = if r.chance(self.wild_field_pct, 100) {
            None
        } else if self.fresh(r) {
            Some(gen_mss(r))
        } else {
            Some(*r.pick(&self.msss))
        };
        let wsize = if r.chance(self.wild_field_pct / 2, 100) {
            WindowSize::Any
        } else if self.fresh(r) {
            gen_sig_wsize(r)
        } else {
            r.pick(&self.wsizes).clone()
        };
        let wscale = if r.chance(self.wild_field_pct, 100) {
            None
        } else if self.fresh(r) {
            Some(r.u8())
        } else {
            Some(*r.pick(&self.wscales))
        };
        tcp::Signature {
            version,
            ittl,
            olen: *r.pick(&self.olens),
            mss,
            wsize,
            wscale,
            olayout: self.layout(r),
            quirks: self.quirk_list(r),
            pclass,
        }
    }

    /// A competitor of `s`: same decisive fields, 1..=3 non-decisive fields changed.
    pub fn competitor(&self, r: &mut Rng, s: &tcp::Signature) -> tcp::Signature {
        let mut c = s.clone();
        for _ in 0..r.range(1, 3) {
            match r.below(6) {
                0 => c.ittl = if r.chance(1, 2) { r.pick(&self.ttls).clone() } else { gen_sig_ttl(r) },
                1 => c.olen = *r.pick(&[0u8, 4, 8, 255]),
                2 => c.mss = if r.chance(1, 3) { None } else { Some(*r.pick(&self.msss)) },
                3 => c.wsize = if r.chance(1, 4) { WindowSize::Any } else { r.pick(&self.wsizes).clone() },
                4 => c.wscale = if r.chance(1, 3) { None } else { Some(*r.pick(&self.wscales)) },
                _ => {
                    if r.chance(1, 2) {
                        c.version = *r.pick(&[IpVersion::Any, IpVersion::V4, IpVersion::V6]);
                    } else {
                        c.pclass = *r.pick(&[PayloadSize::Any, PayloadSize::Zero, PayloadSize::NonZero]);
                    }
                }
            }
        }
        c
    }

    /// Observation window value in the space an analyzer can emit (never `Any`).
    pub fn obs_wsize(&self, r: &mut Rng) -> WindowSize {
        loop {
            let w = if r.chance(2, 3) { r.pick(&self.wsizes).clone() } else { gen_sig_wsize(r) };
            if w != WindowSize::Any {
                return w;
            }
        }
    }

    /// Observation TTL in the space an analyzer can emit: `Distance`, `Value`, `Bad(0)`.
    pub fn obs_ttl(&self, r: &mut Rng) -> Ttl {
        if r.chance(1, 2) {
            // instance-like of a pooled signature ttl
            let t = r.pick(&self.ttls).clone();
            return sample_ttl_instance(&t, r, true);
        }
        match r.below(10) {
            0 => Ttl::Bad(0),
            1..=3 => Ttl::Value(r.u8()),
            _ => {
                let n = *r.pick(&[32u8, 64, 128, 255]);
                let d = r.below(31) as u8;
                Ttl::Distance(n.saturating_sub(d), d)
            }
        }
    }

    /// Random observation drawn from the same pools (shares layouts/quirks with the database).
    pub fn random_obs(&self, r: &mut Rng) -> TcpObservation {
        TcpObservation {
            version: if r.chance(2, 3) { IpVersion::V4 } else { IpVersion::V6 },
            ittl: self.obs_ttl(r),
            olen: *r.pick(&self.olens),
            mss: if r.chance(1, 8) { None } else if r.chance(3, 4) { Some(*r.pick(&self.msss)) } else { Some(gen_mss(r)) },
            wsize: self.obs_wsize(r),
            wscale: if r.chance(1, 5) { None } else if r.chance(3, 4) { Some(*r.pick(&self.wscales)) } else { Some(r.u8()) },
            olayout: self.layout(r),
            quirks: self.quirk_list(r),
            pclass: if r.chance(2, 3) { PayloadSize::Zero } else { PayloadSize::NonZero },
        }
    }
}

// --------------------------------------------------------------------------- TCP instantiation

/// All observation TTLs (analyzer-emittable forms first) that conform to a signature TTL under
/// the unambiguous reading: sig `N` <- `Distance(N-h, h)` for hop counts h = 0..=30 and `Value(N)`;
/// any other signature form <- the identical value.
pub fn ttl_instances(sig: &Ttl) -> Vec<Ttl> {
    match sig {
        Ttl::Value(n) => {
            let mut v = Vec::new();
            for h in 0..=30u8 {
                if h <= *n {
                    v.push(Ttl::Distance(n - h, h));
                }
            }
            v.push(Ttl::Value(*n));
            v
        }
        other => vec![other.clone()],
    }
}

pub fn sample_ttl_instance(sig: &Ttl, r: &mut Rng, emittable_only: bool) -> Ttl {
    match sig {
        Ttl::Value(n) => {
            if r.chance(1, 6) {
                Ttl::Value(*n)
            } else {
                let h = (r.below(31) as u8).min(*n);
                Ttl::Distance(n - h, h)
            }
        }
        Ttl::Bad(_) if emittable_only => Ttl::Bad(0),
        Ttl::Guess(n) if emittable_only => Ttl::Value(*n),
        other => other.clone(),
    }
}

/// Observation window forms conforming to a signature window, given the observation's MSS.
pub fn wsize_instances(sig: &WindowSize, obs_mss: Option<u16>, r: &mut Rng) -> Vec<WindowSize> {
    match sig {
        WindowSize::Any => vec![
            WindowSize::Mss(r.u8()),
            WindowSize::Mtu(r.u8()),
            WindowSize::Mod(r.u16()),
            WindowSize::Value(r.u16()),
            WindowSize::Value(0),
            WindowSize::Mss(0),
        ],
        WindowSize::Mss(n) => {
            let mut v = vec![WindowSize::Mss(*n)];
            if let Some(m) = obs_mss {
                if m > 0 {
                    if let Some(w) = (*n as u32).checked_mul(m as u32) {
                        if w <= 65535 {
                            v.push(WindowSize::Value(w as u16));
                        }
                    }
                }
            }
            v
        }
        other => vec![other.clone()],
    }
}

/// Enumerate the concrete IP versions / payload classes a signature value admits.
pub fn version_fillings(v: IpVersion) -> Vec<IpVersion> {
    match v {
        IpVersion::Any => vec![IpVersion::V4, IpVersion::V6],
        x => vec![x],
    }
}
pub fn pclass_fillings(p: PayloadSize) -> Vec<PayloadSize> {
    match p {
        PayloadSize::Any => vec![PayloadSize::Zero, PayloadSize::NonZero],
        x => vec![x],
    }
}

/// Observations that conform to `sig`: the full product of IP-version x payload-class fillings,
/// and for each of them `per_filling` samples of the remaining free choices (hop count, MSS and
/// window scale when `*`, window form when `*` or `mss*N`).
pub fn tcp_instances(sig: &tcp::Signature, r: &mut Rng, per_filling: usize) -> Vec<TcpObservation> {
    let mut out = Vec::new();
    for v in version_fillings(sig.version) {
        for p in pclass_fillings(sig.pclass) {
            for _ in 0..per_filling.max(1) {
                let mss = match sig.mss {
                    Some(m) => Some(m),
                    None => {
                        if r.chance(1, 5) {
                            None
                        } else {
                            Some(gen_mss(r))
                        }
                    }
                };
                let ws = wsize_instances(&sig.wsize, mss, r);
                let wsize = r.pick(&ws).clone();
                let wscale = match sig.wscale {
                    Some(w) => Some(w),
                    None => {
                        if r.chance(1, 5) {
                            None
                        } else {
                            Some(r.u8())
                        }
                    }
                };
                out.push(TcpObservation {
                    version: v,
                    ittl: sample_ttl_instance(&sig.ittl, r, false),
                    olen: sig.olen,
                    mss,
                    wsize,
                    wscale,
                    olayout: sig.olayout.clone(),
                    quirks: sig.quirks.clone(),
                    pclass: p,
                });
            }
        }
    }
    out
}

pub const TCP_PERTURBATIONS: [&str; 11] =
    ["ttl", "olen", "mss", "mss-absent", "wscale", "wsize-value", "wsize-form", "version", "pclass", "olayout", "quirks"];

/// Change exactly one field of an observation (kind chosen by index into TCP_PERTURBATIONS).
pub fn tcp_perturb(o: &TcpObservation, kind: usize, r: &mut Rng) -> TcpObservation {
    let mut p = o.clone();
    match TCP_PERTURBATIONS[kind % TCP_PERTURBATIONS.len()] {
        "ttl" => {
            p.ittl = match (&o.ittl, r.below(4)) {
                (Ttl::Distance(t, d), 0) => Ttl::Distance(t.wrapping_add(1), *d),
                (Ttl::Distance(t, d), 1) => Ttl::Distance(*t, d.wrapping_add(1)),
                (Ttl::Distance(t, d), 2) => Ttl::Value(t.saturating_add(*d)),
                (Ttl::Value(t), 0) => Ttl::Value(t.wrapping_add(1)),
                (Ttl::Value(t), 1) => Ttl::Distance(*t, 0),
                (_, 3) => Ttl::Bad(0),
                _ => {
                    let n = *r.pick(&[32u8, 64, 128, 255]);
                    let d = r.below(31) as u8;
                    Ttl::Distance(n - d, d)
                }
            };
            if p.ittl == o.ittl {
                p.ittl = Ttl::Value(r.u8());
            }
        }
        "olen" => p.olen = o.olen.wrapping_add(*r.pick(&[1u8, 4, 255])),
        "mss" => p.mss = Some(o.mss.unwrap_or(0).wrapping_add(*r.pick(&[1u16, 40, 65535]))),
        "mss-absent" => p.mss = if o.mss.is_some() { None } else { Some(gen_mss(r)) },
        "wscale" => {
            p.wscale = match o.wscale {
                Some(w) if r.chance(3, 4) => Some(w.wrapping_add(1)),
                Some(_) => None,
                None => Some(r.u8()),
            }
        }
        "wsize-value" => {
            p.wsize = match &o.wsize {
                WindowSize::Mss(n) => WindowSize::Mss(n.wrapping_add(1)),
                WindowSize::Mtu(n) => WindowSize::Mtu(n.wrapping_add(1)),
                WindowSize::Mod(n) => WindowSize::Mod(n.wrapping_add(1)),
                WindowSize::Value(n) => WindowSize::Value(n.wrapping_add(1)),
                WindowSize::Any => WindowSize::Value(r.u16()),
            }
        }
        "wsize-form" => {
            let n = match &o.wsize {
                WindowSize::Mss(n) | WindowSize::Mtu(n) => *n as u16,
                WindowSize::Mod(n) | WindowSize::Value(n) => *n,
                WindowSize::Any => 0,
            };
            let forms = [
                WindowSize::Mss(n as u8),
                WindowSize::Mtu(n as u8),
                WindowSize::Mod(n),
                WindowSize::Value(n),
                WindowSize::Value(n.wrapping_mul(o.mss.unwrap_or(1))),
            ];
            let start = r.usize(forms.len());
            for k in 0..forms.len() {
                let f = &forms[(start + k) % forms.len()];
                if *f != o.wsize {
                    p.wsize = f.clone();
                    break;
                }
            }
        }
        "version" => {
            p.version = match o.version {
                IpVersion::V4 => IpVersion::V6,
                _ => IpVersion::V4,
            }
        }
        "pclass" => {
            p.pclass = match o.pclass {
                PayloadSize::Zero => PayloadSize::NonZero,
                _ => PayloadSize::Zero,
            }
        }
        "olayout" => {
            let mut l = o.olayout.clone();
            match r.below(4) {
                0 if !l.is_empty() => {
                    let i = r.usize(l.len());
                    l.remove(i);
                }
                1 if l.len() >= 2 => {
                    let i = r.usize(l.len() - 1);
                    l.swap(i, i + 1);
                    if l == o.olayout {
                        l.push(TcpOption::Nop);
                    }
                }
                2 if !l.is_empty() => {
                    let i = r.usize(l.len());
                    let mut n = gen_option(r);
                    if n == l[i] {
                        n = if l[i] == TcpOption::Nop { TcpOption::Sok } else { TcpOption::Nop };
                    }
                    l[i] = n;
                }
                _ => {
                    let i = r.usize(l.len() + 1);
                    l.insert(i, gen_option(r));
                }
            }
            p.olayout = l;
        }
        _ => {
            let mut q = o.quirks.clone();
            match r.below(4) {
                0 if !q.is_empty() => {
                    let i = r.usize(q.len());
                    q.remove(i);
                }
                1 if q.len() >= 2 && q[0] != q[1] => q.swap(0, 1),
                _ => {
                    // add a quirk not yet present
                    let start = r.usize(ALL_QUIRKS.len());
                    for k in 0..ALL_QUIRKS.len() {
                        let c = &ALL_QUIRKS[(start + k) % ALL_QUIRKS.len()];
                        if !q.contains(c) {
                            let i = r.usize(q.len() + 1);
                            q.insert(i, c.clone());
                            break;
                        }
                    }
                }
            }
            p.quirks = q;
        }
    }
    p
}

// ----------------------------------------------------------------------------- HTTP generation

pub const HEADER_NAMES: [&str; 44] = [
    "Host", "User-Agent", "Accept", "Accept-Encoding", "Accept-Language", "Accept-Charset", "Keep-Alive",
    "Connection", "Cookie", "Referer", "Origin", "Range", "If-Modified-Since", "If-None-Match", "Via",
    "X-Forwarded-For", "Authorization", "Proxy-Authorization", "Cache-Control", "Content-Type", "Content-Length",
    "Date", "Server", "Set-Cookie", "Last-Modified", "ETag", "Expires", "Pragma", "Location", "Vary",
    "Accept-Ranges", "Transfer-Encoding", "Upgrade-Insecure-Requests", "DNT", "TE", "X-Powered-By", "P3P",
    "x-forwarded-for", "UA-CPU", "X-OperaMini-Features", "A", "B", "C-1", "Z9",
];

pub const HEADER_VALUES: [&str; 16] = [
    "*/*", "close", "keep-alive", "Keep-Alive", "gzip", "gzip, deflate", "gzip,deflate", "en", ";q=0.",
    "text/html,application/xhtml+xml,application/xml;q=0.9,*/*;q=0.8", "", " ", "a=b", "x:y", "[", "utf-8, *;q=0.1",
];

pub const SOFTWARE: [&str; 14] = [
    "", "Foo", "Fo", "oo", "Foo/1.0", "Mozilla/5.0 Foo/1.0", "Firefox/", "MSIE", "Chrome/", "Apache", "Apache/2.",
    "nginx", "???", "a:b,c",
];

#[derive(Clone, Debug)]
pub struct HttpGen {
    pub wild_pct: u64,
    pub fresh_pct: u64,
    /// allow signature versions V20/V30 (not expressible in p0f text; only for directly built collections)
    pub allow_v2_v3: bool,
    /// header names may repeat inside one list
    pub allow_dup_names: bool,
    pub horders: Vec<Vec<Header>>,
    pub habsents: Vec<Vec<Header>>,
    pub software: Vec<String>,
}

pub fn gen_header(r: &mut Rng, name: &str, opt_pct: u64, val_pct: u64) -> Header {
    Header {
        optional: r.chance(opt_pct, 100),
        name: name.to_string(),
        value: if r.chance(val_pct, 100) { Some(r.pick(&HEADER_VALUES).to_string()) } else { None },
    }
}

pub fn gen_header_list(r: &mut Rng, min: usize, max: usize, opt_pct: u64, val_pct: u64, dup: bool) -> Vec<Header> {
    let n = r.range(min as u64, max as u64) as usize;
    let mut names: Vec<&str> = HEADER_NAMES.to_vec();
    r.shuffle(&mut names);
    let mut v = Vec::new();
    for i in 0..n {
        let name = if dup && r.chance(1, 6) && i > 0 { names[r.usize(i.min(names.len()))] } else { names[i % names.len()] };
        v.push(gen_header(r, name, opt_pct, val_pct));
    }
    v
}

impl HttpGen {
    pub fn new(r: &mut Rng, pool: usize, wild_pct: u64) -> HttpGen {
        let pool = pool.max(1);
        let mut horders: Vec<Vec<Header>> = Vec::new();
        for i in 0..pool {
            if i > 0 && r.chance(1, 2) {
                // a relative of an earlier list: a few edits (creates near competitors)
                let mut l = horders[r.usize(i)].clone();
                for _ in 0..r.range(1, 4) {
                    match r.below(4) {
                        0 if l.len() > 1 => {
                            let k = r.usize(l.len());
                            l.remove(k);
                        }
                        1 => {
                            let k = r.usize(l.len() + 1);
                            let name = *r.pick(&HEADER_NAMES);
                            l.insert(k, gen_header(r, name, 25, 50));
                        }
                        2 if !l.is_empty() => {
                            let k = r.usize(l.len());
                            l[k].value = Some(r.pick(&HEADER_VALUES).to_string());
                        }
                        _ if !l.is_empty() => {
                            let k = r.usize(l.len());
                            l[k].optional = !l[k].optional;
                        }
                        _ => {}
                    }
                }
                horders.push(l);
            } else {
                let max = if r.chance(1, 6) { 20 } else { 8 };
                horders.push(gen_header_list(r, 1, max, 25, 50, false));
            }
        }
        HttpGen {
            wild_pct,
            fresh_pct: 10,
            allow_v2_v3: false,
            allow_dup_names: false,
            horders,
            habsents: (0..pool).map(|_| gen_header_list(r, 0, 5, 10, 5, false)).collect(),
            software: (0..pool + 1).map(|_| r.pick(&SOFTWARE).to_string()).collect(),
        }
    }

    pub fn sig(&self, r: &mut Rng) -> http::Signature {
        let version = if r.chance(self.wild_pct, 100) {
            Version::Any
        } else if self.allow_v2_v3 && r.chance(1, 3) {
            *r.pick(&[Version::V20, Version::V30])
        } else if r.chance(2, 3) {
            Version::V11
        } else {
            Version::V10
        };
        let fresh = r.chance(self.fresh_pct, 100);
        let horder = if fresh { gen_header_list(r, 1, 8, 25, 50, self.allow_dup_names) } else { r.pick(&self.horders).clone() };
        let habsent = if r.chance(self.fresh_pct, 100) {
            gen_header_list(r, 0, 5, 10, 5, self.allow_dup_names)
        } else {
            r.pick(&self.habsents).clone()
        };
        let expsw = if r.chance(self.fresh_pct, 100) { r.pick(&SOFTWARE).to_string() } else { r.pick(&self.software).clone() };
        http::Signature { version, horder, habsent, expsw }
    }

    pub fn competitor(&self, r: &mut Rng, s: &http::Signature) -> http::Signature {
        let mut c = s.clone();
        match r.below(5) {
            0 => c.expsw = r.pick(&SOFTWARE).to_string(),
            1 => c.version = *r.pick(&[Version::Any, Version::V10, Version::V11]),
            2 if c.horder.len() > 1 => {
                let k = r.usize(c.horder.len());
                c.horder.remove(k);
            }
            3 => {
                let k = r.usize(c.horder.len() + 1);
                let name = *r.pick(&HEADER_NAMES);
                c.horder.insert(k, gen_header(r, name, 25, 50));
            }
            _ => {
                for _ in 0..r.range(1, 4) {
                    let name = *r.pick(&HEADER_NAMES);
                    c.habsent.push(gen_header(r, name, 0, 0));
                }
            }
        }
        c
    }

    pub fn obs_version(r: &mut Rng) -> Version {
        *r.pick(&[Version::V10, Version::V11, Version::V11, Version::V20, Version::V30])
    }

    pub fn random_obs(&self, r: &mut Rng) -> HttpObs {
        let strip = |l: &Vec<Header>, r: &mut Rng| -> Vec<Header> {
            l.iter()
                .filter(|h| !(h.optional && r.chance(1, 2)))
                .map(|h| Header { optional: false, name: h.name.clone(), value: h.value.clone() })
                .collect()
        };
        let horder = if r.chance(3, 4) { strip(r.pick(&self.horders), r) } else { strip(&gen_header_list(r, 0, 14, 0, 50, true), r) };
        let habsent = if r.chance(3, 4) { strip(r.pick(&self.habsents), r) } else { strip(&gen_header_list(r, 0, 14, 0, 5, true), r) };
        let expsw = match r.below(4) {
            0 => r.pick(&SOFTWARE).to_string(),
            1 => format!("Mozilla/5.0 ({}) {}", r.pick(&SOFTWARE), r.pick(&self.software)),
            _ => r.pick(&self.software).clone(),
        };
        HttpObs { version: Self::obs_version(r), horder, habsent, expsw }
    }
}

// -------------------------------------------------------------------------- HTTP instantiation

pub fn http_version_fillings(v: Version) -> Vec<Version> {
    match v {
        Version::Any => vec![Version::V10, Version::V11, Version::V20, Version::V30],
        x => vec![x],
    }
}

/// One conforming observed list: required headers all present, each optional one present iff its
/// bit in `mask` is set (bit i = i-th optional header), same order, same values.
pub fn header_list_instance(sig: &[Header], mask: u64) -> Vec<Header> {
    let mut out = Vec::new();
    let mut k = 0;
    for h in sig {
        let keep = if h.optional {
            let b = (mask >> (k % 64)) & 1 == 1;
            k += 1;
            b
        } else {
            true
        };
        if keep {
            out.push(Header { optional: false, name: h.name.clone(), value: h.value.clone() });
        }
    }
    out
}

pub fn optional_count(sig: &[Header]) -> usize {
    sig.iter().filter(|h| h.optional).count()
}

/// Software strings conforming to an expected substring: the string itself, and the string with
/// a prefix and/or a suffix.
pub fn expsw_instances(sig: &str) -> Vec<String> {
    vec![
        sig.to_string(),
        format!("Mozilla/5.0 (X11) {sig}"),
        format!("{sig}/1.0 (compatible)"),
        format!("Mozilla/5.0 {sig}/7.1 Safari"),
    ]
}

/// Observations conforming to `sig`: all version fillings x (`per_filling` samples of optional
/// header subsets and software-string embeddings); the first sample per filling is the literal
/// instance (all optional headers present, software string identical).
pub fn http_instances(sig: &http::Signature, r: &mut Rng, per_filling: usize) -> Vec<HttpObs> {
    let mut out = Vec::new();
    let sw = expsw_instances(&sig.expsw);
    for v in http_version_fillings(sig.version) {
        for k in 0..per_filling.max(1) {
            let (m1, m2, e) = if k == 0 { (u64::MAX, u64::MAX, 0) } else { (r.next_u64(), r.next_u64(), r.usize(sw.len())) };
            out.push(HttpObs {
                version: v,
                horder: header_list_instance(&sig.horder, m1),
                habsent: header_list_instance(&sig.habsent, m2),
                expsw: sw[e].clone(),
            });
        }
    }
    out
}

pub const HTTP_PERTURBATIONS: [&str; 8] =
    ["header-value", "header-removed", "header-added", "header-appended", "habsent-added", "habsent-removed", "expsw", "version"];

pub fn http_perturb(o: &HttpObs, kind: usize, r: &mut Rng) -> HttpObs {
    let mut p = o.clone();
    match HTTP_PERTURBATIONS[kind % HTTP_PERTURBATIONS.len()] {
        "header-value" if !p.horder.is_empty() => {
            let k = r.usize(p.horder.len());
            p.horder[k].value = match &p.horder[k].value {
                Some(v) => {
                    if r.chance(1, 3) {
                        None
                    } else {
                        Some(format!("{v}x"))
                    }
                }
                None => Some("x".into()),
            };
        }
        "header-removed" if !p.horder.is_empty() => {
            let k = r.usize(p.horder.len());
            p.horder.remove(k);
        }
        "header-added" | "header-value" | "header-removed" => {
            let k = r.usize(p.horder.len() + 1);
            let name = *r.pick(&HEADER_NAMES);
            p.horder.insert(k, gen_header(r, name, 0, 50));
        }
        "header-appended" => {
            for _ in 0..r.range(1, 13) {
                let name = *r.pick(&HEADER_NAMES);
                p.horder.push(gen_header(r, name, 0, 50));
            }
        }
        "habsent-added" => {
            for _ in 0..r.range(1, 13) {
                let name = *r.pick(&HEADER_NAMES);
                p.habsent.push(gen_header(r, name, 0, 0));
            }
        }
        "habsent-removed" if !p.habsent.is_empty() => {
            let k = r.usize(p.habsent.len());
            p.habsent.remove(k);
        }
        "habsent-removed" => p.habsent.push(gen_header(r, "Zz", 0, 0)),
        "expsw" => {
            p.expsw = match r.below(5) {
                0 => String::new(),
                1 if !o.expsw.is_empty() => {
                    let mut t = o.expsw.clone();
                    t.pop();
                    t
                }
                2 => format!("{}~", o.expsw),
                3 => "???".into(),
                _ => r.pick(&SOFTWARE).to_string(),
            };
            if p.expsw == o.expsw {
                p.expsw.push('#');
            }
        }
        _ => {
            let all = [Version::V10, Version::V11, Version::V20, Version::V30];
            let i = all.iter().position(|v| *v == o.version).unwrap_or(0);
            p.version = all[(i + 1 + r.usize(3)) % 4];
        }
    }
    p
}

// -------------------------------------------------------------------------- database generation

#[derive(Clone, Debug, Default)]
pub struct GenDb {
    pub tcp_request: Vec<(Label, Vec<tcp::Signature>)>,
    pub tcp_response: Vec<(Label, Vec<tcp::Signature>)>,
    pub http_request: Vec<(Label, Vec<http::Signature>)>,
    pub http_response: Vec<(Label, Vec<http::Signature>)>,
}

pub fn gen_label(r: &mut Rng, idx: usize) -> Label {
    let class = match r.below(4) {
        0 => None,
        1 => Some("unix".to_string()),
        2 => Some("win".to_string()),
        _ => Some(String::new()),
    };
    // labels may repeat (the same OS label in several blocks): identity, not equality, decides C02
    let name = if r.chance(1, 6) { "Dup".to_string() } else { format!("Sys{idx}") };
    let flavor = match r.below(3) {
        0 => None,
        1 => Some(format!("{}.x", r.below(9))),
        _ => Some("2.6:with colon".to_string()),
    };
    Label { ty: if r.chance(3, 4) { Type::Specified } else { Type::Generic }, class, name, flavor }
}

pub fn label_text(l: &Label) -> String {
    let ty = match l.ty {
        Type::Specified => "s",
        Type::Generic => "g",
    };
    let class = match &l.class {
        None => "!".to_string(),
        Some(c) => c.clone(),
    };
    format!("{ty}:{class}:{}:{}", l.name, l.flavor.clone().unwrap_or_default())
}

/// Build the entries of one collection: `labels` labels with 1..=max_sigs signatures each; with
/// probability `dup_pct` a signature is an exact copy of an earlier one (same label or another
/// label), with probability `comp_pct` a near competitor of an earlier one.
pub fn gen_entries<S: Clone>(
    r: &mut Rng,
    labels: usize,
    max_sigs: usize,
    dup_pct: u64,
    comp_pct: u64,
    mut fresh: impl FnMut(&mut Rng) -> S,
    mut competitor: impl FnMut(&mut Rng, &S) -> S,
) -> Vec<(Label, Vec<S>)> {
    let mut out: Vec<(Label, Vec<S>)> = Vec::new();
    let mut all: Vec<S> = Vec::new();
    // one database in 25 has a label with several hundred signatures (more than any 8-bit
    // position could address), most of them close variants of each other in one index bucket
    let big_label = if r.chance(1, 25) { Some(r.usize(labels.max(1))) } else { None };
    for li in 0..labels {
        // a label without any `sig` line is legal p0f text (all its signatures commented out);
        // it must not disturb the positions the index records for the labels after it
        let big = big_label == Some(li);
        let n = if big { 257 + r.usize(160) } else if labels > 1 && r.chance(1, 9) { 0 } else { r.range(1, max_sigs.max(1) as u64) as usize };
        let (dup_pct, comp_pct) = if big { (2, 85) } else { (dup_pct, comp_pct) };
        let mut sigs: Vec<S> = Vec::new();
        for _ in 0..n {
            let s = if !all.is_empty() && r.chance(dup_pct, 100) {
                if !sigs.is_empty() && r.chance(1, 2) {
                    sigs[r.usize(sigs.len())].clone()
                } else {
                    all[r.usize(all.len())].clone()
                }
            } else if !all.is_empty() && r.chance(comp_pct, 100) {
                let base = all[r.usize(all.len())].clone();
                competitor(r, &base)
            } else {
                fresh(r)
            };
            all.push(s.clone());
            sigs.push(s);
        }
        out.push((gen_label(r, li), sigs));
    }
    out
}

/// Whole database in p0f text form.
pub fn db_text(db: &GenDb) -> String {
    let mut s = String::new();
    s.push_str("; generated by hv siggen\nclasses = win,unix,other\n\n");
    s.push_str("[mtu]\nlabel = Ethernet or modem\nsig   = 1500\n\n");
    let tcp_part = |s: &mut String, name: &str, e: &Vec<(Label, Vec<tcp::Signature>)>| {
        s.push_str(&format!("[tcp:{name}]\n\n"));
        for (l, sigs) in e {
            s.push_str(&format!("label = {}\n", label_text(l)));
            if l.ty == Type::Specified {
                s.push_str("sys   = @unix,@win\n");
            }
            for sig in sigs {
                s.push_str(&format!("sig   = {}\n", tcp_sig_text(sig)));
            }
            s.push('\n');
        }
    };
    let http_part = |s: &mut String, name: &str, e: &Vec<(Label, Vec<http::Signature>)>| {
        s.push_str(&format!("[http:{name}]\n\n"));
        if name == "request" {
            s.push_str("ua_os = Linux,Windows\n\n");
        }
        for (l, sigs) in e {
            s.push_str(&format!("label = {}\n", label_text(l)));
            for sig in sigs {
                s.push_str(&format!("sig   = {}\n", http_sig_text(sig)));
            }
            s.push('\n');
        }
    };
    tcp_part(&mut s, "request", &db.tcp_request);
    tcp_part(&mut s, "response", &db.tcp_response);
    http_part(&mut s, "request", &db.http_request);
    http_part(&mut s, "response", &db.http_response);
    s
}

/// Is an HTTP signature expressible in the p0f text form accepted by the loader?
/// (versions 0/1/* only, at least one header in horder, names of [A-Za-z0-9-]+, values without
/// `]`, software string without leading/trailing blanks.)
pub fn http_sig_expressible(s: &http::Signature) -> bool {
    let name_ok = |h: &Header| !h.name.is_empty() && h.name.chars().all(|c| c.is_ascii_alphanumeric() || c == '-');
    let val_ok = |h: &Header| h.value.as_ref().map(|v| !v.contains(']') && !v.contains('\n')).unwrap_or(true);
    matches!(s.version, Version::V10 | Version::V11 | Version::Any)
        && !s.horder.is_empty()
        && s.horder.iter().all(|h| name_ok(h) && val_ok(h))
        && s.habsent.iter().all(|h| name_ok(h) && val_ok(h))
        && s.expsw.trim() == s.expsw
        && !s.expsw.contains('\n')
}
