//! C15 — filtering commutes with analysis: filters remove packets, never change results.
//!
//! Differential oracle: the filtered analyzer over the whole trace must report exactly what the
//! unfiltered analyzer reports over the sub-trace of frames whose endpoints — as the analyzer
//! itself sees them (the crate's own packet parser + pnet accessors) — the filter admits according
//! to the C14 reference function.

use crate::pkt::{self, flags, Ip, Link, Tcp, V4, V6};
use crate::pool::{self, Filters, Handle, PoolCfg, PoolKind};
use crate::props::c10;
use crate::props::c14::{self, AddrF, Cfg, NetF, PortF};
use crate::rt::{guard, hex, Ctx, PropSpec, Rng};
use crate::scenario::{self, Kind, Mix, Runner, TFrame, Which};
use serde_json::json;
use std::net::IpAddr;
use std::time::Duration;

/// The analyzer's own view of a frame's endpoints (None = it cannot attribute the frame).
pub fn view(frame: &[u8]) -> Option<(IpAddr, IpAddr, u16, u16)> {
    use huginn_net_tcp::packet_parser::{parse_packet, IpPacket};
    use pnet::packet::ip::IpNextHeaderProtocols;
    use pnet::packet::tcp::TcpPacket;
    use pnet::packet::Packet;
    match parse_packet(frame) {
        IpPacket::Ipv4(ip) => {
            if ip.get_next_level_protocol() != IpNextHeaderProtocols::Tcp {
                return None;
            }
            let t = TcpPacket::new(ip.payload())?;
            Some((IpAddr::V4(ip.get_source()), IpAddr::V4(ip.get_destination()), t.get_source(), t.get_destination()))
        }
        IpPacket::Ipv6(ip) => {
            if ip.get_next_header() != IpNextHeaderProtocols::Tcp {
                return None;
            }
            let t = TcpPacket::new(ip.payload())?;
            Some((IpAddr::V6(ip.get_source()), IpAddr::V6(ip.get_destination()), t.get_source(), t.get_destination()))
        }
        IpPacket::None => None,
    }
}

pub fn admitted(cfg: &Cfg, frame: &[u8]) -> bool {
    match view(frame) {
        None => true,
        Some((s, d, sp, dp)) => c14::ref_filter(cfg, &s, &d, sp, dp),
    }
}

/// a filter configuration whose constants come from the trace's own endpoints
fn trace_cfg(r: &mut Rng, views: &[(IpAddr, IpAddr, u16, u16)]) -> Cfg {
    let mut c = Cfg { deny: r.chance(1, 3), ..Default::default() };
    if views.is_empty() {
        return c;
    }
    let pickv = |r: &mut Rng| views[r.usize(views.len())];
    if r.chance(2, 3) {
        let mut f = PortF { any: r.chance(1, 4), ..Default::default() };
        for _ in 0..r.below(3) {
            let v = pickv(r);
            match r.below(4) {
                0 => f.src_ports.push(v.2),
                1 => f.dst_ports.push(v.3),
                2 => f.dst_ranges.push((v.3, v.3.saturating_add(r.below(3) as u16))),
                _ => f.src_ranges.push((v.2.saturating_sub(r.below(2000) as u16), v.2.saturating_add(r.below(2000) as u16))),
            }
        }
        if r.chance(1, 6) {
            f.dst_ranges.push((0, 0));
        }
        c.port = Some(f);
    }
    if r.chance(1, 2) {
        let mut f = AddrF { src: true, dst: true, ..Default::default() };
        match r.below(3) {
            0 => f.dst = false,
            1 => f.src = false,
            _ => {}
        }
        for _ in 0..1 + r.below(3) {
            let v = pickv(r);
            let a = if r.chance(1, 2) { v.0 } else { v.1 };
            f.addrs.push(a);
            if let IpAddr::V6(x) = a {
                if let Some(m) = x.to_ipv4_mapped() {
                    // a rule for the embedded IPv4 address must not cover the IPv6 endpoint
                    f.addrs.push(IpAddr::V4(m));
                }
            }
        }
        c.addr = Some(f);
    }
    if r.chance(1, 3) {
        let mut f = NetF { src: true, dst: true, ..Default::default() };
        match r.below(3) {
            0 => f.dst = false,
            1 => f.src = false,
            _ => {}
        }
        let v = pickv(r);
        let mut a = if r.chance(1, 2) { v.0 } else { v.1 };
        if let IpAddr::V6(x) = a {
            if let (Some(m), true) = (x.to_ipv4_mapped(), r.chance(1, 2)) {
                a = IpAddr::V4(m);
            }
        }
        let p = match a {
            IpAddr::V4(_) => *r.pick(&[0u8, 8, 16, 24, 31, 32]),
            IpAddr::V6(_) => *r.pick(&[0u8, 32, 48, 64, 127, 128]),
        };
        f.nets.push((a, p));
        c.net = Some(f);
    }
    c
}

/// extra frames that stress the decoders' agreement: framing variants, IHL 0..15, total-length
/// lies, IPv6, non-TCP
fn odd_frames(r: &mut Rng, n: usize) -> Vec<Vec<u8>> {
    let mut out = Vec::new();
    for _ in 0..n {
        let sp = *r.pick(&[80u16, 443, 1234, 40000, 0, 65535]);
        let dp = *r.pick(&[80u16, 443, 8080, 22, 0, 65535]);
        let mut o = pkt::opt_mss(1460);
        if r.chance(1, 2) {
            o.extend(pkt::opt_ts(r.u32(), 0));
        }
        // payloads that make a single frame produce a result: a SYN (TCP), a one-segment
        // ClientHello (TLS)
        let hello = r.chance(1, 3);
        let tcp = Tcp {
            sport: sp,
            dport: dp,
            flags: if hello { flags::ACK | flags::PSH } else { *r.pick(&[flags::SYN, flags::SYN, flags::SYN | flags::ACK, flags::ACK | flags::PSH]) },
            ack: 1,
            options: o,
            payload: if hello { scenario::client_hello(r, 7, 0) } else if r.chance(1, 4) { scenario::http1_request(r, 1) } else { vec![] },
            seq: r.u32(),
            ..Default::default()
        };
        let v4 = r.chance(3, 4);
        let ip = if v4 {
            let mut h = V4 { src: [10, 0, r.u8() % 3, 1 + r.u8() % 3].into(), dst: [192, 168, 1, 1 + r.u8() % 3].into(), ..Default::default() };
            match r.below(6) {
                4 => {
                    // fragment fields set on a packet that still carries the whole TCP segment
                    h.frag_off = *r.pick(&[1u16, 185, 0x1fff]);
                }
                5 => h.flags |= 0b001,
                0 => h.ihl = Some(r.u8() % 16),
                1 => {
                    let n = r.usize(11) * 4;
                    h.options = vec![1; n];
                }
                2 => h.total_len = Some(*r.pick(&[0u16, 20, 40, 60, 65535])),
                _ => {}
            }
            if r.chance(1, 10) {
                h.proto = 17;
            }
            Ip::V4(h)
        } else {
            let (src, dst): (std::net::Ipv6Addr, std::net::Ipv6Addr) = if r.chance(1, 3) {
                // IPv4-mapped and IPv4-compatible addresses: the analyzer reports them as IPv6
                (format!("::ffff:10.0.{}.{}", r.below(3), 1 + r.below(3)).parse().unwrap(), format!("::ffff:192.168.1.{}", 1 + r.below(3)).parse().unwrap())
            } else {
                (format!("2001:db8::{:x}", 1 + r.below(3)).parse().unwrap(), "2001:db8:1::1".parse().unwrap())
            };
            Ip::V6(V6 { src, dst, next: if r.chance(1, 10) { 17 } else { 6 }, ..Default::default() })
        };
        let link = match r.below(6) {
            0 | 1 => Link::Ethernet,
            2 => {
                let x = [r.u8(), r.u8(), r.u8(), r.u8(), r.u8(), r.u8()];
                pkt::lookalike_macs(r.below(6), x)
            }
            3 => Link::RawIp,
            4 => Link::Null([0x1e, 0, 0, 0]),
            _ => Link::Null(*r.pick(&[[0x02, 0, 0, 0], [0x1e, 0, 0x01, 0], [0x1c, 0, 0, 0], [0x1e, 0, 0, 1]])),
        };
        if let (Ip::V6(h6), true) = (&ip, r.chance(1, 4)) {
            // one IPv6 extension header (hop-by-hop, routing, destination options) in front of
            // the TCP segment: whether an analyzer looks behind it or not, its filter has to
            // judge the packet on the endpoints the analyzer would report
            let kind = *r.pick(&[0u8, 43, 60]);
            let mut l4 = if kind == 43 { vec![6, 0, 0, 0, 0, 0, 0, 0] } else { vec![6, 0, 1, 4, 0, 0, 0, 0] };
            l4.extend(tcp.bytes());
            let mut h = h6.clone();
            h.next = kind;
            let ipb = Ip::V6(h).bytes(&l4);
            out.push(pkt::frame(link, &ipb, false));
            continue;
        }
        out.push(pkt::build(link, &ip, &tcp));
    }
    out
}

/// source / destination of a canonical result line
fn endpoints_of_line(line: &str) -> Option<(IpAddr, IpAddr, u16, u16)> {
    let ep = crate::canon::endpoints_of(line)?;
    let (a, b) = ep.split_once('>')?;
    let (sa, sp) = a.rsplit_once(':')?;
    let (da, dp) = b.rsplit_once(':')?;
    Some((sa.parse().ok()?, da.parse().ok()?, sp.parse().ok()?, dp.parse().ok()?))
}

fn filtered_runner(which: Which, cfg: &Cfg) -> Runner {
    match which {
        Which::Tcp => Runner::Tcp(
            huginn_net_tcp::HuginnNetTcp::new(None, 512).expect("tcp").with_filter(c14::build_tcp(cfg)),
            ttl_cache::TtlCache::new(512),
        ),
        Which::Http => Runner::Http(huginn_net_http::HuginnNetHttp::new(None, 512).expect("http").with_filter(c14::build_http(cfg))),
        Which::Tls => Runner::Tls(huginn_net_tls::HuginnNetTls::new(512).with_filter(c14::build_tls(cfg))),
        Which::Unified => unreachable!("the unified analyzer filters only in analyze_pcap"),
    }
}

fn run_all(mut runner: Runner, frames: &[&TFrame]) -> Result<Vec<Vec<String>>, String> {
    let mut out = Vec::new();
    for f in frames {
        let l = runner.feed(f.at_ms, &f.frame)?;
        if !l.is_empty() {
            out.push(l);
        }
    }
    Ok(out)
}

pub fn run(ctx: &mut Ctx) {
    pool::install_hooks();
    let n = ctx.scale(24_000, 600_000, 3);
    for t in 0..n {
        if !ctx.mine(t) {
            continue;
        }
        let mut r = ctx.rng_global(15, t);
        let kinds = [Kind::TcpHandshake, Kind::Tls, Kind::Http1, Kind::Http1, Kind::Http2, Kind::Garbage];
        let nconn = 2 + r.usize(6);
        let conns: Vec<_> = (0..nconn).map(|i| { let k = *r.pick(&kinds); scenario::gen_conn(&mut r, t * 16 + i as u64, k, scenario::T0) }).collect();
        let mut trace: Vec<TFrame> = scenario::interleave(&mut r, &conns, Mix::Riffle);
        for f in odd_frames(&mut r, 6) {
            let pos = r.usize(trace.len() + 1);
            trace.insert(pos, TFrame { at_ms: scenario::T0, conn: usize::MAX, frame: f });
        }
        let views: Vec<(IpAddr, IpAddr, u16, u16)> = trace.iter().filter_map(|f| view(&f.frame)).collect();
        let started = std::time::Instant::now();
        for _ in 0..ctx.scale(3, 6, 1) {
            let cfg = if r.chance(1, 8) {
                // an empty configuration and the fixed C14 variants also take part
                let pv = c14::port_variants();
                Cfg { deny: r.chance(1, 2), port: pv[r.usize(pv.len())].1.clone(), addr: None, net: None, style: r.below(6) as u8 }
            } else {
                trace_cfg(&mut r, &views)
            };
            let adm: Vec<bool> = trace.iter().map(|f| admitted(&cfg, &f.frame)).collect();
            let sub: Vec<&TFrame> = trace.iter().zip(adm.iter()).filter(|(_, a)| **a).map(|(f, _)| f).collect();
            let all: Vec<&TFrame> = trace.iter().collect();
            let n_adm = sub.len();
            for which in [Which::Tcp, Which::Http, Which::Tls] {
                let expected = run_all(Runner::new(which, 512, false), &sub);
                let actual = run_all(filtered_runner(which, &cfg), &all);
                match (expected, actual) {
                    (Ok(e), Ok(a)) => {
                        if started.elapsed().as_secs() >= 5 {
                            ctx.inconclusive("trace exceeded 5 s of wall time");
                            continue;
                        }
                        // "no result is ever emitted for endpoints the filter rejects", read off
                        // the results themselves
                        for line in a.iter().flatten() {
                            if let Some((sa, da, sp, dp)) = endpoints_of_line(line) {
                                ctx.judge(c14::ref_filter(&cfg, &sa, &da, sp, dp), &[], "a result is emitted for endpoints the installed filter rejects", || {
                                    json!({"trace": t, "analyzer": format!("{which:?}"), "filter": cfg.describe(), "result": line})
                                });
                            }
                        }
                        let ok = e == a;
                        ctx.judge(ok, &[], "filtered analyzer reports differ from the unfiltered analyzer on the admitted sub-trace", || {
                            let k = e.iter().zip(a.iter()).position(|(x, y)| x != y).unwrap_or(e.len().min(a.len()));
                            // locate a frame on which the raw filter and the analyzer's view disagree
                            let culprit = trace.iter().zip(adm.iter()).find(|(f, want)| {
                                let got = huginn_net_tcp::raw_filter::apply(&f.frame, &c14::build_tcp(&cfg));
                                got != **want
                            });
                            json!({
                                "trace": t, "analyzer": format!("{which:?}"), "filter": cfg.describe(),
                                "admitted_frames": n_adm, "total_frames": trace.len(),
                                "expected_results": e.len(), "actual_results": a.len(),
                                "first_difference_index": k, "expected_at": e.get(k), "actual_at": a.get(k),
                                "frame_where_filter_and_view_disagree_hex": culprit.map(|(f, _)| hex(&f.frame)),
                                "analyzer_view_of_that_frame": culprit.and_then(|(f, _)| view(&f.frame)).map(|v| format!("{}:{} > {}:{}", v.0, v.2, v.1, v.3)),
                            })
                        });
                        let shape = format!(
                            "{}{}{}{}",
                            if cfg.deny { "D" } else { "A" },
                            if cfg.port.is_some() { "P" } else { "-" },
                            if cfg.addr.is_some() { "I" } else { "-" },
                            if cfg.net.is_some() { "S" } else { "-" }
                        );
                        let frac = if n_adm == 0 { "none" } else if n_adm == trace.len() { "all" } else { "some" };
                        ctx.bucket(&format!("{which:?}/{shape}/admits-{frac}/{}", if e.is_empty() { "silent" } else { "reports" }));
                    }
                    (Err(p), _) | (_, Err(p)) => {
                        ctx.judge(false, &[], "panic while analysing a filtered trace", || json!({"panic": p, "trace": t}));
                    }
                }
            }
            // raw filter decision itself, frame by frame, against the analyzer's view (all three crates)
            for (f, want) in trace.iter().zip(adm.iter()) {
                if view(&f.frame).is_none() {
                    continue;
                }
                let got = [
                    guard(|| huginn_net_tcp::raw_filter::apply(&f.frame, &c14::build_tcp(&cfg))),
                    guard(|| huginn_net_http::raw_filter::apply(&f.frame, &c14::build_http(&cfg))),
                    guard(|| huginn_net_tls::raw_filter::apply(&f.frame, &c14::build_tls(&cfg))),
                ];
                let ok = got.iter().all(|g| matches!(g, Ok(x) if x == want));
                ctx.judge(ok, &[], "pre-parse filter judges a frame on other endpoints than the analyzer reports for it", || {
                    json!({"frame_hex": hex(&f.frame), "filter": cfg.describe(), "analyzer_view": view(&f.frame).map(|v| format!("{}:{} > {}:{}", v.0, v.2, v.1, v.3)), "expected_admit": want, "raw_filter": format!("{got:?}")})
                });
                // the same frame put to the opposite filter (mode flipped) straight afterwards on
                // the same thread: the answer belongs to the filter that asks
                let mut other = cfg.clone();
                other.deny = !other.deny;
                let want2 = admitted(&other, &f.frame);
                let got2 = [
                    guard(|| huginn_net_tcp::raw_filter::apply(&f.frame, &c14::build_tcp(&other))),
                    guard(|| huginn_net_http::raw_filter::apply(&f.frame, &c14::build_http(&other))),
                    guard(|| huginn_net_tls::raw_filter::apply(&f.frame, &c14::build_tls(&other))),
                ];
                let ok2 = got2.iter().all(|g| matches!(g, Ok(x) if *x == want2));
                ctx.judge(ok2, &[], "pre-parse filter decision depends on a filter asked before", || {
                    json!({"frame_hex": hex(&f.frame), "asked_first": cfg.describe(), "asked_second": other.describe(), "expected_admit_second": want2, "raw_filter_second": format!("{got2:?}")})
                });
            }
            // pools and the unified analyze_pcap path on a subset
            if t % 5 == 0 && !ctx.miri() {
                pool_and_pcap(ctx, &mut r, t, &trace, &cfg, &sub);
                if let Ok(k) = std::env::var("HV_C15_STRESS") {
                    for _ in 0..k.parse::<u32>().unwrap_or(0) {
                        pool_and_pcap(ctx, &mut r, t, &trace, &cfg, &sub);
                    }
                }
            }
        }
        if ctx.want_sample() {
            ctx.sample(json!({"trace": t, "frames": trace.len(), "views": views.len()}));
        }
    }
    huginn_net_tcp::verif_hooks::clock::clear();
}

static POOL_STALLS: std::sync::atomic::AtomicU32 = std::sync::atomic::AtomicU32::new(0);

fn pool_and_pcap(ctx: &mut Ctx, r: &mut Rng, t: u64, trace: &[TFrame], cfg: &Cfg, sub: &[&TFrame]) {
    huginn_net_tcp::verif_hooks::clock::set_ms(scenario::T0);
    // the pools identify frames by content: use each distinct frame once, Ethernet/raw only
    let mut seen = std::collections::HashSet::new();
    let usable = |f: &TFrame| f.frame.first().map(|b| *b != 0x1e && *b != 0x02 && *b != 0x1c).unwrap_or(false);
    let ptrace: Vec<TFrame> = trace.iter().filter(|f| usable(f) && seen.insert(pool::fnv(&f.frame))).cloned().collect();
    let psub: Vec<TFrame> = ptrace.iter().filter(|f| admitted(cfg, &f.frame)).cloned().collect();
    for kind in [PoolKind::Tcp, PoolKind::Http, PoolKind::Tls] {
        // a pool that stalls costs the 30 s watchdog; three of them in one shard and the stage
        // stops asking (the runs so far stay judged / inconclusive as they were)
        if POOL_STALLS.load(std::sync::atomic::Ordering::Relaxed) >= 3 {
            ctx.class("filtered-pool stage skipped after three stalled pools in this shard");
            continue;
        }
        let Ok(expected) = c10::sequential(kind, &psub, false, |_| scenario::T0) else { continue };
        let pc = PoolCfg { workers: 1 + r.usize(4), queue: ptrace.len() + 8, batch: *r.pick(&[1usize, 32]), timeout_ms: 1, max_conn: 512, with_db: false };
        let filters = Filters {
            tcp: if kind == PoolKind::Tcp { Some(c14::build_tcp(cfg)) } else { None },
            http: if kind == PoolKind::Http { Some(c14::build_http(cfg)) } else { None },
            tls: if kind == PoolKind::Tls { Some(c14::build_tls(cfg)) } else { None },
        };
        pool::reset_log(r.next_u64(), 0);
        let Ok(h) = Handle::new(kind, &pc, filters) else { continue };
        let mut queued = 0u64;
        let mut refused = 0u64;
        for f in &ptrace {
            if h.dispatch(f.frame.clone()) {
                queued += 1;
            } else {
                refused += 1;
            }
        }
        let drained = h.wait_drain(queued, Duration::from_secs(30)) != pool::Drain::Stalled;
        if !drained {
            POOL_STALLS.fetch_add(1, std::sync::atomic::Ordering::Relaxed);
        }
        let results = h.drain_results();
        h.shutdown();
        // the TLS pool refuses frames it cannot hash; those are frames the analyzer cannot attribute either
        let refused_attributable = kind == PoolKind::Tls && refused > 0 && ptrace.iter().any(|f| view(&f.frame).is_some() && huginn_net_tls::packet_hash::hash_flow(&f.frame, pc.workers).is_none());
        let par = c10::ParOutcome { results, all_queued: refused == 0 || (kind == PoolKind::Tls && !refused_attributable), drained };
        c10::compare(ctx, kind, &pc, "filtered-pool", &expected, &par, t, &ptrace);
    }
    // unified analyzer: the filter lives in analyze_pcap
    let eth: Vec<Vec<u8>> = trace.iter().filter(|f| f.frame.len() > 14 && ((f.frame[12] == 0x08 && f.frame[13] == 0x00) || (f.frame[12] == 0x86 && f.frame[13] == 0xdd))).map(|f| f.frame.clone()).collect();
    if eth.is_empty() {
        return;
    }
    let dir = format!("{}/work/C15", crate::rt::verif_dir());
    let _ = std::fs::create_dir_all(&dir);
    let path = format!("{dir}/trace_{}_{}.pcap", ctx.shard, t);
    if pkt::write_pcap(&path, 1, &eth).is_err() {
        return;
    }
    let cfg_u = huginn_net::AnalysisConfig { http_enabled: true, tcp_enabled: true, tls_enabled: true, matcher_enabled: false };
    let got: Vec<Vec<String>> = {
        let (tx, rx) = std::sync::mpsc::channel();
        let mut u = huginn_net::HuginnNet::new(None, 512, Some(cfg_u.clone())).expect("unified").with_filter(c14::build_tcp(cfg));
        let _ = u.analyze_pcap(&path, tx, None);
        rx.try_iter().map(|x| crate::canon::unified(&x)).filter(|l| !l.is_empty()).collect()
    };
    let want: Vec<Vec<String>> = {
        let mut u = huginn_net::HuginnNet::new(None, 512, Some(cfg_u)).expect("unified");
        eth.iter().filter(|f| admitted(cfg, f)).map(|f| crate::canon::unified(&u.analyze_tcp(f))).filter(|l| !l.is_empty()).collect()
    };
    // the parallel TCP analyzer with a filter, used for two captures in a row (its pool ends with
    // each analyze_pcap, so init_pool is called again): the second capture is filtered like the first
    {
        let adm: Vec<Vec<u8>> = eth.iter().filter(|f| admitted(cfg, f)).cloned().collect();
        let path_adm = format!("{dir}/trace_{}_{}_adm.pcap", ctx.shard, t);
        if pkt::write_pcap(&path_adm, 1, &adm).is_ok() {
            huginn_net_tcp::verif_hooks::clock::set_ms(scenario::T0);
            let mut want_tcp: Vec<String> = {
                let (tx, rx) = std::sync::mpsc::channel();
                let mut a = huginn_net_tcp::HuginnNetTcp::new(None, 512).expect("tcp");
                let _ = a.analyze_pcap(&path_adm, tx, None);
                rx.try_iter().map(|x| crate::canon::tcp(&x)).filter(|l| !l.is_empty()).map(|l| l.join(" || ")).collect()
            };
            want_tcp.sort();
            if let Ok(a) = huginn_net_tcp::HuginnNetTcp::with_config(None, 512, 1 + r.usize(3), eth.len() + 8, *r.pick(&[1usize, 32]), 2) {
                let mut a = a.with_filter(c14::build_tcp(cfg));
                for round in 0..2 {
                    let (tx, rx) = std::sync::mpsc::channel();
                    if a.init_pool(tx.clone()).is_err() {
                        break;
                    }
                    // (seeded yields / short sleeps / spins at a part of the hook points: more schedules)
                    pool::reset_log(r.next_u64(), *r.pick(&[0u64, 2, 5, 11]));
                    let _ = a.analyze_pcap(&path, tx, None);
                    // analyze_pcap has returned: every frame of the capture has been offered to
                    // the pool.  The capture is done, logically, when every frame that was
                    // accepted (DispatchQueued events) has reached the worker's processed point
                    // (results are sent before that point).  No verdict from wall time: the
                    // 30 s watchdog only makes the round inconclusive.
                    let count_site = |s: pool::Site| pool::log().events.lock().map(|e| e.iter().filter(|x| x.site == s).count() as u64).unwrap_or(0);
                    let queued = count_site(pool::Site::DispatchQueued);
                    let (offered, refused) = (count_site(pool::Site::DispatchEnter), count_site(pool::Site::DispatchDropped));
                    let mut got_tcp: Vec<String> = Vec::new();
                    let start = std::time::Instant::now();
                    let mut closed = false;
                    let mut stalled = false;
                    loop {
                        let done = pool::log().processed.load(std::sync::atomic::Ordering::SeqCst) >= queued;
                        match rx.recv_timeout(Duration::from_millis(if done { 0 } else { 20 })) {
                            Ok(x) => {
                                let l = crate::canon::tcp(&x);
                                if !l.is_empty() {
                                    got_tcp.push(l.join(" || "));
                                }
                            }
                            Err(std::sync::mpsc::RecvTimeoutError::Disconnected) => {
                                closed = true;
                                break;
                            }
                            Err(std::sync::mpsc::RecvTimeoutError::Timeout) => {
                                if done {
                                    break;
                                }
                                if start.elapsed() > Duration::from_secs(30) {
                                    stalled = true;
                                    break;
                                }
                            }
                        }
                    }
                    let processed_at_end = pool::log().processed.load(std::sync::atomic::Ordering::SeqCst);
                    let pool_stats = a.stats().map(|st| format!("{st:?}")).unwrap_or_default();
                    let _ = pool::take_events();
                    if stalled {
                        ctx.inconclusive("parallel analyze_pcap: accepted frames did not all reach the processed point within the 30 s watchdog");
                        break;
                    }
                    got_tcp.sort();
                    ctx.judge(got_tcp == want_tcp, &[], "parallel TCP analyzer with a filter, reused for another capture, differs from the unfiltered analyzer on the admitted sub-trace", || {
                        let extra: Vec<&String> = got_tcp.iter().filter(|x| !want_tcp.contains(x)).take(3).collect();
                        let missing: Vec<&String> = want_tcp.iter().filter(|x| !got_tcp.contains(x)).take(3).collect();
                        json!({"trace": t, "filter": cfg.describe(), "capture_number": round + 1, "expected_results": want_tcp.len(), "actual_results": got_tcp.len(), "not_expected": extra, "missing": missing,
                               "frames_in_capture": eth.len(), "hook_log": {"offered_to_dispatch": offered, "queued": queued, "refused": refused, "processed": processed_at_end}, "pool_stats": pool_stats, "result_channel_closed": closed})
                    });
                    ctx.bucket(&format!("tcp/analyze_pcap-parallel/capture{}", round + 1));
                }
            }
            let _ = std::fs::remove_file(&path_adm);
        }
    }
    let _ = std::fs::remove_file(&path);
    let _ = sub;
    ctx.judge(got == want, &[], "unified analyze_pcap with a filter differs from the unfiltered analyzer on the admitted sub-trace", || {
        json!({"trace": t, "filter": cfg.describe(), "expected_results": want.len(), "actual_results": got.len()})
    });
    ctx.bucket("unified/analyze_pcap");
}

pub fn spec() -> PropSpec {
    PropSpec {
        id: "C15",
        run,
        shards: super::shards_16,
        rule: "seeded traces of well-formed connections plus odd frames (Ethernet / raw IP / loopback framing with several family words, IPv4 header lengths 0..15, IP options, total-length lies, IPv6, non-TCP) x filter configurations drawn from the trace's own endpoints and from the C14 variants; the filtered TCP/HTTP/TLS analyzers (per-packet path), the three filtered pools and the unified analyzer's filtered analyze_pcap must report exactly what the unfiltered analyzer reports on the sub-trace admitted by the C14 reference function applied to the analyzer's own view of each frame; in addition every frame's raw-filter decision is compared with that reference; a bucket is a distinct (analyzer, filter shape, admits none/some/all, reports/silent) combination",
        assumptions: &[
            "the analyzer's view of a frame is obtained with the crate's public parse_packet and pnet accessors, exactly what process.rs reports as source/destination",
            "frames the analyzer cannot attribute (no IP/TCP view) may pass the filter: they produce no result",
            "pool runs use Ethernet/raw frames only and compare multisets and per-connection order as in C10",
        ],
        parent_stage: None,
    }
}
