//! C14 — packet filters decide exactly the documented boolean function.
//!
//! Oracle: `ref_filter` below, an independent restatement of the documented rule, evaluated on a
//! product enumeration of configurations x endpoint 4-tuples at every boundary, plus seeded random
//! configurations.  The same table is run against the FilterConfig of the TCP, HTTP and TLS crates
//! (the unified analyzer re-exports the TCP one).

use crate::rt::{Ctx, PropSpec, Rng};
use serde_json::json;
use std::net::{IpAddr, Ipv4Addr, Ipv6Addr};

#[derive(Clone, Debug, Default)]
pub struct PortF {
    pub src_ports: Vec<u16>,
    pub dst_ports: Vec<u16>,
    /// half-open [lo, hi)
    pub src_ranges: Vec<(u16, u16)>,
    pub dst_ranges: Vec<(u16, u16)>,
    pub any: bool,
}

#[derive(Clone, Debug, Default)]
pub struct AddrF {
    pub addrs: Vec<IpAddr>,
    pub src: bool,
    pub dst: bool,
}

#[derive(Clone, Debug, Default)]
pub struct NetF {
    pub nets: Vec<(IpAddr, u8)>,
    pub src: bool,
    pub dst: bool,
}

#[derive(Clone, Debug, Default)]
pub struct Cfg {
    pub deny: bool,
    pub port: Option<PortF>,
    pub addr: Option<AddrF>,
    pub net: Option<NetF>,
    /// how the library's filter objects are put together from the lists above (the documented
    /// function depends on the *set* of entries, not on the calls that added them): 0 = one list
    /// call (or single calls for one entry), 1 = list call for all but the last entry, then a
    /// single call, 2 = single calls in order, 3 = single call for the last entry, then a list
    /// call for the rest, 4 = single calls in reverse order, 5 = port lists assigned to the
    /// public fields
    pub style: u8,
}

impl Cfg {
    pub fn describe(&self) -> String {
        format!("{self:?}")
    }
}

// ----------------------------------------------------------------------------- reference model

fn in_half_open(p: u16, r: &(u16, u16)) -> bool {
    r.0 <= p && p < r.1
}

pub fn ref_port(f: &PortF, sp: u16, dp: u16) -> bool {
    if f.any {
        let hit = |p: u16| {
            f.src_ports.contains(&p)
                || f.dst_ports.contains(&p)
                || f.src_ranges.iter().any(|r| in_half_open(p, r))
                || f.dst_ranges.iter().any(|r| in_half_open(p, r))
        };
        hit(sp) || hit(dp)
    } else {
        let src_constrained = !f.src_ports.is_empty() || !f.src_ranges.is_empty();
        let dst_constrained = !f.dst_ports.is_empty() || !f.dst_ranges.is_empty();
        let src_ok = !src_constrained
            || f.src_ports.contains(&sp)
            || f.src_ranges.iter().any(|r| in_half_open(sp, r));
        let dst_ok = !dst_constrained
            || f.dst_ports.contains(&dp)
            || f.dst_ranges.iter().any(|r| in_half_open(dp, r));
        src_ok && dst_ok
    }
}

pub fn ref_addr(f: &AddrF, s: &IpAddr, d: &IpAddr) -> bool {
    (f.src && f.addrs.contains(s)) || (f.dst && f.addrs.contains(d))
}

fn in_net(a: &IpAddr, n: &(IpAddr, u8)) -> bool {
    match (a, &n.0) {
        (IpAddr::V4(a), IpAddr::V4(net)) => {
            let p = n.1.min(32) as u32;
            let mask: u32 = if p == 0 { 0 } else { u32::MAX << (32 - p) };
            (u32::from(*a) & mask) == (u32::from(*net) & mask)
        }
        (IpAddr::V6(a), IpAddr::V6(net)) => {
            let p = n.1.min(128) as u32;
            let mask: u128 = if p == 0 { 0 } else { u128::MAX << (128 - p) };
            (u128::from(*a) & mask) == (u128::from(*net) & mask)
        }
        _ => false,
    }
}

pub fn ref_net(f: &NetF, s: &IpAddr, d: &IpAddr) -> bool {
    (f.src && f.nets.iter().any(|n| in_net(s, n))) || (f.dst && f.nets.iter().any(|n| in_net(d, n)))
}

pub fn ref_filter(c: &Cfg, s: &IpAddr, d: &IpAddr, sp: u16, dp: u16) -> bool {
    if c.port.is_none() && c.addr.is_none() && c.net.is_none() {
        return true;
    }
    let mut all = true;
    if let Some(f) = &c.port {
        all &= ref_port(f, sp, dp);
    }
    if let Some(f) = &c.addr {
        all &= ref_addr(f, s, d);
    }
    if let Some(f) = &c.net {
        all &= ref_net(f, s, d);
    }
    if c.deny {
        !all
    } else {
        all
    }
}

// ------------------------------------------------------------- building the library's configs

macro_rules! builder {
    ($name:ident, $krate:ident) => {
        pub fn $name(c: &Cfg) -> $krate::FilterConfig {
            use $krate::{FilterConfig, FilterMode, IpFilter, PortFilter, SubnetFilter};
            let mut cfg = FilterConfig::new().mode(if c.deny { FilterMode::Deny } else { FilterMode::Allow });
            if let Some(p) = &c.port {
                let mut f = PortFilter::new();
                // the same sets through different sequences of builder calls
                fn add(mut f: PortFilter, ports: &[u16], src: bool, style: u8, legacy_first_single: bool) -> PortFilter {
                    let one = |f: PortFilter, x: u16| if src { f.source(x) } else { f.destination(x) };
                    let many = |f: PortFilter, v: Vec<u16>| if src { f.source_list(v) } else { f.destination_list(v) };
                    if ports.is_empty() {
                        return f;
                    }
                    let (last, rest) = (ports[ports.len() - 1], &ports[..ports.len() - 1]);
                    match style {
                        1 => {
                            if !rest.is_empty() {
                                f = many(f, rest.to_vec());
                            }
                            one(f, last)
                        }
                        2 => ports.iter().fold(f, |f, x| one(f, *x)),
                        3 => {
                            f = one(f, last);
                            if !rest.is_empty() {
                                f = many(f, rest.to_vec());
                            }
                            f
                        }
                        4 => ports.iter().rev().fold(f, |f, x| one(f, *x)),
                        5 => {
                            if src {
                                f.source_ports = ports.to_vec();
                            } else {
                                f.destination_ports = ports.to_vec();
                            }
                            f
                        }
                        _ if legacy_first_single => {
                            // single call for the first entry, one-element list calls for the others
                            for (i, x) in ports.iter().enumerate() {
                                f = if i == 0 { one(f, *x) } else { many(f, vec![*x]) };
                            }
                            f
                        }
                        _ => {
                            if ports.len() > 1 {
                                many(f, ports.to_vec())
                            } else {
                                one(f, ports[0])
                            }
                        }
                    }
                }
                f = add(f, &p.src_ports, true, c.style, true);
                f = add(f, &p.dst_ports, false, c.style, false);
                for r in &p.src_ranges {
                    f = f.source_range(r.0..r.1);
                }
                for r in &p.dst_ranges {
                    f = f.destination_range(r.0..r.1);
                }
                if p.any {
                    f = f.any_port();
                }
                cfg = cfg.with_port_filter(f);
            }
            if let Some(a) = &c.addr {
                let mut f = IpFilter::new();
                let strs: Vec<String> = a.addrs.iter().map(|x| x.to_string()).collect();
                match c.style {
                    1 | 3 if strs.len() > 1 => {
                        let (last, rest) = (&strs[strs.len() - 1], &strs[..strs.len() - 1]);
                        if c.style == 3 {
                            f = f.allow(last).expect("valid ip");
                        }
                        f = f.allow_list(rest.iter().map(|s| s.as_str()).collect()).expect("valid ip");
                        if c.style == 1 {
                            f = f.allow(last).expect("valid ip");
                        }
                    }
                    2 => {
                        for s in &strs {
                            f = f.allow(s).expect("valid ip");
                        }
                    }
                    4 => {
                        for s in strs.iter().rev() {
                            f = f.allow(s).expect("valid ip");
                        }
                    }
                    _ => {
                        if strs.len() > 1 {
                            f = f.allow_list(strs.iter().map(|s| s.as_str()).collect()).expect("valid ip");
                        } else {
                            for s in &strs {
                                f = f.allow(s).expect("valid ip");
                            }
                        }
                    }
                }
                match (a.src, a.dst) {
                    (true, false) => f = f.source_only(),
                    (false, true) => f = f.destination_only(),
                    _ => {}
                }
                cfg = cfg.with_ip_filter(f);
            }
            if let Some(n) = &c.net {
                let mut f = SubnetFilter::new();
                let strs: Vec<String> = n.nets.iter().map(|(a, p)| format!("{a}/{p}")).collect();
                match c.style {
                    1 | 3 if strs.len() > 1 => {
                        let (last, rest) = (&strs[strs.len() - 1], &strs[..strs.len() - 1]);
                        if c.style == 3 {
                            f = f.allow(last).expect("valid cidr");
                        }
                        f = f.allow_list(rest.iter().map(|s| s.as_str()).collect()).expect("valid cidr");
                        if c.style == 1 {
                            f = f.allow(last).expect("valid cidr");
                        }
                    }
                    2 => {
                        for s in &strs {
                            f = f.allow(s).expect("valid cidr");
                        }
                    }
                    4 => {
                        for s in strs.iter().rev() {
                            f = f.allow(s).expect("valid cidr");
                        }
                    }
                    _ => {
                        if strs.len() > 1 {
                            f = f.allow_list(strs.iter().map(|s| s.as_str()).collect()).expect("valid cidr");
                        } else {
                            for s in &strs {
                                f = f.allow(s).expect("valid cidr");
                            }
                        }
                    }
                }
                match (n.src, n.dst) {
                    (true, false) => f = f.source_only(),
                    (false, true) => f = f.destination_only(),
                    _ => {}
                }
                cfg = cfg.with_subnet_filter(f);
            }
            cfg
        }
    };
}

builder!(build_tcp, huginn_net_tcp);
builder!(build_http, huginn_net_http);
builder!(build_tls, huginn_net_tls);

// --------------------------------------------------------------------------------- enumeration

fn v4(a: u8, b: u8, c: u8, d: u8) -> IpAddr {
    IpAddr::V4(Ipv4Addr::new(a, b, c, d))
}
fn v6(s: &str) -> IpAddr {
    IpAddr::V6(s.parse::<Ipv6Addr>().unwrap())
}

pub fn port_variants() -> Vec<(&'static str, Option<PortF>)> {
    let pf = |sp: &[u16], dp: &[u16], sr: &[(u16, u16)], dr: &[(u16, u16)], any: bool| {
        Some(PortF {
            src_ports: sp.to_vec(),
            dst_ports: dp.to_vec(),
            src_ranges: sr.to_vec(),
            dst_ranges: dr.to_vec(),
            any,
        })
    };
    vec![
        ("none", None),
        ("src[80]", pf(&[80], &[], &[], &[], false)),
        ("dst[443]", pf(&[], &[443], &[], &[], false)),
        ("src[80]dst[443,8000]", pf(&[80], &[443, 8000], &[], &[], false)),
        ("srcR[1000,2000)", pf(&[], &[], &[(1000, 2000)], &[], false)),
        ("dstR[0,0)", pf(&[], &[], &[], &[(0, 0)], false)),
        ("dstR[0,1)", pf(&[], &[], &[], &[(0, 1)], false)),
        ("dstR[65534,65535)", pf(&[], &[], &[], &[(65534, 65535)], false)),
        ("dstR[80,80)", pf(&[], &[], &[], &[(80, 80)], false)),
        ("srcR[0,0)", pf(&[], &[], &[(0, 0)], &[], false)),
        ("dstR[8000,9000)", pf(&[], &[], &[], &[(8000, 9000)], false)),
        ("dstR[9000,8000)", pf(&[], &[], &[], &[(9000, 8000)], false)),
        ("dst[80]+dstR[443,445)", pf(&[], &[80], &[], &[(443, 445)], false)),
        ("any:dst[80]", pf(&[], &[80], &[], &[], true)),
        ("any:src[443]+dstR[1000,2000)", pf(&[443], &[], &[], &[(1000, 2000)], true)),
        ("any:dstR[0,0)", pf(&[], &[], &[], &[(0, 0)], true)),
        ("any:empty", pf(&[], &[], &[], &[], true)),
        ("empty", pf(&[], &[], &[], &[], false)),
        ("srcR[1,65535)dst[65535]", pf(&[], &[65535], &[(1, 65535)], &[], false)),
        // lists in no particular order, a repeated entry
        ("dst[80,443,8000,1]", pf(&[], &[80, 443, 8000, 1], &[], &[], false)),
        ("src[9000,80,443,80]", pf(&[9000, 80, 443, 80], &[], &[], &[], false)),
        ("any:dst[8000,79]+src[65535,0]", pf(&[65535, 0], &[8000, 79], &[], &[], true)),
    ]
}

pub fn addr_variants() -> Vec<(&'static str, Option<AddrF>)> {
    let af = |a: Vec<IpAddr>, s: bool, d: bool| Some(AddrF { addrs: a, src: s, dst: d });
    vec![
        ("none", None),
        ("v4both", af(vec![v4(192, 168, 1, 1), v4(10, 0, 0, 0)], true, true)),
        ("v4src", af(vec![v4(192, 168, 1, 1)], true, false)),
        ("v4dst", af(vec![v4(192, 168, 1, 1)], false, true)),
        ("v6both", af(vec![v6("2001:db8::1")], true, true)),
        ("v6dst", af(vec![v6("2001:db8::1"), v6("::")], false, true)),
        ("mixed", af(vec![v4(10, 255, 255, 255), v6("2001:db8::ffff")], true, true)),
        // addresses of ::/96 and ::ffff:0:0/96 are IPv6 addresses like any other: they neither
        // match nor are matched by the IPv4 address embedded in them
        ("v6-low96", af(vec![v6("::1"), v6("::ffff:192.168.1.1"), v6("::10.0.0.0")], true, true)),
        ("v4+mapped", af(vec![v4(192, 168, 1, 1), v6("::ffff:10.0.0.0")], true, true)),
        ("emptylist", af(vec![], true, true)),
    ]
}

pub fn net_variants() -> Vec<(&'static str, Option<NetF>)> {
    let nf = |n: Vec<(IpAddr, u8)>, s: bool, d: bool| Some(NetF { nets: n, src: s, dst: d });
    vec![
        ("none", None),
        ("10/8", nf(vec![(v4(10, 0, 0, 0), 8)], true, true)),
        ("10.1.2.3/8hostbits", nf(vec![(v4(10, 1, 2, 3), 8)], true, true)),
        ("0/0", nf(vec![(v4(0, 0, 0, 0), 0)], true, true)),
        ("192.168.1.1/32src", nf(vec![(v4(192, 168, 1, 1), 32)], true, false)),
        ("192.168.1.0/31dst", nf(vec![(v4(192, 168, 1, 0), 31)], false, true)),
        ("10.0.0.0/9+172.16/12", nf(vec![(v4(10, 0, 0, 0), 9), (v4(172, 16, 0, 0), 12)], true, true)),
        ("2001:db8::/64", nf(vec![(v6("2001:db8::"), 64)], true, true)),
        ("::/0src", nf(vec![(v6("::"), 0)], true, false)),
        ("2001:db8::1/128", nf(vec![(v6("2001:db8::1"), 128)], true, true)),
        ("2001:db8::/127dst", nf(vec![(v6("2001:db8::"), 127)], false, true)),
        ("mixed/1", nf(vec![(v4(128, 0, 0, 0), 1), (v6("8000::"), 1)], true, true)),
        ("2001:db8::1/64hostbits", nf(vec![(v6("2001:db8::1"), 64)], true, true)),
        ("192.168.1.1/24hostbits-dst", nf(vec![(v4(192, 168, 1, 1), 24)], false, true)),
        ("::ffff:0:0/96", nf(vec![(v6("::ffff:0:0"), 96)], true, true)),
        ("emptylist", nf(vec![], true, true)),
    ]
}

pub const PORTS: [u16; 17] =
    [0, 1, 79, 80, 81, 443, 444, 445, 999, 1000, 1999, 2000, 7999, 8000, 8999, 9000, 65535];
pub const PORTS_EXTRA: [u16; 3] = [65534, 2, 442];

pub fn addrs_v4() -> Vec<IpAddr> {
    vec![
        v4(10, 0, 0, 0),
        v4(9, 255, 255, 255),
        v4(10, 255, 255, 255),
        v4(11, 0, 0, 0),
        v4(10, 127, 255, 255),
        v4(10, 128, 0, 0),
        v4(192, 168, 1, 1),
        v4(192, 168, 1, 0),
        v4(192, 168, 1, 2),
        v4(172, 16, 0, 0),
        v4(172, 32, 0, 0),
        v4(0, 0, 0, 0),
        v4(0, 0, 0, 1),
        v4(255, 255, 255, 255),
        v4(127, 255, 255, 255),
        v4(128, 0, 0, 0),
    ]
}
pub fn addrs_v6() -> Vec<IpAddr> {
    vec![
        v6("2001:db8::"),
        v6("2001:db8::1"),
        v6("2001:db8::2"),
        v6("2001:db8:0:0:ffff:ffff:ffff:ffff"),
        v6("2001:db8:0:1::"),
        v6("2001:db7:ffff:ffff:ffff:ffff:ffff:ffff"),
        v6("::"),
        v6("8000::"),
        v6("7fff:ffff:ffff:ffff:ffff:ffff:ffff:ffff"),
        v6("2001:db8::ffff"),
        v6("::1"),
        v6("::ffff:192.168.1.1"),
        v6("::ffff:10.0.0.0"),
        v6("::10.0.0.0"),
        v6("::0.0.0.1"),
    ]
}

fn random_cfg(r: &mut Rng) -> Cfg {
    let bport = |r: &mut Rng| -> u16 {
        match r.below(4) {
            0 => *r.pick(&PORTS),
            1 => *r.pick(&[0u16, 1, 2, 65533, 65534, 65535]),
            _ => r.u16(),
        }
    };
    let mut c = Cfg { deny: r.chance(1, 2), style: r.below(6) as u8, ..Default::default() };
    if r.chance(3, 4) {
        let mut f = PortF { any: r.chance(1, 4), ..Default::default() };
        // up to 2 entries usually, sometimes longer lists (in no particular order)
        let long = r.chance(1, 5);
        for _ in 0..r.below(if long { 9 } else { 3 }) {
            f.src_ports.push(bport(r));
        }
        for _ in 0..r.below(if long { 9 } else { 3 }) {
            f.dst_ports.push(bport(r));
        }
        for _ in 0..r.below(3) {
            let lo = bport(r);
            let hi = if r.chance(1, 3) { lo } else if r.chance(1, 2) { lo.saturating_add(r.below(3) as u16) } else { bport(r) };
            f.src_ranges.push((lo, hi));
        }
        for _ in 0..r.below(3) {
            let lo = bport(r);
            let hi = if r.chance(1, 3) { lo } else if r.chance(1, 2) { lo.saturating_add(r.below(3) as u16) } else { bport(r) };
            f.dst_ranges.push((lo, hi));
        }
        c.port = Some(f);
    }
    let a4 = addrs_v4();
    let a6 = addrs_v6();
    if r.chance(1, 2) {
        let mut f = AddrF { src: true, dst: true, ..Default::default() };
        match r.below(3) {
            0 => f.dst = false,
            1 => f.src = false,
            _ => {}
        }
        for _ in 0..r.below(4) {
            f.addrs.push(if r.chance(2, 3) { *r.pick(&a4) } else { *r.pick(&a6) });
        }
        c.addr = Some(f);
    }
    if r.chance(1, 2) {
        let mut f = NetF { src: true, dst: true, ..Default::default() };
        match r.below(3) {
            0 => f.dst = false,
            1 => f.src = false,
            _ => {}
        }
        for _ in 0..r.below(3) {
            if r.chance(2, 3) {
                let a = if r.chance(1, 2) { *r.pick(&a4) } else { IpAddr::V4(Ipv4Addr::from(r.u32())) };
                f.nets.push((a, r.below(33) as u8));
            } else {
                let a = if r.chance(1, 2) {
                    *r.pick(&a6)
                } else {
                    IpAddr::V6(Ipv6Addr::from(((r.next_u64() as u128) << 64) | r.next_u64() as u128))
                };
                f.nets.push((a, r.below(129) as u8));
            }
        }
        c.net = Some(f);
    }
    c
}

struct Libs {
    tcp: huginn_net_tcp::FilterConfig,
    http: huginn_net_http::FilterConfig,
    tls: huginn_net_tls::FilterConfig,
    uni: huginn_net::FilterConfig,
}

fn build_all(c: &Cfg) -> Libs {
    Libs { tcp: build_tcp(c), http: build_http(c), tls: build_tls(c), uni: build_tcp(c) }
}

fn check_point(ctx: &mut Ctx, c: &Cfg, libs: &Libs, tag: &str, s: &IpAddr, d: &IpAddr, sp: u16, dp: u16) {
    let expected = ref_filter(c, s, d, sp, dp);
    let got = [
        ("tcp", libs.tcp.should_process(s, d, sp, dp)),
        ("http", libs.http.should_process(s, d, sp, dp)),
        ("tls", libs.tls.should_process(s, d, sp, dp)),
        ("unified", libs.uni.should_process(s, d, sp, dp)),
    ];
    for (krate, actual) in got {
        ctx.judge(actual == expected, &[], "filter decision differs from the documented function", || {
            json!({
                "crate": krate, "config": c.describe(), "variant": tag,
                "src": format!("{s}:{sp}"), "dst": format!("{d}:{dp}"),
                "expected_admit": expected, "actual_admit": actual,
            })
        });
    }
    ctx.bucket(&format!("{tag}/{}", expected));
}

pub fn run(ctx: &mut Ctx) {
    let pv = port_variants();
    let av = addr_variants();
    let nv = net_variants();
    let a4 = addrs_v4();
    let a6 = addrs_v6();
    // address pairs: all same-family pairs (v4 x v4, v6 x v6) plus a few cross-family ones
    let mut pairs: Vec<(IpAddr, IpAddr)> = Vec::new();
    for s in &a4 {
        for d in &a4 {
            pairs.push((*s, *d));
        }
    }
    for s in &a6 {
        for d in &a6 {
            pairs.push((*s, *d));
        }
    }
    pairs.push((a4[0], a6[1]));
    pairs.push((a6[1], a4[6]));
    let ports: Vec<u16> = if ctx.quick() {
        PORTS.to_vec()
    } else {
        PORTS.iter().chain(PORTS_EXTRA.iter()).copied().collect()
    };

    let mut index: u64 = 0;
    for deny in [false, true] {
        for (pn, p) in &pv {
            for (an, a) in &av {
                for (nn, n) in &nv {
                    index += 1;
                    if !ctx.mine(index) {
                        continue;
                    }
                    let c = Cfg { deny, port: p.clone(), addr: a.clone(), net: n.clone(), style: (index % 6) as u8 };
                    let libs = build_all(&c);
                    let tag = format!("{}/{pn}/{an}/{nn}", if deny { "deny" } else { "allow" });
                    // quick: ports fully crossed with a strided subset of address pairs, and
                    // all address pairs with a strided subset of port pairs
                    let stride = if ctx.quick() { 7 } else { 1 };
                    let mut k = index as usize;
                    for &sp in &ports {
                        for &dp in &ports {
                            k += 1;
                            let mut j = k % stride;
                            while j < pairs.len() {
                                let (s, d) = pairs[j];
                                check_point(ctx, &c, &libs, &tag, &s, &d, sp, dp);
                                j += stride;
                            }
                        }
                    }
                    if ctx.want_sample() {
                        ctx.sample(json!({"config": c.describe(), "variant": tag, "points": ports.len()*ports.len()*pairs.len()/stride}));
                    }
                }
            }
        }
    }
    if !ctx.quick() {
        ctx.exhaustive("product of listed configuration variants x boundary ports x boundary address pairs");
    }

    // seeded random configurations and endpoints
    let n = ctx.scale(4_000, 200_000, 50) / ctx.nshards as u64 + 1;
    let mut r = ctx.rng(14);
    crate::pool::install_hooks();
    for ci in 0..n {
        let c = random_cfg(&mut r);
        let libs = build_all(&c);
        let mut tuples: Vec<(IpAddr, IpAddr, u16, u16)> = Vec::new();
        for _ in 0..40 {
            // endpoints drawn from the configuration's own constants +-1 and from the boundary sets
            let mut cand_ports: Vec<u16> = vec![0, 65535, r.u16()];
            if let Some(p) = &c.port {
                for x in p.src_ports.iter().chain(p.dst_ports.iter()) {
                    cand_ports.extend_from_slice(&[*x, x.wrapping_sub(1), x.wrapping_add(1)]);
                }
                for (lo, hi) in p.src_ranges.iter().chain(p.dst_ranges.iter()) {
                    cand_ports.extend_from_slice(&[*lo, lo.wrapping_sub(1), *hi, hi.wrapping_sub(1), hi.wrapping_add(1)]);
                }
            }
            let sp = *r.pick(&cand_ports);
            let dp = *r.pick(&cand_ports);
            let mut cand_addr: Vec<IpAddr> = Vec::new();
            if let Some(a) = &c.addr {
                cand_addr.extend(a.addrs.iter().copied());
            }
            if let Some(nf) = &c.net {
                for (a, p) in &nf.nets {
                    match a {
                        IpAddr::V4(x) => {
                            let p = (*p).min(32) as u32;
                            let mask: u32 = if p == 0 { 0 } else { u32::MAX << (32 - p) };
                            let net = u32::from(*x) & mask;
                            for y in [net, net.wrapping_sub(1), net | !mask, (net | !mask).wrapping_add(1)] {
                                cand_addr.push(IpAddr::V4(Ipv4Addr::from(y)));
                            }
                        }
                        IpAddr::V6(x) => {
                            let p = (*p).min(128) as u32;
                            let mask: u128 = if p == 0 { 0 } else { u128::MAX << (128 - p) };
                            let net = u128::from(*x) & mask;
                            for y in [net, net.wrapping_sub(1), net | !mask, (net | !mask).wrapping_add(1)] {
                                cand_addr.push(IpAddr::V6(Ipv6Addr::from(y)));
                            }
                        }
                    }
                }
            }
            cand_addr.push(*r.pick(&a4));
            cand_addr.push(*r.pick(&a6));
            let s = *r.pick(&cand_addr);
            let d = *r.pick(&cand_addr);
            check_point(ctx, &c, &libs, "random", &s, &d, sp, dp);
            tuples.push((s, d, sp, dp));
            let shape = format!(
                "random/{}{}{}{}",
                if c.deny { "D" } else { "A" },
                if c.port.is_some() { "P" } else { "-" },
                if c.addr.is_some() { "I" } else { "-" },
                if c.net.is_some() { "S" } else { "-" }
            );
            ctx.bucket(&shape);
        }
        // the same decisions as the analyzers and worker pools take them on real packets
        if !ctx.miri() && ci % ctx.scale(4, 2, 1) == 0 && ctx.rep.violation_count <= 12 {
            analyzer_level(ctx, &c, &tuples, &mut r);
        }
    }
    huginn_net_tcp::verif_hooks::clock::clear();
}

/// "identically in the TCP, HTTP, TLS and unified analyzers": one packet (TCP, unified: a SYN;
/// TLS: a one-segment ClientHello; HTTP: a SYN and a request) per endpoint tuple goes through the
/// sequential analyzers and the worker pools with the filter installed; a result must appear
/// exactly for the tuples the documented function admits (and for which the unfiltered analyzer
/// reports one).
fn analyzer_level(ctx: &mut Ctx, c: &Cfg, tuples: &[(IpAddr, IpAddr, u16, u16)], r: &mut Rng) {
    use crate::pkt::{self, flags, Endpoints, Link, Script};
    use crate::pool::{Filters, Handle, PoolCfg, PoolKind};
    use crate::scenario::{self, Runner, Which};
    // distinct connections between two addresses of one family
    let mut seen = std::collections::HashSet::new();
    let tuples: Vec<&(IpAddr, IpAddr, u16, u16)> = tuples
        .iter()
        .filter(|t| t.0.is_ipv4() == t.1.is_ipv4() && (t.0, t.2) != (t.1, t.3) && !seen.contains(&(t.1, t.0, t.3, t.2)) && seen.insert((t.0, t.1, t.2, t.3)))
        .collect();
    if tuples.is_empty() {
        return;
    }
    let hello = scenario::client_hello(r, 14, 0);
    let request = b"GET /c14 HTTP/1.1\r\nHost: c14.example\r\nUser-Agent: hv\r\n\r\n";
    // frames per tuple: [syn], [hello segment], [syn, request]
    let mut frames: Vec<[Vec<Vec<u8>>; 3]> = Vec::new();
    for t in &tuples {
        let ep = Endpoints { client: t.0, server: t.1, cport: t.2, sport: t.3 };
        let link = if r.chance(1, 4) { Link::RawIp } else { Link::Ethernet };
        let mut s = Script::new(ep, link, r.u32(), r.u32());
        let mut o = pkt::opt_mss(1460);
        o.extend(pkt::opt_sok());
        s.syn(o);
        let syn = s.frames[0].clone();
        let h = s.seg(true, s.c_next, 1, flags::ACK | flags::PSH, vec![], &hello);
        let q = s.seg(true, s.c_next, 1, flags::ACK | flags::PSH, vec![], request);
        frames.push([vec![syn.clone()], vec![h], vec![syn, q]]);
    }
    let expected_admit: Vec<bool> = tuples.iter().map(|t| ref_filter(c, &t.0, &t.1, t.2, t.3)).collect();
    let started = std::time::Instant::now();
    for (which, slot, pool_kind) in [(Which::Tcp, 0usize, Some(PoolKind::Tcp)), (Which::Unified, 0, None), (Which::Tls, 1, Some(PoolKind::Tls)), (Which::Http, 2, Some(PoolKind::Http))] {
        // unfiltered reference output per tuple
        let mut plain = Runner::new(which, 256, false);
        let mut reference: Vec<Vec<String>> = Vec::new();
        let mut failed = false;
        for f in &frames {
            let mut lines = Vec::new();
            for x in &f[slot] {
                match plain.feed(scenario::T0, x) {
                    Ok(l) => lines.extend(l),
                    Err(_) => failed = true,
                }
            }
            reference.push(lines);
        }
        if failed {
            continue; // a panic is C01's business
        }
        let expected: Vec<Vec<String>> = reference.iter().zip(&expected_admit).map(|(l, a)| if *a { l.clone() } else { vec![] }).collect();
        // sequential analyzer with the filter
        let mut filtered = match which {
            Which::Tcp => Runner::Tcp(huginn_net_tcp::HuginnNetTcp::new(None, 256).expect("tcp").with_filter(build_tcp(c)), ttl_cache::TtlCache::new(1024)),
            Which::Http => Runner::Http(huginn_net_http::HuginnNetHttp::new(None, 256).expect("http").with_filter(build_http(c))),
            Which::Tls => Runner::Tls(huginn_net_tls::HuginnNetTls::new(256).with_filter(build_tls(c))),
            Which::Unified => {
                let cfg = huginn_net::AnalysisConfig { http_enabled: true, tcp_enabled: true, tls_enabled: true, matcher_enabled: false };
                Runner::Unified(huginn_net::HuginnNet::new(None, 256, Some(cfg)).expect("unified").with_filter(build_tcp(c)))
            }
        };
        if which != Which::Unified {
            // a second analyzer of the same kind on the same thread holds the opposite filter (mode
            // flipped) and sees every packet right after the first: each decides by its own filter
            let mut opposite_cfg = c.clone();
            opposite_cfg.deny = !opposite_cfg.deny;
            let mut opposite = match which {
                Which::Tcp => Runner::Tcp(huginn_net_tcp::HuginnNetTcp::new(None, 256).expect("tcp").with_filter(build_tcp(&opposite_cfg)), ttl_cache::TtlCache::new(1024)),
                Which::Http => Runner::Http(huginn_net_http::HuginnNetHttp::new(None, 256).expect("http").with_filter(build_http(&opposite_cfg))),
                _ => Runner::Tls(huginn_net_tls::HuginnNetTls::new(256).with_filter(build_tls(&opposite_cfg))),
            };
            // (the unified analyzer consults its filter in its capture loops only, see below)
            for (i, f) in frames.iter().enumerate() {
                let mut lines = Vec::new();
                let mut lines_opposite = Vec::new();
                for x in &f[slot] {
                    if let Ok(l) = filtered.feed(scenario::T0, x) {
                        lines.extend(l);
                    }
                    if let Ok(l) = opposite.feed(scenario::T0, x) {
                        lines_opposite.extend(l);
                    }
                }
                let admit_opposite = ref_filter(&opposite_cfg, &tuples[i].0, &tuples[i].1, tuples[i].2, tuples[i].3);
                let want_opposite = if admit_opposite { reference[i].clone() } else { vec![] };
                ctx.judge(lines_opposite == want_opposite, &[], "an analyzer's filter decision depends on the filter of another analyzer asked just before", || {
                    json!({"analyzer": format!("{which:?}"), "first_filter": c.describe(), "this_filter": opposite_cfg.describe(), "source": format!("{}:{}", tuples[i].0, tuples[i].2), "destination": format!("{}:{}", tuples[i].1, tuples[i].3),
                           "documented_decision": admit_opposite, "unfiltered_result": reference[i], "filtered_result": lines_opposite})
                });
                ctx.judge(lines == expected[i], &[], "an analyzer with the filter installed decides differently from the documented function", || {
                    json!({"analyzer": format!("{which:?}"), "path": "sequential", "config": c.describe(), "source": format!("{}:{}", tuples[i].0, tuples[i].2), "destination": format!("{}:{}", tuples[i].1, tuples[i].3),
                           "documented_decision": expected_admit[i], "unfiltered_result": reference[i], "filtered_result": lines})
                });
                ctx.bucket(&format!("analyzer-level/{which:?}/sequential/{}/{}", if c.deny { "deny" } else { "allow" }, if expected_admit[i] { "admitted" } else { "rejected" }));
            }
        }
        // worker pool with the filter, one frame at a time
        let Some(kind) = pool_kind else { continue };
        let pc = PoolCfg { workers: 1 + r.usize(3), queue: 8, batch: *r.pick(&[1usize, 8]), timeout_ms: 1, max_conn: 256, with_db: false };
        let filters = Filters {
            tcp: if kind == PoolKind::Tcp { Some(build_tcp(c)) } else { None },
            http: if kind == PoolKind::Http { Some(build_http(c)) } else { None },
            tls: if kind == PoolKind::Tls { Some(build_tls(c)) } else { None },
        };
        crate::pool::reset_log(0, 0);
        huginn_net_tcp::verif_hooks::clock::set_ms(scenario::T0);
        let via_analyzer = r.chance(1, 2);
        let h = if via_analyzer { Handle::new_via_analyzer(kind, &pc, filters) } else { Handle::new(kind, &pc, filters) };
        let Ok(h) = h else { continue };
        let mut queued = 0u64;
        let mut conclusive = true;
        let mut lost = false;
        'outer: for f in &frames {
            for x in &f[slot] {
                if !h.dispatch(x.clone()) {
                    // frames the pool's hash cannot place are refused at dispatch: not a filter decision
                    conclusive = false;
                    break 'outer;
                }
                queued += 1;
                if lost {
                    continue;
                }
                match h.wait_drain(queued, std::time::Duration::from_secs(30)) {
                    crate::pool::Drain::Complete => {}
                    // reported as queued, all queues empty, never processed: lost inside the
                    // pool.  The comparison below shows it; the remaining frames are dispatched
                    // without waiting (each loss costs 2 s of idle detection)
                    crate::pool::Drain::IdleShort => lost = true,
                    crate::pool::Drain::Stalled => {
                        conclusive = false;
                        break 'outer;
                    }
                }
            }
        }
        if lost && h.wait_drain(queued, std::time::Duration::from_secs(30)) == crate::pool::Drain::Stalled {
            conclusive = false;
        }
        let mut got: Vec<String> = h.drain_results().into_iter().flatten().collect();
        h.shutdown();
        if !conclusive || started.elapsed().as_secs() > 20 {
            ctx.inconclusive("analyzer-level pool run: a frame was not queued / not processed, or the run was too slow");
            continue;
        }
        let mut want: Vec<String> = expected.iter().flatten().cloned().collect();
        got.sort();
        want.sort();
        ctx.judge(got == want, &[], "a worker pool with the filter installed decides differently from the documented function", || {
            let missing: Vec<&String> = want.iter().filter(|x| !got.contains(x)).take(3).collect();
            let extra: Vec<&String> = got.iter().filter(|x| !want.contains(x)).take(3).collect();
            json!({"pool": format!("{kind:?}"), "built_by_analyzer": via_analyzer, "config": c.describe(), "tuples": tuples.len(), "admitted_by_documented_function": expected_admit.iter().filter(|a| **a).count(),
                   "results_expected": want.len(), "results_got": got.len(), "missing": missing, "not_expected": extra})
        });
        ctx.bucket(&format!("analyzer-level/{kind:?}/pool/{}/w{}", if c.deny { "deny" } else { "allow" }, pc.workers));
    }
}

pub fn spec() -> PropSpec {
    PropSpec {
        id: "C14",
        run,
        shards: super::shards_8_16,
        rule: "every (mode, port-variant, address-variant, subnet-variant) configuration built through the public builder API is evaluated on crossed boundary ports x boundary address pairs and compared with an independent reference function, in all four FilterConfig re-exports; plus seeded random configurations probed at their own constants +-1; a bucket is a distinct (configuration variant, expected decision) pair",
        assumptions: &[
            "half-open ranges are given through the documented builders (source_range/destination_range); an empty range is a constraint admitting no port",
            "CIDR blocks with host bits set denote the enclosing network",
        ],
        parent_stage: None,
    }
}
