//! C16 — HTTP/2 requests and responses are decoded as RFC 7540 / RFC 7541 define them.
//!
//! Oracle: the generator *is* the reference.  A known header list is HPACK-encoded by `h2gen`
//! (every representation, Huffman on/off, dynamic references, size updates), framed (END_HEADERS
//! only / PADDED / PRIORITY / CONTINUATION splits, preceded and followed by other frames) and fed to
//! `HttpProcessors::parse_request|parse_response` and `Http2Parser::parse_request|parse_response`.
//! The expected pseudo-header fields, ordered header list, cookies, referer, user agent, language
//! and p0f-style signature follow from the list that was encoded.
//!
//! Known defects are modelled exactly: `lib_model` predicts the library's answer from the bytes
//! under the open findings' quirks (raw HEADERS payload handed to HPACK, every HEADERS/CONTINUATION
//! frame decoded on its own, static-table entry 15 reading "accept-") with an independent frame
//! splitter and HPACK decoder.  A wrong answer is a KNOWN-FINDING only if the finding's
//! precondition holds on the input, the model deviates from the expectation and the library's
//! answer equals the model; anything else is a VIOLATION.

use crate::h2gen as g;
use crate::h2gen::{Encoder, HeadersOpts, Indexing, PrioritySpec, Repr, Used};
use crate::rt::{self, hex, Ctx, PropSpec, Rng};
use huginn_net_db::http as dbhttp;
use huginn_net_http::http2_parser::Http2Parser;
use huginn_net_http::http_process::HttpProcessors;
use huginn_net_http::observable::{ObservableHttpRequest, ObservableHttpResponse};
use serde_json::json;

pub const F_FLAGS: &str = "C16-headers-flags-unstripped";
pub const F_CONT: &str = "C16-continuation-not-reassembled";
pub const F_ST15: &str = "C16-hpack-static-entry-15";

// ------------------------------------------------------------------------------------------------
// the meaning of a header list (specification side)
// ------------------------------------------------------------------------------------------------

/// What a decoded header list means.  Empty header values are represented as "" (the library may
/// say `None` or `Some("")`).
#[derive(Clone, Debug, PartialEq, Eq, Default)]
pub struct View {
    pub method: Option<String>,
    pub path: Option<String>,
    pub authority: Option<String>,
    pub scheme: Option<String>,
    pub status: Option<u16>,
    /// non-pseudo headers in wire order; for requests without cookie / referer
    pub headers: Vec<(String, String)>,
    pub cookies: Vec<(String, String, usize)>,
    pub referer: String,
}

impl View {
    /// Keep only what the given entry point exposes (HttpProcessors does not expose :authority and
    /// :scheme; the response side exposes no request fields and vice versa).
    fn project(&self, is_req: bool, observable_api: bool) -> View {
        let mut v = self.clone();
        if is_req {
            v.status = None;
            if observable_api {
                v.authority = None;
                v.scheme = None;
            }
        } else {
            v.method = None;
            v.path = None;
            v.authority = None;
            v.scheme = None;
            v.cookies.clear();
            v.referer.clear();
        }
        v
    }
}

const PSEUDO: [&str; 5] = [":method", ":path", ":authority", ":scheme", ":status"];

/// RFC 7540 §8.1.2: pseudo-header fields carry method/scheme/authority/path (requests) or status
/// (responses); §8.1.2.5: several `cookie` fields are one cookie-string joined by "; ".
/// On the legal lists that are judged every pseudo-header occurs at most once, so the tie-breaks
/// below (last occurrence wins) only matter when this function is used inside a deviation model.
pub fn derive(list: &[(String, String)], is_req: bool) -> Option<View> {
    let mut v = View::default();
    let mut rest: Vec<(String, String)> = Vec::new();
    for (n, val) in list {
        match n.as_str() {
            ":method" => v.method = Some(val.clone()),
            ":path" => v.path = Some(val.clone()),
            ":authority" => v.authority = Some(val.clone()),
            ":scheme" => v.scheme = Some(val.clone()),
            ":status" => v.status = val.parse::<u16>().ok(),
            _ => rest.push((n.clone(), val.clone())),
        }
    }
    if is_req {
        if v.method.is_none() || v.path.is_none() {
            return None;
        }
        let mut pos = 0usize;
        for (n, val) in rest {
            let lower = n.to_lowercase();
            if lower == "cookie" {
                if val.is_empty() {
                    continue;
                }
                for crumb in val.split(';') {
                    let crumb = crumb.trim();
                    if crumb.is_empty() {
                        continue;
                    }
                    match crumb.find('=') {
                        Some(eq) => v.cookies.push((crumb[..eq].trim().to_string(), crumb[eq + 1..].trim().to_string(), pos)),
                        None => v.cookies.push((crumb.to_string(), String::new(), pos)),
                    }
                    pos += 1;
                }
            } else if lower == "referer" {
                if !val.is_empty() {
                    v.referer = val;
                }
            } else {
                v.headers.push((n, val));
            }
        }
    } else {
        v.status?;
        v.headers = rest;
    }
    Some(v)
}

fn first_value<'a>(headers: &'a [(String, String)], name: &str) -> Option<&'a str> {
    headers.iter().find(|(n, _)| n.eq_ignore_ascii_case(name)).map(|(_, v)| v.as_str())
}

/// Accept-Language values used by the generator with the language RFC 7231 §5.3.5 ranks highest
/// (ISO 639-1 English names).
const LANGS: [(&str, &str); 10] = [
    ("en-US,en;q=0.9", "English"),
    ("fr-FR,fr;q=0.9,en;q=0.8", "French"),
    ("de", "German"),
    ("es-ES,es;q=0.8", "Spanish"),
    ("ja,en-US;q=0.7,en;q=0.3", "Japanese"),
    ("ru-RU", "Russian"),
    ("pl;q=0.5,cs;q=0.9", "Czech"),
    ("nl", "Dutch"),
    ("ko-KR,ko;q=0.9,en-US;q=0.8", "Korean"),
    ("sv-SE,sv;q=0.8,en-US;q=0.5,en;q=0.3", "Swedish"),
];

// ------------------------------------------------------------------------------------------------
// model of the library under the open findings (deviation model)
// ------------------------------------------------------------------------------------------------

#[derive(Clone, Copy, Debug)]
pub struct Quirks {
    /// HEADERS payload handed to HPACK with Pad Length / priority fields / padding still in it
    pub unstripped: bool,
    /// each HEADERS / CONTINUATION frame of the stream decoded on its own (shared dynamic table)
    pub per_frame: bool,
    /// static table entry 15 is "accept-"
    pub static15: bool,
}

impl Quirks {
    pub fn open(ctx: &Ctx) -> Quirks {
        Quirks {
            unstripped: ctx.finding_open(F_FLAGS),
            per_frame: ctx.finding_open(F_CONT),
            static15: ctx.finding_open(F_ST15),
        }
    }
    pub fn any(&self) -> bool {
        self.unstripped || self.per_frame || self.static15
    }
}

/// Header list the library is predicted to decode from `bytes` (None = no result).
pub fn lib_model_list(bytes: &[u8], is_req: bool, q: Quirks) -> Option<Vec<(String, String)>> {
    let data = if is_req {
        if !bytes.starts_with(g::PREFACE) {
            return None;
        }
        &bytes[24..]
    } else {
        bytes
    };
    let frames = g::split_frames(data, g::MAX_FRAME);
    let primary = frames.iter().find(|f| f.ftype == g::T_HEADERS && f.stream > 0)?.stream;
    let mut dec = g::Decoder::new();
    dec.static15_quirk = q.static15;
    let mut frags: Vec<Vec<u8>> = Vec::new();
    for f in frames.iter().filter(|f| f.stream == primary) {
        if f.ftype == g::T_HEADERS {
            frags.push(if q.unstripped { f.payload.clone() } else { g::headers_fragment(f)? });
        } else if f.ftype == g::T_CONTINUATION {
            frags.push(f.payload.clone());
        }
    }
    let mut list = Vec::new();
    if q.per_frame {
        for fr in &frags {
            list.extend(dec.decode(fr).ok()?);
        }
    } else {
        // reference behaviour needs END_HEADERS; the inputs of this check carry one block only
        let complete = frames
            .iter()
            .filter(|f| f.stream == primary && (f.ftype == g::T_HEADERS || f.ftype == g::T_CONTINUATION))
            .any(|f| f.flags & g::F_END_HEADERS != 0);
        if !complete {
            return None;
        }
        list = dec.decode(&frags.concat()).ok()?;
    }
    Some(
        list.into_iter()
            .map(|(n, v)| (String::from_utf8_lossy(&n).to_string(), String::from_utf8_lossy(&v).to_string()))
            .collect(),
    )
}

pub fn lib_model(bytes: &[u8], is_req: bool, q: Quirks) -> Option<View> {
    derive(&lib_model_list(bytes, is_req, q)?, is_req)
}

// ------------------------------------------------------------------------------------------------
// views of the library's answers
// ------------------------------------------------------------------------------------------------

fn hdr_pairs(h: &[huginn_net_http::http_common::HttpHeader]) -> Vec<(String, String)> {
    h.iter().map(|x| (x.name.clone(), x.value.clone().unwrap_or_default())).collect()
}

fn cookie_triples(c: &[huginn_net_http::http_common::HttpCookie]) -> Vec<(String, String, usize)> {
    c.iter().map(|x| (x.name.clone(), x.value.clone().unwrap_or_default(), x.position)).collect()
}

fn view_of_obs_req(o: &ObservableHttpRequest) -> View {
    View {
        method: o.method.clone(),
        path: o.uri.clone(),
        authority: None,
        scheme: None,
        status: None,
        headers: hdr_pairs(&o.headers),
        cookies: cookie_triples(&o.cookies),
        referer: o.referer.clone().unwrap_or_default(),
    }
}

fn view_of_obs_res(o: &ObservableHttpResponse) -> View {
    View { status: o.status_code, headers: hdr_pairs(&o.headers), ..Default::default() }
}

/// The p0f-style signature and the convenience fields, judged where the statement is unambiguous.
fn sig_check(
    is_req: bool,
    exp: &View,
    exp_lang: Option<&str>,
    version: dbhttp::Version,
    horder: &[dbhttp::Header],
    habsent: &[dbhttp::Header],
    expsw: &str,
    user_agent: Option<&Option<String>>,
    lang: Option<&Option<String>>,
) -> Result<(), String> {
    if version != dbhttp::Version::V20 {
        return Err(format!("version {version:?} != V20"));
    }
    let (optional, skip, common) = if is_req {
        (dbhttp::request_optional_headers(), dbhttp::request_skip_value_headers(), dbhttp::request_common_headers())
    } else {
        (dbhttp::response_optional_headers(), dbhttp::response_skip_value_headers(), dbhttp::response_common_headers())
    };
    // horder: same names in the same order; value preserved wherever a value is given; a value may
    // only be elided / the optional mark only be set for names of the respective list (the
    // case-(in)sensitivity of that list lookup for lower-case HTTP/2 names is left unjudged)
    if horder.len() != exp.headers.len() {
        return Err(format!("horder has {} entries, header list has {}", horder.len(), exp.headers.len()));
    }
    for (i, (h, (n, v))) in horder.iter().zip(exp.headers.iter()).enumerate() {
        if &h.name != n {
            return Err(format!("horder[{i}] name {:?} != {:?}", h.name, n));
        }
        let in_opt = optional.iter().any(|x| x.eq_ignore_ascii_case(n));
        let in_skip = skip.iter().any(|x| x.eq_ignore_ascii_case(n));
        if h.optional && !in_opt {
            return Err(format!("horder[{i}] {n:?} marked optional but not in the optional list"));
        }
        match &h.value {
            Some(hv) => {
                if hv != v {
                    return Err(format!("horder[{i}] {n:?} value {hv:?} != {v:?}"));
                }
            }
            None => {
                if !(v.is_empty() || in_opt || in_skip) {
                    return Err(format!("horder[{i}] {n:?} value elided but name in no list; expected {v:?}"));
                }
            }
        }
    }
    let exp_absent: Vec<&str> = common
        .iter()
        .copied()
        .filter(|c| !exp.headers.iter().any(|(n, _)| n.eq_ignore_ascii_case(c)))
        .collect();
    let got_absent: Vec<&str> = habsent.iter().map(|h| h.name.as_str()).collect();
    if exp_absent != got_absent || habsent.iter().any(|h| h.value.is_some() || h.optional) {
        return Err(format!("habsent {got_absent:?} != {exp_absent:?}"));
    }
    let sw_name = if is_req { "user-agent" } else { "server" };
    let sw = first_value(&exp.headers, sw_name);
    let exp_sw = sw.unwrap_or("???");
    if expsw != exp_sw {
        return Err(format!("expsw {expsw:?} != {exp_sw:?}"));
    }
    if let Some(ua) = user_agent {
        if ua.as_deref() != sw {
            return Err(format!("user_agent {ua:?} != {sw:?}"));
        }
    }
    if let Some(l) = lang {
        if l.as_deref() != exp_lang {
            return Err(format!("lang {l:?} != {exp_lang:?}"));
        }
    }
    Ok(())
}

// ------------------------------------------------------------------------------------------------
// cases
// ------------------------------------------------------------------------------------------------

#[derive(Clone, Debug)]
pub struct Case {
    pub is_req: bool,
    pub tag: &'static str,
    /// header list in wire order (pseudo-headers included)
    pub list: Vec<(String, String)>,
    pub reprs: Vec<Repr>,
    /// dynamic table size updates emitted at the start of the block
    pub size_updates: Vec<usize>,
    pub prefer_high: bool,
    pub int_pad: u8,
    pub opts: HeadersOpts,
    pub pre: Vec<u8>,
    pub pre_kinds: String,
    pub post: Vec<u8>,
    /// bytes removed from the end of the stream (a capture that ends early)
    pub truncate: usize,
    /// drop the CONTINUATION frames after this many (None = keep all): an unfinished header block
    pub keep_cont: Option<usize>,
    pub cookie_mode: &'static str,
    pub lang: Option<&'static str>,
}

impl Case {
    fn new(is_req: bool, tag: &'static str, list: Vec<(String, String)>, repr: Repr) -> Case {
        let n = list.len();
        let mut pre = g::settings(&[(3, 100), (4, 65535)]);
        if is_req {
            pre.extend_from_slice(&g::window_update(0, 1_048_576));
        }
        Case {
            is_req,
            tag,
            list,
            reprs: vec![repr; n],
            size_updates: Vec::new(),
            prefer_high: false,
            int_pad: 0,
            opts: HeadersOpts::plain(1),
            pre,
            pre_kinds: "S".into(),
            post: Vec::new(),
            truncate: 0,
            keep_cont: None,
            cookie_mode: "-",
            lang: None,
        }
    }

    pub fn encode(&self) -> (Vec<u8>, Vec<Used>) {
        let mut enc = Encoder::new();
        enc.prefer_high_index = self.prefer_high;
        enc.int_pad = self.int_pad;
        let mut block = Vec::new();
        for s in &self.size_updates {
            enc.size_update(&mut block, *s);
        }
        for ((n, v), r) in self.list.iter().zip(self.reprs.iter()) {
            enc.field(&mut block, n.as_bytes(), v.as_bytes(), *r);
        }
        (block, enc.used)
    }

    /// Make every frame fit SETTINGS_MAX_FRAME_SIZE by adding cuts where needed.
    fn fit(&mut self, block_len: usize) {
        let overhead = self.opts.pad.map(|p| 1 + p as usize).unwrap_or(0) + if self.opts.priority.is_some() { 5 } else { 0 };
        let mut user: Vec<usize> = self.opts.cuts.iter().map(|c| (*c).min(block_len)).collect();
        user.sort_unstable();
        let nuser = user.len();
        let mut out = Vec::new();
        let mut start = 0usize;
        let mut first = true;
        for (ti, b) in user.into_iter().chain(std::iter::once(block_len)).enumerate() {
            loop {
                let room = if first { g::MAX_FRAME - overhead } else { g::MAX_FRAME };
                if b - start > room {
                    start += room;
                    out.push(start);
                    first = false;
                } else {
                    break;
                }
            }
            if ti < nuser {
                out.push(b);
                start = b;
                first = false;
            }
        }
        self.opts.cuts = out;
    }

    pub fn bytes(&self, block: &[u8]) -> Vec<u8> {
        let mut hf = g::headers_frames(block, &self.opts);
        if let Some(k) = self.keep_cont {
            let fr = g::split_frames(&hf, usize::MAX >> 8);
            let keep = (1 + k).min(fr.len());
            hf.truncate(fr[keep - 1].end);
        }
        let mut v = if self.is_req { g::PREFACE.to_vec() } else { Vec::new() };
        v.extend_from_slice(&self.pre);
        v.extend_from_slice(&hf);
        if self.keep_cont.is_none() {
            v.extend_from_slice(&self.post);
        }
        let t = self.truncate.min(v.len());
        v.truncate(v.len() - t);
        v
    }
}

pub struct Env {
    procs: HttpProcessors,
    parser: Http2Parser<'static>,
}

fn nbucket(n: usize) -> &'static str {
    match n {
        0 => "0",
        1..=3 => "1-3",
        4..=10 => "4-10",
        11..=30 => "11-30",
        _ => "31+",
    }
}

fn check(ctx: &mut Ctx, env: &Env, c: &mut Case) {
    let (block, used) = c.encode();
    c.fit(block.len());
    let bytes = c.bytes(&block);
    let dir = if c.is_req { "req" } else { "res" };

    // is the header block completely present in the bytes?
    let hf_len = {
        let mut hf = g::headers_frames(&block, &c.opts);
        if let Some(k) = c.keep_cont {
            let fr = g::split_frames(&hf, usize::MAX >> 8);
            let keep = (1 + k).min(fr.len());
            hf.truncate(fr[keep - 1].end);
        }
        hf.len()
    };
    let full_prefix = if c.is_req { 24 } else { 0 } + c.pre.len() + hf_len;
    let nfrag = c.opts.cuts.len() + 1;
    let block_complete = bytes.len() >= full_prefix && c.keep_cont.map(|k| k + 1 >= nfrag).unwrap_or(true);
    let exp_full = derive(&c.list, c.is_req).expect("C16 generator produced an illegal header list");
    let exp: Option<View> = if block_complete { Some(exp_full.clone()) } else { None };

    // harness self-consistency: the reference reading of the bytes gives back the encoded list
    if block_complete {
        let r = lib_model_list(&bytes, c.is_req, Quirks { unstripped: false, per_frame: false, static15: false });
        assert_eq!(r.as_ref(), Some(&c.list), "C16 harness self-check: reference decoding of the generated bytes");
    }

    let pre_flags = c.opts.pad.is_some() || c.opts.priority.is_some();
    let pre_cont = nfrag > 1;
    let pre_15 = used.iter().any(|u| u.index == 15);
    let q = Quirks::open(ctx);
    let framing = c.opts.framing_class();
    let stream = c.opts.stream & 0x7fff_ffff;

    // ------------------------------------------------------------------ API 1: HttpProcessors
    let (actual1, extras1, shown1): (Option<View>, Result<(), String>, String) = if c.is_req {
        match rt::guard(|| env.procs.parse_request(&bytes)) {
            Err(p) => {
                ctx.judge(false, &[], "panic in HttpProcessors::parse_request on HTTP/2 bytes", || json!({"panic": p, "bytes_hex": hex(&bytes)}));
                return;
            }
            Ok(None) => (None, Ok(()), "None".into()),
            Ok(Some(o)) => {
                let ex = sig_check(
                    true,
                    &exp_full,
                    c.lang,
                    o.matching.version,
                    &o.matching.horder,
                    &o.matching.habsent,
                    &o.matching.expsw,
                    Some(&o.user_agent),
                    Some(&o.lang),
                );
                (Some(view_of_obs_req(&o)), ex, crate::canon::http_req_sig(&o))
            }
        }
    } else {
        match rt::guard(|| env.procs.parse_response(&bytes)) {
            Err(p) => {
                ctx.judge(false, &[], "panic in HttpProcessors::parse_response on HTTP/2 bytes", || json!({"panic": p, "bytes_hex": hex(&bytes)}));
                return;
            }
            Ok(None) => (None, Ok(()), "None".into()),
            Ok(Some(o)) => {
                let ex = sig_check(
                    false,
                    &exp_full,
                    None,
                    o.matching.version,
                    &o.matching.horder,
                    &o.matching.habsent,
                    &o.matching.expsw,
                    None,
                    None,
                );
                (Some(view_of_obs_res(&o)), ex, crate::canon::http_res_sig(&o))
            }
        }
    };

    // ------------------------------------------------------------------ API 2: Http2Parser
    let (actual2, extras2, shown2): (Option<View>, Result<(), String>, String) = if c.is_req {
        match rt::guard(|| env.parser.parse_request(&bytes)) {
            Err(p) => {
                ctx.judge(false, &[], "panic in Http2Parser::parse_request", || json!({"panic": p, "bytes_hex": hex(&bytes)}));
                return;
            }
            Ok(Err(e)) => (None, Ok(()), format!("Err({e})")),
            Ok(Ok(None)) => (None, Ok(()), "Ok(None)".into()),
            Ok(Ok(Some(r))) => {
                let v = View {
                    method: Some(r.method.clone()),
                    path: Some(r.path.clone()),
                    authority: r.authority.clone(),
                    scheme: r.scheme.clone(),
                    status: None,
                    headers: hdr_pairs(&r.headers),
                    cookies: cookie_triples(&r.cookies),
                    referer: r.referer.clone().unwrap_or_default(),
                };
                let ex = if r.version != dbhttp::Version::V20 {
                    Err(format!("version {:?}", r.version))
                } else if r.stream_id != stream {
                    Err(format!("stream_id {} != {}", r.stream_id, stream))
                } else {
                    Ok(())
                };
                let shown = format!(
                    "method={:?} path={:?} authority={:?} scheme={:?} stream={} headers={} cookies={:?} referer={:?}",
                    r.method,
                    r.path,
                    r.authority,
                    r.scheme,
                    r.stream_id,
                    crate::canon::headers(&r.headers),
                    cookie_triples(&r.cookies),
                    r.referer
                );
                (Some(v), ex, shown)
            }
        }
    } else {
        match rt::guard(|| env.parser.parse_response(&bytes)) {
            Err(p) => {
                ctx.judge(false, &[], "panic in Http2Parser::parse_response", || json!({"panic": p, "bytes_hex": hex(&bytes)}));
                return;
            }
            Ok(Err(e)) => (None, Ok(()), format!("Err({e})")),
            Ok(Ok(None)) => (None, Ok(()), "Ok(None)".into()),
            Ok(Ok(Some(r))) => {
                let v = View { status: Some(r.status), headers: hdr_pairs(&r.headers), ..Default::default() };
                let nonempty = |name: &str| first_value(&exp_full.headers, name).filter(|s| !s.is_empty()).map(|s| s.to_string());
                let ex = if r.version != dbhttp::Version::V20 {
                    Err(format!("version {:?}", r.version))
                } else if r.stream_id != stream {
                    Err(format!("stream_id {} != {}", r.stream_id, stream))
                } else if r.server != nonempty("server") {
                    Err(format!("server {:?} != {:?}", r.server, nonempty("server")))
                } else if r.content_type != nonempty("content-type") {
                    Err(format!("content_type {:?} != {:?}", r.content_type, nonempty("content-type")))
                } else {
                    Ok(())
                };
                let shown = format!("status={} stream={} server={:?} headers={}", r.status, r.stream_id, r.server, crate::canon::headers(&r.headers));
                (Some(v), ex, shown)
            }
        }
    };

    let mut outcomes: Vec<String> = Vec::new();
    for (api, actual, extras, shown, exp_v) in [
        ("HttpProcessors", &actual1, &extras1, &shown1, exp.as_ref().map(|e| e.project(c.is_req, true))),
        ("Http2Parser", &actual2, &extras2, &shown2, exp.as_ref().map(|e| e.project(c.is_req, false))),
    ] {
        let ok = match (&exp_v, actual) {
            (None, None) => true,
            (Some(e), Some(a)) => a == e && extras.is_ok(),
            _ => false,
        };
        let mut dev_match = false;
        let mut model_shown = String::new();
        if !ok && q.any() {
            let model = lib_model(&bytes, c.is_req, q).map(|m| m.project(c.is_req, api == "HttpProcessors"));
            dev_match = model != exp_v && &model == actual;
            model_shown = format!("{model:?}");
        }
        let devs = [(F_FLAGS, dev_match && pre_flags), (F_CONT, dev_match && pre_cont), (F_ST15, dev_match && pre_15)];
        let outcome = if ok {
            "ok".to_string()
        } else if let Some((id, _)) = devs.iter().find(|(id, m)| *m && ctx.finding_open(id)) {
            format!("known:{id}")
        } else {
            "VIOLATION".to_string()
        };
        ctx.judge(
            ok,
            &devs,
            "HTTP/2 message decoded differently from the header list that was encoded",
            || {
                json!({
                    "api": api, "direction": dir, "workload": c.tag, "framing": framing,
                    "bytes_hex": hex(&bytes), "block_hex": hex(&block),
                    "encoded_header_list": c.list, "representations": used.iter().map(|u| u.class()).collect::<Vec<_>>(),
                    "size_updates": c.size_updates, "cuts": c.opts.cuts, "pad": c.opts.pad, "priority": format!("{:?}", c.opts.priority),
                    "block_complete_in_bytes": block_complete,
                    "expected": format!("{exp_v:?}"), "expected_language": c.lang,
                    "actual": shown, "signature_check": format!("{extras:?}"),
                    "model_of_open_findings": model_shown,
                })
            },
        );
        outcomes.push(outcome);
    }

    // buckets: (direction x framing x representation class x outcome), (shape x outcome)
    let oc = outcomes.join("/");
    let mut seen: Vec<String> = Vec::new();
    for u in &used {
        let k = u.class();
        if !seen.contains(&k) {
            seen.push(k);
        }
    }
    for k in &seen {
        ctx.bucket(&format!("{dir}|{framing}|{k}|{oc}"));
    }
    let dynref = used.iter().any(|u| u.index > 61);
    ctx.bucket(&format!(
        "{dir}|{}|{framing}|n={}|ck={}|su={}|dyn={}|pre={}|post={}|complete={}|{oc}",
        c.tag,
        nbucket(c.list.len()),
        c.cookie_mode,
        c.size_updates.len(),
        dynref,
        c.pre_kinds,
        !c.post.is_empty(),
        block_complete
    ));
    ctx.class(&format!("{dir}/{}", c.tag));
    if ctx.want_sample() && ctx.shard == 0 && used.len() > 4 {
        ctx.sample(json!({
            "direction": dir, "workload": c.tag, "framing": framing, "bytes": bytes.len(),
            "header_list": c.list, "representations": used.iter().map(|u| u.class()).collect::<Vec<_>>(),
            "outcome": oc, "library": shown1,
        }));
    }
}

/// Inputs outside the judged sub-domain: only panics are violations.
fn crash_only(ctx: &mut Ctx, env: &Env, bytes: &[u8], what: &str) {
    let r = rt::guard(|| {
        let _ = env.procs.parse_request(bytes);
        let _ = env.procs.parse_response(bytes);
        let _ = env.parser.parse_request(bytes);
        let _ = env.parser.parse_response(bytes);
    });
    ctx.judge(r.is_ok(), &[], "panic on HTTP/2 bytes outside the judged sub-domain", || {
        json!({"class": what, "panic": r.clone().err(), "bytes_hex": hex(bytes)})
    });
    ctx.class(&format!("crash-only/{what}"));
    ctx.bucket(&format!("crash-only|{what}"));
}

// ------------------------------------------------------------------------------------------------
// generators
// ------------------------------------------------------------------------------------------------

fn s(x: &str) -> String {
    x.to_string()
}

fn req_base() -> Vec<(String, String)> {
    vec![(s(":method"), s("GET")), (s(":scheme"), s("https")), (s(":path"), s("/")), (s(":authority"), s("www.example.com"))]
}

fn res_base() -> Vec<(String, String)> {
    vec![(s(":status"), s("200"))]
}

const EXTRA_NAMES: [&str; 22] = [
    "pragma",
    "upgrade-insecure-requests",
    "sec-fetch-site",
    "sec-fetch-mode",
    "sec-fetch-dest",
    "sec-ch-ua",
    "sec-ch-ua-mobile",
    "sec-ch-ua-platform",
    "dnt",
    "te",
    "origin",
    "priority",
    "x-forwarded-for",
    "x-requested-with",
    "x-a",
    "x-b",
    "alt-svc",
    "x-frame-options",
    "x-content-type-options",
    "content-security-policy",
    "x-powered-by",
    "x",
];

const SPECIAL: [&str; 7] = ["cookie", "referer", "user-agent", "accept-language", "server", "content-type", "set-cookie"];

const VALUES: [&str; 24] = [
    "*/*",
    "gzip, deflate",
    "gzip, deflate, br, zstd",
    "no-cache",
    "max-age=0",
    "1",
    "?0",
    "\"Chromium\";v=\"124\", \"Not-A.Brand\";v=\"99\"",
    "text/html,application/xhtml+xml,application/xml;q=0.9,image/avif,image/webp,*/*;q=0.8",
    "same-origin",
    "navigate",
    "document",
    "u=0, i",
    "trailers",
    "https://example.org",
    "Mon, 21 Oct 2013 20:13:21 GMT",
    "W/\"5e15153d-120f\"",
    "bytes=0-1023",
    "Basic dXNlcjpwYXNz",
    "keep-alive",
    "private, max-age=600, must-revalidate",
    "1234567",
    "utf-8, iso-8859-1;q=0.5",
    "h3=\":443\"; ma=86400",
];

const UAS: [&str; 5] = [
    "Mozilla/5.0 (X11; Linux x86_64) AppleWebKit/537.36 (KHTML, like Gecko) Chrome/124.0.0.0 Safari/537.36",
    "Mozilla/5.0 (Windows NT 10.0; Win64; x64; rv:125.0) Gecko/20100101 Firefox/125.0",
    "curl/8.5.0",
    "Mozilla/5.0 (Macintosh; Intel Mac OS X 10_15_7) AppleWebKit/605.1.15 (KHTML, like Gecko) Version/17.4 Safari/605.1.15",
    "x",
];

const SERVERS: [&str; 5] = ["nginx", "nginx/1.25.3", "Apache/2.4.58 (Unix)", "cloudflare", "gws"];

fn token(r: &mut Rng, lo: usize, hi: usize) -> String {
    const A: &[u8] = b"abcdefghijklmnopqrstuvwxyz0123456789-_";
    let n = r.range(lo as u64, hi as u64) as usize;
    let mut t = String::new();
    for i in 0..n {
        let ch = if i == 0 { A[r.usize(26)] } else { *r.pick(A) };
        t.push(ch as char);
    }
    t
}

fn printable(r: &mut Rng, n: usize) -> String {
    let mut t = String::new();
    for i in 0..n {
        let edge = i == 0 || i + 1 == n;
        let ch = if !edge && r.chance(1, 8) { b' ' } else { r.range(0x21, 0x7e) as u8 };
        t.push(ch as char);
    }
    t
}

fn gen_value(r: &mut Rng) -> String {
    match r.below(20) {
        0 | 1 => String::new(),
        2..=10 => s(*r.pick(&VALUES)),
        11..=16 => {
            let n = r.range(1, 40) as usize;
            printable(r, n)
        }
        17 => {
            // valid UTF-8 beyond ASCII: 2-, 3- and 4-octet sequences (Huffman codes of 20..28 bits)
            let mut t = s("v=");
            for _ in 0..r.range(1, 6) {
                let c = match r.below(3) {
                    0 => r.range(0xa1, 0x7ff) as u32,
                    1 => r.range(0x800, 0xd7ff) as u32,
                    _ => r.range(0x1_0000, 0x1_ffff) as u32,
                };
                t.push(char::from_u32(c).unwrap_or('?'));
            }
            t
        }
        18 => {
            let n = r.range(120, 300) as usize;
            printable(r, n)
        }
        _ => {
            let n = r.range(300, 3000) as usize;
            printable(r, n)
        }
    }
}

fn gen_name(r: &mut Rng) -> String {
    loop {
        let n = match r.below(10) {
            0..=5 => s(g::STATIC_TABLE[14 + r.usize(47)].0),
            6..=8 => s(*r.pick(&EXTRA_NAMES)),
            _ => format!("x-{}", token(r, 1, 20)),
        };
        if !SPECIAL.contains(&n.as_str()) {
            return n;
        }
    }
}

fn gen_repr(r: &mut Rng) -> Repr {
    if r.chance(1, 4) {
        Repr::Indexed
    } else {
        Repr::Literal {
            indexing: *r.pick(&[Indexing::Incremental, Indexing::Incremental, Indexing::Without, Indexing::Never]),
            name_ref: r.chance(2, 3),
            huff_name: r.chance(1, 2),
            huff_value: r.chance(1, 2),
        }
    }
}

fn gen_priority(r: &mut Rng) -> PrioritySpec {
    PrioritySpec {
        exclusive: r.chance(1, 2),
        dependency: *r.pick(&[0u32, 0, 1, 3, 5, 0x7fff_ffff, 0x1234_5678 & 0x7fff_ffff]),
        weight: *r.pick(&[0u8, 1, 15, 109, 200, 219, 254, 255]),
    }
}

/// Control frames a peer may send before its first HEADERS.
fn gen_pre(r: &mut Rng, is_req: bool, stream: u32) -> (Vec<u8>, String) {
    let mut v = Vec::new();
    let mut kinds = String::from("S");
    let n = r.range(0, 6) as usize;
    let mut pairs: Vec<(u16, u32)> = Vec::new();
    for _ in 0..n {
        pairs.push((*r.pick(&[1u16, 2, 3, 4, 5, 6, 8, 9, 0x0a0a, 0xff00]), *r.pick(&[0u32, 1, 100, 4096, 65535, 65536, 6291456, 16384, 262144])));
    }
    v.extend_from_slice(&g::settings(&pairs));
    for _ in 0..r.below(5) {
        match r.below(7) {
            0 => {
                v.extend_from_slice(&g::window_update(0, *r.pick(&[1u32, 15663105, 0x7fff_ffff, 0x8000_0001, 12517377])));
                kinds.push('W');
            }
            1 => {
                let st = if r.chance(1, 2) { stream } else { *r.pick(&[3u32, 5, 7, 9, 11]) };
                v.extend_from_slice(&g::priority(st, gen_priority(r)));
                kinds.push('P');
            }
            2 => {
                v.extend_from_slice(&g::ping(r.chance(1, 2), [1, 2, 3, 4, 5, 6, 7, 8]));
                kinds.push('G');
            }
            3 => {
                let t = r.range(0x0a, 0xff) as u8;
                let st = if r.chance(1, 2) { 0 } else { stream };
                let n = r.below(20) as usize;
                v.extend_from_slice(&g::frame(t, r.u8(), st, &r.bytes(n)));
                kinds.push('U');
            }
            4 => {
                v.extend_from_slice(&g::settings_ack());
                kinds.push('A');
            }
            5 if !is_req => {
                v.extend_from_slice(&g::window_update(0, 983041));
                kinds.push('W');
            }
            _ => {}
        }
    }
    // canonical kind set (sorted, unique) to keep bucket names few
    let mut k: Vec<char> = kinds.chars().collect();
    k.sort_unstable();
    k.dedup();
    (v, k.into_iter().collect())
}

fn gen_post(r: &mut Rng, is_req: bool, stream: u32, end_stream: bool) -> Vec<u8> {
    let mut v = Vec::new();
    if r.chance(1, 2) {
        return v;
    }
    if !end_stream {
        let n = r.below(200) as usize;
        v.extend_from_slice(&g::data(stream, &r.bytes(n), true, if r.chance(1, 3) { Some(r.u8()) } else { None }));
    }
    if r.chance(1, 5) {
        // another message on a later stream, encoded without reference to the dynamic table
        let blk: &[u8] = if is_req { &[0x82, 0x87, 0x84] } else { &[0x88] };
        v.extend_from_slice(&g::headers_frames(blk, &HeadersOpts::plain((stream + 2) & 0x7fff_ffff)));
    }
    match r.below(5) {
        0 => v.extend_from_slice(&g::rst_stream(stream, 8)),
        1 => v.extend_from_slice(&g::goaway(stream, 0, b"bye")),
        2 => v.extend_from_slice(&g::window_update(stream, 65535)),
        3 => v.extend_from_slice(&g::ping(false, [0; 8])),
        _ => {}
    }
    if r.chance(1, 4) {
        // an incomplete frame at the end of the capture
        let f = g::data(stream.wrapping_add(2) & 0x7fff_ffff, &r.bytes(30), false, None);
        let keep = r.range(1, f.len() as u64 - 1) as usize;
        v.extend_from_slice(&f[..keep]);
    }
    v
}

fn gen_case(r: &mut Rng, is_req: bool) -> Case {
    let mut list: Vec<(String, String)> = Vec::new();
    let mut lang = None;
    let mut cookie_mode = "-";
    // pseudo-headers
    if is_req {
        let method = *r.pick(&["GET", "GET", "POST", "PUT", "DELETE", "HEAD", "OPTIONS", "PATCH"]);
        let mut ps = vec![
            (s(":method"), s(method)),
            (s(":scheme"), s(*r.pick(&["https", "http"]))),
            (
                s(":path"),
                match if method == "OPTIONS" && r.chance(1, 2) { 6 } else { r.below(6) } {
                    // the asterisk form of a server-wide OPTIONS request (RFC 7540 8.1.2.3)
                    6 => s("*"),
                    0 => s("/"),
                    1 => s("/index.html"),
                    2 => s("/a/b/c?d=e&f=g%20h"),
                    3 => format!("/{}", token(r, 1, 200)),
                    4 => format!("/{}?{}={}", token(r, 1, 10), token(r, 1, 5), token(r, 0, 30)),
                    _ => s("/search?q=%E2%9C%93&utf8=1"),
                },
            ),
        ];
        if r.chance(5, 6) {
            ps.push((s(":authority"), s(*r.pick(&["www.example.com", "example.org:8443", "[2001:db8::1]:8080", "a.b", "xn--nxasmq6b.example"]))));
        }
        r.shuffle(&mut ps);
        list.extend(ps);
    } else {
        let st = match r.below(4) {
            0 => s(*r.pick(&["200", "204", "206", "304", "400", "404", "500"])),
            _ => format!("{}", r.range(200, 599)),
        };
        list.push((s(":status"), st));
    }
    // regular headers
    let nreg = match r.below(10) {
        0 => 0,
        1..=5 => r.range(1, 8) as usize,
        6..=8 => r.range(8, 25) as usize,
        _ => r.range(25, 56) as usize,
    };
    let mut regs: Vec<(String, String)> = Vec::new();
    for _ in 0..nreg {
        if !regs.is_empty() && r.chance(1, 8) {
            // repeat an earlier field (exact duplicate or same name) to provoke dynamic references
            let (n, v) = regs[r.usize(regs.len())].clone();
            if SPECIAL.contains(&n.as_str()) {
                continue;
            }
            regs.push(if r.chance(1, 2) { (n, v) } else { (n, gen_value(r)) });
        } else {
            regs.push((gen_name(r), gen_value(r)));
        }
    }
    let ins = |regs: &mut Vec<(String, String)>, r: &mut Rng, n: &str, v: String| {
        let at = r.usize(regs.len() + 1);
        regs.insert(at, (s(n), v));
    };
    if is_req {
        if r.chance(4, 5) {
            let ua = s(*r.pick(&UAS));
            ins(&mut regs, r, "user-agent", ua);
        }
        if r.chance(3, 5) {
            let (v, l) = *r.pick(&LANGS);
            lang = Some(l);
            ins(&mut regs, r, "accept-language", s(v));
        }
        if r.chance(1, 3) {
            let v = format!("https://{}/{}", token(r, 1, 12), token(r, 0, 30));
            ins(&mut regs, r, "referer", v);
        }
        // cookies: k pairs, merged in one field or split into crumbs (RFC 7540 §8.1.2.5)
        let k = match r.below(4) {
            0 | 1 => 0,
            2 => r.range(1, 3) as usize,
            _ => r.range(3, 8) as usize,
        };
        if k > 0 {
            let pairs: Vec<String> = (0..k)
                .map(|_| {
                    let n = token(r, 1, 10);
                    let v = match r.below(5) {
                        0 => String::new(),
                        1 => format!("{}==", token(r, 1, 20)),
                        2 => format!("{}={}", token(r, 1, 5), token(r, 1, 5)),
                        _ => token(r, 1, 40),
                    };
                    format!("{n}={v}")
                })
                .collect();
            let groups: Vec<Vec<String>> = match r.below(3) {
                0 => {
                    cookie_mode = "merged";
                    vec![pairs]
                }
                1 => {
                    cookie_mode = "split";
                    pairs.into_iter().map(|p| vec![p]).collect()
                }
                _ => {
                    cookie_mode = "mixed";
                    let mut gs: Vec<Vec<String>> = vec![Vec::new()];
                    for p in pairs {
                        if !gs.last().unwrap().is_empty() && r.chance(1, 2) {
                            gs.push(Vec::new());
                        }
                        gs.last_mut().unwrap().push(p);
                    }
                    gs
                }
            };
            // crumbs keep their relative order; they may be adjacent or interleaved with other fields
            let adjacent = r.chance(1, 2);
            let mut at = r.usize(regs.len() + 1);
            for gp in groups {
                regs.insert(at, (s("cookie"), gp.join("; ")));
                at = if adjacent { at + 1 } else { at + 1 + r.usize(regs.len() - at) };
            }
        }
    } else {
        if r.chance(4, 5) {
            let v = s(*r.pick(&SERVERS));
            ins(&mut regs, r, "server", v);
        }
        if r.chance(4, 5) {
            let v = s(*r.pick(&["text/html; charset=utf-8", "application/json", "image/png"]));
            ins(&mut regs, r, "content-type", v);
        }
        for _ in 0..r.below(3) {
            let v = format!("{}={}; Path=/; HttpOnly", token(r, 1, 8), token(r, 1, 30));
            ins(&mut regs, r, "set-cookie", v);
        }
    }
    list.extend(regs);

    // representations
    let reprs: Vec<Repr> = if r.chance(2, 5) {
        let u = gen_repr(r);
        vec![u; list.len()]
    } else {
        (0..list.len()).map(|_| gen_repr(r)).collect()
    };
    let size_updates = match r.below(8) {
        0 => vec![0],
        1 => vec![0, 4096],
        2 => vec![*r.pick(&[1usize, 31, 32, 33, 64, 100, 256, 1000, 4095, 4096])],
        3 => vec![*r.pick(&[64usize, 128, 512]), *r.pick(&[0usize, 50, 300, 4096])],
        _ => Vec::new(),
    };
    // framing
    let stream = if is_req {
        *r.pick(&[1u32, 1, 1, 3, 5, 101, 0x7fff_ffff, 0x8000_0001])
    } else {
        *r.pick(&[1u32, 1, 3, 2, 0x8000_0003])
    };
    let mut opts = HeadersOpts::plain(stream);
    opts.end_stream = r.chance(1, 2);
    match r.below(11) {
        0..=5 => {}
        6 => opts.pad = Some(*r.pick(&[0u8, 1, 2, 3, 4, 5, 6, 129, 132, 255])),
        7 => opts.pad = Some(r.u8()),
        8 => opts.priority = Some(gen_priority(r)),
        9 => {
            opts.pad = Some(r.u8());
            opts.priority = Some(gen_priority(r));
        }
        _ => opts.priority = Some(PrioritySpec { exclusive: true, dependency: 0, weight: 255 }),
    }
    let ncuts = match r.below(8) {
        0 => 1,
        1 => r.range(1, 4) as usize,
        // many CONTINUATION frames (RFC 7540 sets no limit on their number)
        2 => r.range(8, 40) as usize,
        _ => 0,
    };
    // cut positions are relative; resolved against the block length in `finish_cuts`
    let cut_fracs: Vec<u64> = (0..ncuts).map(|_| r.next_u64()).collect();
    let (pre, pre_kinds) = gen_pre(r, is_req, stream & 0x7fff_ffff);
    let post = gen_post(r, is_req, stream & 0x7fff_ffff, opts.end_stream);
    let mut c = Case {
        is_req,
        tag: "random",
        list,
        reprs,
        size_updates,
        prefer_high: r.chance(1, 3),
        int_pad: if r.chance(1, 10) { 1 } else { 0 },
        opts,
        pre,
        pre_kinds,
        post,
        truncate: 0,
        keep_cont: None,
        cookie_mode,
        lang,
    };
    let (block, _) = c.encode();
    c.opts.cuts = cut_fracs.iter().map(|f| (*f % (block.len() as u64 + 1)) as usize).collect();
    c.opts.cuts.sort_unstable();
    c
}

/// Uniform representation classes used by the enumerations.
fn uniform_reprs() -> Vec<(&'static str, Repr)> {
    let mut v = vec![("indexed", Repr::Indexed)];
    for (iname, ix) in [("inc", Indexing::Incremental), ("wo", Indexing::Without), ("never", Indexing::Never)] {
        for name_ref in [true, false] {
            for huff in [false, true] {
                let label: &'static str = Box::leak(format!("{iname}/{}{}", if name_ref { "ref" } else { "lit" }, if huff { "/huff" } else { "" }).into_boxed_str());
                v.push((label, Repr::lit(ix, name_ref, huff)));
            }
        }
    }
    v
}

fn framings(short: bool) -> Vec<(Option<u8>, Option<PrioritySpec>, bool)> {
    let pr = PrioritySpec { exclusive: true, dependency: 0, weight: 255 };
    let mut v = vec![(None, None, false), (Some(3), None, false), (None, Some(pr), false), (None, None, true)];
    if !short {
        v.push((Some(0), Some(pr), false));
        v.push((Some(200), None, true));
        v.push((None, Some(pr), true));
        v.push((Some(6), Some(pr), true));
    }
    v
}

fn base_lists() -> Vec<(bool, Vec<(String, String)>)> {
    let mut v = Vec::new();
    let mut a = req_base();
    a.push((s("user-agent"), s("curl/8.5.0")));
    a.push((s("accept"), s("*/*")));
    v.push((true, a));
    let mut b = vec![(s(":method"), s("POST")), (s(":path"), s("/submit?x=1")), (s(":scheme"), s("http")), (s(":authority"), s("example.org:8443"))];
    b.push((s("cookie"), s("a=1; b=2")));
    b.push((s("accept-encoding"), s("gzip, deflate")));
    b.push((s("cookie"), s("c=3")));
    b.push((s("referer"), s("https://example.org/")));
    b.push((s("accept-encoding"), s("gzip, deflate")));
    v.push((true, b));
    v.push((true, vec![(s(":method"), s("GET")), (s(":path"), s("/index.html")), (s(":scheme"), s("https"))]));
    v.push((true, vec![(s(":method"), s("OPTIONS")), (s(":path"), s("*")), (s(":scheme"), s("https")), (s(":authority"), s("www.example.com")), (s("user-agent"), s("probe/1"))]));
    let mut c = res_base();
    c.push((s("server"), s("nginx")));
    c.push((s("content-type"), s("text/html")));
    c.push((s("set-cookie"), s("a=b")));
    c.push((s("set-cookie"), s("a=b")));
    v.push((false, c));
    v.push((false, vec![(s(":status"), s("404")), (s("date"), s("Mon, 21 Oct 2013 20:13:21 GMT")), (s("content-length"), s("0"))]));
    v
}

// ------------------------------------------------------------------------------------------------
// run
// ------------------------------------------------------------------------------------------------

pub fn run(ctx: &mut Ctx) {
    g::self_check();
    let env = Env { procs: HttpProcessors::new(), parser: Http2Parser::new() };
    let mut idx: u64 = 0;
    let quick = ctx.quick();
    macro_rules! each {
        ($case:expr) => {{
            idx += 1;
            // under Miri (single in-process shard) only a stride of the enumerations is run
            if ctx.mine(idx) && (!ctx.miri() || idx % 499 == 0) {
                let mut c: Case = $case;
                check(ctx, &env, &mut c);
            }
        }};
    }

    // E1: every static-table entry, as an indexed field and as a name reference in every literal
    // form, in the message kind where the entry is legal
    let ureprs = uniform_reprs();
    for i in 1..=61usize {
        let (n, v) = g::STATIC_TABLE[i - 1];
        for (_, repr) in &ureprs {
            for dir_req in [true, false] {
                let is_pseudo_req = [":authority", ":method", ":path", ":scheme"].contains(&n);
                let is_status = n == ":status";
                if (dir_req && is_status) || (!dir_req && is_pseudo_req) || (!dir_req && (n == "cookie" || n == "referer")) {
                    continue;
                }
                // value: the table's own value for the indexed form, a fresh one for literals
                let value = match repr {
                    Repr::Indexed => s(v),
                    _ => match n {
                        ":status" => s("418"),
                        ":method" => s("PATCH"),
                        ":scheme" => s("https"),
                        ":path" => s("/p"),
                        "cookie" => s("k=v"),
                        "accept-language" => s("de"),
                        _ => s("v1"),
                    },
                };
                let mut list = if dir_req { req_base() } else { res_base() };
                let mut lang = None;
                if is_pseudo_req || is_status {
                    for e in list.iter_mut() {
                        if e.0 == n {
                            e.1 = value.clone();
                        }
                    }
                } else {
                    if n == "accept-language" && dir_req && !value.is_empty() {
                        lang = Some("German");
                    }
                    list.push((s(n), value.clone()));
                    list.push((s("x-after"), s("1")));
                }
                // user-agent / server / accept-language with an empty value: sub-aspect not judged
                if value.is_empty() && ["user-agent", "server", "accept-language", "content-type"].contains(&n) {
                    continue;
                }
                for (pad, pr, cut) in framings(true) {
                    each!({
                        let mut c = Case::new(dir_req, "static-entry", list.clone(), Repr::PLAIN);
                        for (k, e) in c.list.iter().enumerate() {
                            if e.0 == n {
                                c.reprs[k] = *repr;
                            }
                        }
                        c.lang = lang;
                        c.opts.pad = pad;
                        c.opts.priority = pr;
                        if cut {
                            c.opts.cuts = vec![c.encode().0.len() / 2];
                        }
                        c
                    });
                }
            }
        }
    }
    ctx.exhaustive("every static-table index 1..61 as indexed field and as name reference in all literal forms x 4 framings");

    // E2: every pad length 0..=255, with and without the PRIORITY flag
    let bases = base_lists();
    for (bi, (is_req, list)) in bases.iter().enumerate() {
        if quick && bi >= 2 && bi != 3 {
            continue;
        }
        for pad in 0..=255u8 {
            for with_prio in [false, true] {
                each!({
                    let mut c = Case::new(*is_req, "pad-length", list.clone(), if pad % 2 == 0 { Repr::Indexed } else { Repr::lit(Indexing::Without, true, true) });
                    c.opts.pad = Some(pad);
                    if with_prio {
                        c.opts.priority = Some(PrioritySpec { exclusive: pad & 1 == 1, dependency: pad as u32, weight: pad });
                    }
                    c
                });
            }
        }
    }
    ctx.exhaustive("every Pad Length 0..=255 with and without the PRIORITY flag");

    // E3: CONTINUATION splits at every byte (all single cuts; all pairs of cuts for the short blocks)
    for (is_req, list) in bases.iter() {
        for (rname, repr) in [("indexed", Repr::Indexed), ("wo", Repr::lit(Indexing::Without, false, false)), ("inc-huff", Repr::lit(Indexing::Incremental, true, true))] {
            let probe = Case::new(*is_req, "cont-every-byte", list.clone(), repr);
            let len = probe.encode().0.len();
            for i in 0..=len {
                each!({
                    let mut c = probe.clone();
                    c.opts.cuts = vec![i];
                    c
                });
            }
            if len <= 48 || (!quick && len <= 90) || rname == "indexed" {
                for i in 0..=len {
                    for j in i..=len {
                        each!({
                            let mut c = probe.clone();
                            c.tag = "cont-two-cuts";
                            c.opts.cuts = vec![i, j];
                            c
                        });
                    }
                }
            }
            // unfinished blocks: HEADERS without END_HEADERS, its CONTINUATION not (yet) captured
            for i in 0..=len {
                each!({
                    let mut c = probe.clone();
                    c.tag = "cont-unfinished";
                    c.opts.cuts = vec![i];
                    c.keep_cont = Some(0);
                    c
                });
            }
        }
    }
    ctx.exhaustive("header block cut into HEADERS+CONTINUATION at every byte position (1 cut, 2 cuts for short blocks), also with the CONTINUATION missing");

    // E4: every pseudo-header order x uniform representation x framing
    let mut orders: Vec<Vec<(String, String)>> = Vec::new();
    for p in permutations(4) {
        let base = req_base();
        orders.push(p.iter().map(|k| base[*k].clone()).collect());
    }
    for p in permutations(3) {
        let base = req_base();
        orders.push(p.iter().map(|k| base[*k].clone()).collect());
    }
    for (_, repr) in &ureprs {
        for ps in &orders {
            let mut l = ps.clone();
            l.push((s("user-agent"), s("curl/8.5.0")));
            for (pad, pr, cut) in framings(quick) {
                each!({
                    let mut c = Case::new(true, "pseudo-order", l.clone(), *repr);
                    c.opts.pad = pad;
                    c.opts.priority = pr;
                    if cut {
                        c.opts.cuts = vec![c.encode().0.len() / 2];
                    }
                    c
                });
            }
        }
    }
    ctx.exhaustive("all 24 (+6) pseudo-header orders x 13 uniform representations x framings");

    // E5: string-length boundaries of the 7-bit length prefix (126/127/128, 254/255/256, ...)
    let lens: &[usize] = if quick { &[0, 1, 126, 127, 128, 254, 255, 256, 2000, 8100] } else { &[0, 1, 2, 125, 126, 127, 128, 129, 253, 254, 255, 256, 257, 1000, 4000, 8100, 12000, 16000] };
    for &l in lens {
        for huff in [false, true] {
            for name_ref in [false, true] {
                for ix in [Indexing::Incremental, Indexing::Without] {
                    for is_req in [true, false] {
                        each!({
                            let mut list = if is_req { req_base() } else { res_base() };
                            let val: String = (0..l).map(|k| (b'a' + (k % 26) as u8) as char).collect();
                            list.push((s("etag"), val));
                            let mut c = Case::new(is_req, "value-length", list, Repr::Indexed);
                            let k = c.list.len() - 1;
                            c.reprs[k] = Repr::lit(ix, name_ref, huff);
                            c
                        });
                        if l >= 1 && l <= 4000 {
                            each!({
                                let mut list = if is_req { req_base() } else { res_base() };
                                let nm: String = (0..l).map(|k| (b'a' + (k % 26) as u8) as char).collect();
                                list.push((nm, s("v")));
                                let mut c = Case::new(is_req, "name-length", list, Repr::Indexed);
                                let k = c.list.len() - 1;
                                c.reprs[k] = Repr::lit(ix, false, huff);
                                c
                            });
                        }
                    }
                }
            }
        }
    }

    // E5b: frames of exactly SETTINGS_MAX_FRAME_SIZE (16384) octets, and one less
    for is_req in [true, false] {
        for target in [16383usize, 16384] {
            for mode in 0..4u8 {
                each!({
                    let want = match mode {
                        0 => target,
                        1 => target - 8,
                        2 => target + 50,
                        _ => 200,
                    };
                    let mut c = case_with_block_len(is_req, want);
                    match mode {
                        0 => {}
                        1 => c.opts.pad = Some(7),
                        2 => c.opts.cuts = vec![50],
                        _ => {
                            c.pre.extend_from_slice(&g::frame(0x42, 0, 0, &vec![0xa5u8; target]));
                            c.pre_kinds = "SU".into();
                            c.opts.end_stream = false;
                            c.post = g::data(1, &vec![0x5au8; target], true, None);
                        }
                    }
                    c
                });
            }
        }
    }

    // E6: dynamic-table index boundaries (62, 63/64 for the 6-bit prefix, 76/77 for 4-bit+61,
    // 126/127/128 for the 7-bit prefix): k insertions, then references to the oldest entries
    let ks: &[usize] = if quick { &[1, 2, 3, 16, 66, 67, 100] } else { &[1, 2, 3, 4, 14, 15, 16, 17, 64, 65, 66, 67, 68, 100, 120] };
    for &k in ks {
        for refkind in 0..4u8 {
            for is_req in [true, false] {
                for (pad, pr, cut) in framings(true) {
                    each!({
                        let mut list = if is_req { req_base() } else { res_base() };
                        let base_n = list.len();
                        for j in 0..k {
                            list.push((format!("k{j}"), format!("{j}")));
                        }
                        // references: whole field (oldest, newest) or the name only
                        list.push((s("k0"), if refkind == 0 { s("0") } else { s("other") }));
                        list.push((format!("k{}", k - 1), if refkind == 0 { format!("{}", k - 1) } else { s("z") }));
                        let mut c = Case::new(is_req, "dyn-index", list, Repr::Indexed);
                        for j in 0..k {
                            c.reprs[base_n + j] = Repr::lit(Indexing::Incremental, false, j % 2 == 0);
                        }
                        let r = match refkind {
                            0 => Repr::Indexed,
                            1 => Repr::lit(Indexing::Incremental, true, false),
                            2 => Repr::lit(Indexing::Without, true, true),
                            _ => Repr::lit(Indexing::Never, true, false),
                        };
                        c.reprs[base_n + k] = r;
                        c.reprs[base_n + k + 1] = r;
                        c.prefer_high = true;
                        c.opts.pad = pad;
                        c.opts.priority = pr;
                        if cut {
                            c.opts.cuts = vec![c.encode().0.len() / 2];
                        }
                        c
                    });
                }
            }
        }
    }

    // E7: dynamic table size updates at the start of the block, with later references / evictions
    for su in [vec![0usize], vec![0, 4096], vec![0, 0], vec![40], vec![70], vec![100, 4096], vec![4096], vec![31]] {
        for (bi, (is_req, list)) in bases.iter().enumerate() {
            let _ = bi;
            for (_, repr) in &ureprs {
                each!({
                    let mut l2 = list.clone();
                    let extra = l2.last().cloned().unwrap();
                    if extra.0.starts_with(':') {
                        l2.push((s("x-dup"), s("1")));
                        l2.push((s("x-dup"), s("1")));
                    } else {
                        l2.push(extra);
                    }
                    let mut c = Case::new(*is_req, "size-update", l2, *repr);
                    let n = c.reprs.len();
                    c.reprs[n - 1] = Repr::Indexed;
                    c.size_updates = su.clone();
                    c
                });
            }
        }
    }

    // E8: every printable ASCII octet and samples of multi-octet UTF-8 through the Huffman coder
    {
        let ascii: String = (0x20u8..=0x7e).map(|b| b as char).collect();
        let mut vals = vec![ascii.trim().to_string()];
        for b in 0x21u8..=0x7e {
            vals.push(format!("{0}{0}{0}", b as char));
        }
        for cp in [0xa1u32, 0xe9, 0x3a9, 0x7ff, 0x800, 0x20ac, 0xfffd, 0x1_0000, 0x1_f600, 0x10_ffff] {
            vals.push(format!("a{}b", char::from_u32(cp).unwrap()));
        }
        for v in vals {
            for huff in [true, false] {
                for is_req in [true, false] {
                    each!({
                        let mut list = if is_req { req_base() } else { res_base() };
                        list.push((s("x-sym"), v.clone()));
                        let mut c = Case::new(is_req, "huffman-symbols", list, Repr::lit(Indexing::Incremental, true, huff));
                        c.reprs[0] = Repr::Indexed;
                        c
                    });
                }
            }
        }
    }

    // R: seeded structured random messages
    let n = ctx.scale(180_000, 4_000_000, 200) / ctx.nshards as u64 + 1;
    let mut r = ctx.rng(16);
    for k in 0..n {
        let is_req = r.chance(3, 5);
        let mut c = gen_case(&mut r, is_req);
        check(ctx, &env, &mut c);
        if k % 16 == 0 {
            // captures that end early: inside the header block frames -> no message may be reported
            let (block, _) = c.encode();
            c.fit(block.len());
            let hf = g::headers_frames(&block, &c.opts).len();
            let mut t = c.clone();
            t.tag = "random-truncated";
            t.post.clear();
            t.truncate = r.range(1, hf as u64) as usize;
            check(ctx, &env, &mut t);
        }
        if k % 64 == 0 {
            rt::progress(ctx, &format!("random case {k}/{n}"));
        }
    }

    // crash-only: octets outside UTF-8 in names/values, upper-case names, illegal pseudo-header use,
    // random frame soup — the statement does not define the result, the code must not panic
    let m = ctx.scale(20_000, 400_000, 50) / ctx.nshards as u64 + 1;
    let mut r2 = ctx.rng(1600);
    for _ in 0..m {
        let is_req = r2.chance(1, 2);
        let kind = r2.below(5);
        let bytes = match kind {
            0 => {
                // raw octets through both string codings
                let mut enc = Encoder::new();
                let mut block = Vec::new();
                let base = if is_req { req_base() } else { res_base() };
                for (n, v) in &base {
                    enc.field(&mut block, n.as_bytes(), v.as_bytes(), Repr::Indexed);
                }
                for _ in 0..r2.range(1, 5) {
                    let nl = r2.range(0, 12) as usize;
                    let vl = r2.range(0, 40) as usize;
                    let (nb, vb) = (r2.bytes(nl), r2.bytes(vl));
                    enc.field(&mut block, &nb, &vb, gen_repr(&mut r2));
                }
                if is_req { g::request_bytes(&g::settings(&[]), &block, &HeadersOpts::plain(1), &[]) } else { g::response_bytes(&g::settings(&[]), &block, &HeadersOpts::plain(1), &[]) }
            }
            1 => {
                // malformed messages: missing/duplicate/late pseudo-headers, upper-case names
                let mut c = gen_case(&mut r2, is_req);
                match r2.below(4) {
                    0 => c.list.retain(|e| e.0 != ":path" && e.0 != ":status"),
                    1 => {
                        let d = c.list[0].clone();
                        c.list.push(d);
                        c.reprs.push(Repr::PLAIN);
                    }
                    2 => {
                        for e in c.list.iter_mut() {
                            if !e.0.starts_with(':') {
                                e.0 = e.0.to_uppercase();
                            }
                        }
                    }
                    _ => {
                        c.list.push((s(":unknown"), s("x")));
                        c.reprs.push(Repr::PLAIN);
                    }
                }
                let (block, _) = c.encode();
                c.fit(block.len());
                c.bytes(&block)
            }
            2 => {
                // random block octets inside valid framing
                let n = r2.range(0, 60) as usize;
                let block = r2.bytes(n);
                let mut o = HeadersOpts::plain(1);
                if r2.chance(1, 2) {
                    o.pad = Some(r2.u8());
                }
                if is_req { g::request_bytes(&[], &block, &o, &[]) } else { g::response_bytes(&[], &block, &o, &[]) }
            }
            3 => {
                // HEADERS payload shorter than its flags require
                let n = r2.range(0, 6) as usize;
                let mut v = if is_req { g::PREFACE.to_vec() } else { Vec::new() };
                v.extend_from_slice(&g::frame(g::T_HEADERS, g::F_END_HEADERS | g::F_PADDED | g::F_PRIORITY, 1, &r2.bytes(n)));
                v
            }
            _ => {
                let n = r2.range(0, 120) as usize;
                let mut v = if is_req { g::PREFACE.to_vec() } else { Vec::new() };
                v.extend_from_slice(&r2.bytes(n));
                v
            }
        };
        crash_only(ctx, &env, &bytes, ["raw-octets", "malformed-message", "random-block", "short-headers-payload", "random-frames"][kind as usize]);
    }
}

/// A legal message whose header block is exactly `want` octets long.
fn case_with_block_len(is_req: bool, want: usize) -> Case {
    let mut l = want.saturating_sub(40);
    for _ in 0..8 {
        let mut list = if is_req { req_base() } else { res_base() };
        list.push((s("etag"), (0..l).map(|k| (b'a' + (k % 26) as u8) as char).collect()));
        let mut c = Case::new(is_req, "max-frame", list, Repr::Indexed);
        let k = c.list.len() - 1;
        c.reprs[k] = Repr::lit(Indexing::Without, true, false);
        let have = c.encode().0.len();
        if have == want {
            return c;
        }
        l = (l as i64 + want as i64 - have as i64).max(0) as usize;
    }
    panic!("C16 harness: cannot build a block of {want} octets");
}

fn permutations(n: usize) -> Vec<Vec<usize>> {
    fn rec(cur: &mut Vec<usize>, used: &mut Vec<bool>, n: usize, out: &mut Vec<Vec<usize>>) {
        if cur.len() == n {
            out.push(cur.clone());
            return;
        }
        for i in 0..n {
            if !used[i] {
                used[i] = true;
                cur.push(i);
                rec(cur, used, n, out);
                cur.pop();
                used[i] = false;
            }
        }
    }
    let mut out = Vec::new();
    rec(&mut Vec::new(), &mut vec![false; n], n, &mut out);
    out
}

pub fn spec() -> PropSpec {
    PropSpec {
        id: "C16",
        run,
        shards: super::shards_16,
        rule: "a known header list is HPACK-encoded by an independent encoder (checked against RFC 7541 Appendix C) and framed per RFC 7540; HttpProcessors and Http2Parser must report exactly that list (pseudo-header fields, ordered headers, cookies, referer, user agent, language, p0f-style signature). Enumerated: every static-table index in every representation, every Pad Length 0..255 with/without PRIORITY, CONTINUATION cuts at every byte (1 and 2 cuts) incl. unfinished blocks, all pseudo-header orders x 13 representations, string-length and dynamic-index prefix boundaries, size updates, Huffman symbols; plus seeded random messages (0..60 fields, cookie crumbs, dynamic references, control frames before, DATA/other frames and truncated captures after). A bucket is a distinct (direction, framing class, representation class, outcome) or (workload, shape, outcome) tuple",
        assumptions: &[
            "judged messages are legal HTTP/2: lower-case field names, each request pseudo-header at most once and before regular fields, :method and :path present, values valid UTF-8 without leading/trailing whitespace; one header block on the first stream that carries HEADERS; frames <= 16384 octets; dynamic table size updates <= 4096; HPACK integers use at most 5 octets. Octets outside UTF-8, upper-case names, malformed pseudo-header use and random frame soup are run crash-only",
            "an empty field value may be reported as None or Some(\"\"); HttpHeader.position is not judged (the statement does not say whether pseudo-headers count)",
            "horder: names, order and every value that is present are judged exactly; a value may be elided and the optional mark set only for names that are (case-insensitively) in the respective p0f list — whether lower-case HTTP/2 names must get that treatment is not judged; habsent = common-list members absent case-insensitively; expsw = User-Agent/Server value or ???",
            "user-agent, server, content-type and accept-language occur at most once and non-empty in judged messages; the expected language is the highest-q entry of a fixed set of Accept-Language values (ISO 639-1 names)",
            "cookies are name=value pairs joined by \"; \" or split into several cookie fields (RFC 7540 8.1.2.5); position counts pairs over all crumbs; cookie value \"\" may be None or Some(\"\")",
            "a capture that ends before END_HEADERS (or inside a frame of the block) must yield no message",
            "the deviation models of the three open findings re-implement the defect with the harness' own frame splitter and HPACK decoder; they suppress only answers equal to the model on inputs where the finding's precondition holds and the model differs from the expectation",
        ],
        parent_stage: None,
    }
}
