//! C07 — connections are analysed in isolation: results do not depend on other traffic.
//!
//! Differential oracle: every connection of a scenario is analysed alone on a fresh analyzer
//! (run A) and inside an order-preserving interleaving with the other connections on one analyzer
//! (run B); the per-frame canonical results of each connection must be identical.

use crate::pool::{PoolCfg, PoolKind};
use crate::rt::{hex, Ctx, PropSpec, Rng};
use crate::scenario::{self, Conn, Kind, Mix, Runner, Which};
use serde_json::json;
use std::collections::BTreeMap;

const KINDS: [Kind; 10] = [
    Kind::TcpHandshake,
    Kind::Tls,
    Kind::Tls,
    Kind::Http1,
    Kind::Http1,
    Kind::Http2,
    Kind::Http2Hostile,
    Kind::Http2Hostile,
    Kind::Garbage,
    Kind::Truncated,
];
const MIXES: [Mix; 5] = [Mix::Sequential, Mix::RoundRobin, Mix::Riffle, Mix::HostileFirst, Mix::Bursts];
const WHICH: [Which; 4] = [Which::Tcp, Which::Http, Which::Tls, Which::Unified];

pub fn isolated(which: Which, with_db: bool, c: &Conn) -> Result<Vec<Vec<String>>, String> {
    let mut r = Runner::new(which, 64, with_db);
    let mut out = Vec::with_capacity(c.frames.len());
    for (t, f) in &c.frames {
        out.push(r.feed(*t, f)?);
    }
    Ok(out)
}

/// The same question put to the worker pools (the parallel mode of the TCP, HTTP and TLS
/// analyzers): the interleaved trace is dispatched free-running, so that frames of several
/// connections wait together in a worker's queue, and after logical drain the results attributed
/// to each connection must be those of the connection analysed alone.
fn pool_stage(ctx: &mut Ctx, s: u64, r: &mut Rng, conns: &[Conn], with_db: bool) {
    let started = std::time::Instant::now();
    for kind in [PoolKind::Http, PoolKind::Tls, PoolKind::Tcp] {
        let which = super::c10::which_of(kind);
        // reference: each connection alone on a fresh sequential analyzer, clock frozen as in the pool run
        let mut expected: BTreeMap<String, Vec<String>> = BTreeMap::new();
        let mut failed = false;
        for c in conns {
            let mut rn = Runner::new(which, 64, with_db);
            for (_, f) in &c.frames {
                match rn.feed(scenario::T0, f) {
                    Ok(lines) => {
                        for l in lines {
                            expected.entry(crate::canon::conn_key_of(&l).unwrap_or_default()).or_default().push(l);
                        }
                    }
                    Err(_) => {
                        failed = true; // reported by the sequential stage
                    }
                }
            }
        }
        if failed {
            continue;
        }
        let mix = *r.pick(&[Mix::RoundRobin, Mix::Riffle, Mix::HostileFirst, Mix::Bursts]);
        let trace = scenario::interleave(r, conns, mix);
        let cfg = PoolCfg { workers: 1 + r.usize(3), queue: trace.len() + 8, batch: *r.pick(&[1usize, 2, 4]), timeout_ms: *r.pick(&[1u64, 10]), max_conn: 64, with_db };
        huginn_net_tcp::verif_hooks::clock::set_ms(scenario::T0);
        let via_analyzer = r.chance(1, 2);
        let par = match super::c10::parallel_with(kind, &cfg, &trace, false, r.next_u64(), *r.pick(&[0u64, 2, 5]), via_analyzer) {
            Ok(p) => p,
            Err(e) => {
                ctx.judge(false, &[], "worker pool could not be created", || json!({"error": e}));
                continue;
            }
        };
        if !par.all_queued || !par.drained {
            ctx.inconclusive("pool stage: a frame was not queued or the pool did not drain within 30 s");
            continue;
        }
        if started.elapsed().as_secs() >= 10 {
            ctx.inconclusive("pool stage exceeded 10 s of wall time (TTL caches could have expired)");
            continue;
        }
        let mut got: BTreeMap<String, Vec<String>> = BTreeMap::new();
        for l in par.results.iter().flatten() {
            got.entry(crate::canon::conn_key_of(l).unwrap_or_default()).or_default().push(l.clone());
        }
        if kind == PoolKind::Tcp {
            // the TCP pool shards by sending host: the two directions of a connection are
            // analysed by different workers, their relative order is not defined
            for v in expected.values_mut().chain(got.values_mut()) {
                v.sort();
            }
        }
        let same = got == expected;
        ctx.judge(same, &[], "a connection's results in the worker pool differ from its results when analysed alone", || {
            let key = expected.keys().chain(got.keys()).find(|k| expected.get(*k) != got.get(*k)).cloned().unwrap_or_default();
            json!({
                "scenario": s, "pool": format!("{kind:?}"), "config": format!("{cfg:?}"), "built_by_analyzer": via_analyzer, "mix": format!("{mix:?}"),
                "kinds_in_scenario": conns.iter().map(|c| format!("{:?}", c.kind)).collect::<Vec<_>>(),
                "connection": key, "alone": expected.get(&key), "in_pool": got.get(&key),
                "trace_order": trace.iter().map(|t| t.conn).collect::<Vec<_>>(),
            })
        });
        ctx.bucket(&format!("pool/{kind:?}/w{}/b{}/{mix:?}/{}", cfg.workers, cfg.batch, if via_analyzer { "analyzer-built" } else { "direct" }));
        ctx.class_n(&format!("pool-stage-results/{kind:?}"), par.results.len() as u64);
    }
}

/// Address/port reuse: connection B is opened on the 4-tuple that connection A used, after A has
/// completed (HTTP: both heads reported; TLS: ClientHello reported).  B is a different connection
/// (other initial sequence numbers, other content); what the analyzer reports for it must be what
/// it reports for B alone -- a finished connection must not keep its successor from being analysed.
fn reuse_stage(ctx: &mut Ctx, s: u64, r: &mut Rng) {
    for which in [Which::Http, Which::Tls] {
        let kinds: &[Kind] = if which == Which::Http { &[Kind::Http1, Kind::Http2] } else { &[Kind::Tls] };
        let ka = *r.pick(kinds);
        let kb = *r.pick(kinds);
        let v6 = r.chance(1, 4);
        let ep = scenario::ep_for(r, s * 16 + 9, v6);
        let a = scenario::gen_conn_ep(r, s * 16 + 9, ka, scenario::T0, Some(ep.clone()));
        let b = scenario::gen_conn_ep(r, s * 16 + 10, kb, scenario::T0 + 3000, Some(ep));
        let (Ok(alone_a), Ok(alone_b)) = (isolated(which, false, &a), isolated(which, false, &b)) else { continue };
        // A must have completed on its own: request and response (HTTP) / ClientHello (TLS) reported
        let lines_a: Vec<&String> = alone_a.iter().flatten().collect();
        let complete = if which == Which::Http {
            lines_a.iter().any(|l| l.starts_with("httpreq")) && lines_a.iter().any(|l| l.starts_with("httpres"))
        } else {
            !lines_a.is_empty()
        };
        if !complete {
            ctx.class("reuse-stage: first connection does not complete (skipped)");
            continue;
        }
        let mut runner = Runner::new(which, 64, false);
        let mut got_b = Vec::new();
        let mut panic = None;
        for (t, f) in &a.frames {
            if let Err(p) = runner.feed(*t, f) {
                panic = Some(p);
            }
        }
        for (t, f) in &b.frames {
            match runner.feed(*t, f) {
                Ok(l) => got_b.push(l),
                Err(p) => panic = Some(p),
            }
        }
        if let Some(p) = panic {
            ctx.judge(false, &[], "panic while analysing interleaved connections", || json!({"panic": p, "scenario": s, "stage": "4-tuple reuse"}));
            continue;
        }
        // which direction completed A: the request last, or the response last
        let last_report = alone_a.iter().rposition(|l| !l.is_empty()).and_then(|i| alone_a[i].last().map(|l| l.split(' ').next().unwrap_or("").to_string())).unwrap_or_default();
        ctx.judge(got_b == alone_b, &[], "a connection that reuses the address/port pair of a completed connection is analysed differently than alone", || {
            let k = alone_b.iter().zip(got_b.iter()).position(|(x, y)| x != y).unwrap_or(0);
            json!({
                "scenario": s, "analyzer": format!("{which:?}"), "first_connection": format!("{ka:?}"), "second_connection": format!("{kb:?}"), "endpoints": b.ep.key(),
                "first_connection_completed_by": last_report,
                "first_differing_frame_of_second": k, "alone": alone_b.get(k), "after_first": got_b.get(k),
                "first_frames_hex": a.frames.iter().map(|f| hex(&f.1)).collect::<Vec<_>>(),
                "second_frames_hex": b.frames.iter().map(|f| hex(&f.1)).collect::<Vec<_>>(),
            })
        });
        ctx.bucket(&format!("reuse/{which:?}/{ka:?}->{kb:?}/completed-by-{last_report}"));
    }
}

/// Neighbours that share the server's socket.
///
/// (i) a bulk connection: some client pushes (or is sent) more than 256 KiB / more than 2048
/// segments of bytes that never form an HTTP head, and another client then talks plain HTTP to the
/// same server address and port.  (ii) two connections served by one socket, all segments
/// timestamped; the server closes (FIN) or resets one of them between two segments it sends on
/// the other.  In both, every connection's results are those of the connection analysed alone.
fn neighbour_stage(ctx: &mut Ctx, s: u64, r: &mut Rng) {
    use crate::pkt::{self, flags, Endpoints, Link, Script};
    let sub = (s % 250) as u8;
    let server = [172, 22, sub, 1 + r.below(3) as u8];
    let sport = *r.pick(&[80u16, 8080, 8000]);
    // ---- (i)
    {
        let ep_a = Endpoints::v4([10, 79, sub, 1], 1025 + r.u16() % 60000, server, sport);
        let ep_b = Endpoints::v4([10, 79, sub, 2], 1025 + r.u16() % 60000, server, sport);
        let mut sa = Script::new(ep_a.clone(), Link::Ethernet, r.u32(), r.u32());
        sa.handshake();
        let from_client = r.chance(2, 3);
        // (the many-segments form costs ~9 s per run -- the analyzer re-reads the whole buffered
        // direction on every segment until it gives up -- so it is the rarer one)
        let (nseg, seglen) = if !r.chance(1, if ctx.quick() { 100 } else { 400 }) { (5 + r.usize(3), 60_000usize) } else { (2060 + r.usize(100), 40 + r.usize(20)) };
        for i in 0..nseg {
            let mut b = r.bytes(seglen);
            if i == 0 {
                b[0] = 0x80 | b[0];
            }
            if from_client {
                sa.c_data(&b);
            } else {
                sa.s_data(&b);
            }
        }
        let a = Conn { kind: Kind::Garbage, ep: ep_a, frames: sa.frames.iter().enumerate().map(|(i, f)| (scenario::T0 + i as u64, f.clone())).collect() };
        let kb = *r.pick(&[Kind::Http1, Kind::Http1, Kind::Http2]);
        let b = scenario::gen_conn_ep(r, s * 16 + 11, kb, scenario::T0 + 5000, Some(ep_b));
        for which in [Which::Http, Which::Unified] {
            let Ok(alone_b) = isolated(which, false, &b) else { continue };
            let mut runner = Runner::new(which, 64, false);
            let mut got_b = Vec::new();
            let mut panic = None;
            for (t, f) in &a.frames {
                if let Err(p) = runner.feed(*t, f) {
                    panic = Some(p);
                }
            }
            for (t, f) in &b.frames {
                match runner.feed(*t, f) {
                    Ok(l) => got_b.push(l),
                    Err(p) => panic = Some(p),
                }
            }
            if let Some(p) = panic {
                ctx.judge(false, &[], "panic while analysing interleaved connections", || json!({"panic": p, "scenario": s, "stage": "bulk neighbour"}));
                continue;
            }
            ctx.judge(got_b == alone_b, &[], "a connection to a server that another client has sent bulk non-HTTP data to is analysed differently than alone", || {
                let k = alone_b.iter().zip(got_b.iter()).position(|(x, y)| x != y).unwrap_or(0);
                json!({"scenario": s, "analyzer": format!("{which:?}"), "bulk_connection": a.ep.key(), "bulk_segments": nseg, "bulk_segment_octets": seglen, "bulk_sent_by_client": from_client,
                       "connection": b.ep.key(), "kind": format!("{kb:?}"), "first_differing_frame": k, "alone": alone_b.get(k), "after_bulk": got_b.get(k)})
            });
            ctx.bucket(&format!("neighbour/bulk/{which:?}/{kb:?}/{}/{}", if from_client { "client-sends" } else { "server-sends" }, if seglen > 1000 { "jumbo" } else { "many-segments" }));
        }
    }
    // ---- (ii)
    {
        let ts = |v: u32, e: u32| {
            let mut o = pkt::opt_nop();
            o.extend(pkt::opt_nop());
            o.extend(pkt::opt_ts(v, e));
            o
        };
        let hz = *r.pick(&[100u64, 250, 1000]);
        let mut conns: Vec<Conn> = Vec::new();
        let closing = *r.pick(&[flags::FIN | flags::ACK, flags::RST, flags::RST | flags::ACK]);
        // the second variant shares the CLIENT socket instead (one source port towards two servers)
        let share_client = r.chance(1, 4);
        for c in 0..2u64 {
            let ep = if share_client {
                Endpoints::v4([10, 79, sub, 9], 40_000 + (s % 20_000) as u16, [172, 22, sub, 10 + c as u8], sport)
            } else {
                Endpoints::v4([10, 79, sub, 3 + c as u8], 1025 + r.u16() % 60000, server, sport)
            };
            let (cb, sb) = (r.u32(), r.u32());
            let mut sc = Script::new(ep.clone(), Link::Ethernet, r.u32(), r.u32());
            let t0 = scenario::T0 + c * 20;
            let mut frames: Vec<(u64, Vec<u8>)> = Vec::new();
            let mut o = pkt::opt_mss(1460);
            o.extend(ts(cb, 0));
            sc.syn(o);
            let mut o = pkt::opt_mss(1460);
            o.extend(ts(sb, cb));
            sc.syn_ack(o);
            frames.push((t0, sc.frames[0].clone()));
            frames.push((t0 + 5, sc.frames[1].clone()));
            let tick = |base: u32, ms: u64| base.wrapping_add((hz * ms / 1000) as u32);
            // the shared endpoint is the server (or, in the other variant, the client)
            let from_client = share_client;
            if c == 0 {
                // connection 1 is closed by the shared endpoint at +400 ms
                let f = sc.seg(from_client, if from_client { sc.c_next } else { sc.s_next }, 1, closing, ts(tick(if from_client { cb } else { sb }, 400), 1), &[]);
                frames.push((t0 + 400, f));
            } else {
                for ms in [600u64, 1200] {
                    let f = sc.seg(from_client, if from_client { sc.c_next } else { sc.s_next }, 1, flags::ACK, ts(tick(if from_client { cb } else { sb }, ms), 1), &[]);
                    frames.push((t0 + ms, f));
                }
            }
            conns.push(Conn { kind: Kind::TcpHandshake, ep, frames });
        }
        let mut merged: Vec<(u64, usize, usize)> = Vec::new();
        for (ci, c) in conns.iter().enumerate() {
            for (fi, f) in c.frames.iter().enumerate() {
                merged.push((f.0, ci, fi));
            }
        }
        merged.sort();
        for which in [Which::Tcp, Which::Unified] {
            let (Ok(i0), Ok(i1)) = (isolated(which, false, &conns[0]), isolated(which, false, &conns[1])) else { continue };
            let iso = [i0, i1];
            let mut runner = Runner::new(which, 64, false);
            let mut got: Vec<Vec<Vec<String>>> = vec![Vec::new(), Vec::new()];
            let mut panic = None;
            for (t, ci, fi) in &merged {
                match runner.feed(*t, &conns[*ci].frames[*fi].1) {
                    Ok(l) => got[*ci].push(l),
                    Err(p) => panic = Some(p),
                }
            }
            if let Some(p) = panic {
                ctx.judge(false, &[], "panic while analysing interleaved connections", || json!({"panic": p, "scenario": s, "stage": "shared socket"}));
                continue;
            }
            let uptimes = iso[1].iter().flatten().filter(|l| l.starts_with("uptime")).count();
            for ci in 0..2 {
                ctx.judge(got[ci] == iso[ci], &[], "a connection's results differ between isolated and interleaved analysis", || {
                    json!({"scenario": s, "stage": "two timestamped connections on one socket, one of them closed", "analyzer": format!("{which:?}"), "connection": ci, "endpoints": conns[ci].ep.key(),
                           "shared_endpoint": if share_client { "client" } else { "server" }, "closing_flags": closing, "clock_hz": hz, "isolated": iso[ci], "interleaved": got[ci]})
                });
            }
            ctx.bucket(&format!("neighbour/shared-{}-socket/{which:?}/closing{closing:#x}/uptime-lines{}", if share_client { "client" } else { "server" }, uptimes.min(3)));
        }
    }
}

pub fn run(ctx: &mut Ctx) {
    crate::pool::install_hooks();
    let n = ctx.scale(24_000, 800_000, 2);
    for s in 0..n {
        if !ctx.mine(s) {
            continue;
        }
        let mut r = ctx.rng_global(7, s);
        // the interpreted run (Miri) costs ~0.3 s per packet: two small scenarios, two mixes
        // one scenario in 16 is a crowd: 18..25 connections of one client address (a NAT gateway,
        // a busy proxy), most of them TLS with hellos in several segments, so that many
        // half-finished flows of one source exist at the same time -- still far below the capacity
        let crowd = !ctx.miri() && (s / 16) % 16 == s % 16;
        let nconn = if ctx.miri() { 2 + r.usize(2) } else if crowd { 18 + r.usize(8) } else { 2 + r.usize(7) };
        let base_id = s * 16;
        // half of the scenarios put all connections between a small set of hosts (same client
        // address with different ports, same server address/port), the other half use unrelated hosts
        let shared_hosts = s % 2 == 1;
        let mut conns: Vec<Conn> = Vec::with_capacity(nconn);
        for i in 0..nconn {
            let kind = if crowd && r.chance(3, 4) { Kind::Tls } else { *r.pick(&KINDS) };
            let base = scenario::T0 + r.below(2000);
            let ep = if crowd {
                let c = [10, 78, (s % 250) as u8, 7];
                let sv = [172, 21, (s % 250) as u8, 1 + r.below(3) as u8];
                Some(crate::pkt::Endpoints::v4(c, 3000 + (i as u16) * 41 + (r.below(30) as u16), sv, 443))
            } else if shared_hosts && i % 2 == 1 && r.chance(1, 2) {
                // the mirror image of the previous connection: the same two hosts and the same two
                // port numbers, associated the other way round (X:p -> Y:q and Y:p -> X:q)
                let p = &conns[i - 1].ep;
                Some(crate::pkt::Endpoints { client: p.server, server: p.client, cport: p.cport, sport: p.sport })
            } else if shared_hosts {
                let c = [10, 77, (s % 250) as u8, 1 + r.below(2) as u8];
                let sv = [172, 20, (s % 250) as u8, 1 + r.below(2) as u8];
                Some(crate::pkt::Endpoints::v4(c, 2000 + (i as u16) * 37 + (r.below(30) as u16), sv, *r.pick(&[80u16, 443])))
            } else {
                None
            };
            conns.push(scenario::gen_conn_ep(&mut r, base_id + i as u64, kind, base, ep));
        }
        let with_db = s % 2 == 0 && !ctx.miri(); // loading the bundled database costs ~50 s under Miri
        let started = std::time::Instant::now();
        for which in WHICH {
            // run A
            let mut iso = Vec::new();
            let mut failed = false;
            for c in &conns {
                match isolated(which, with_db, c) {
                    Ok(v) => iso.push(v),
                    Err(p) => {
                        ctx.judge(false, &[], "panic while analysing a connection alone", || json!({"panic": p, "scenario": s, "analyzer": format!("{which:?}"), "kind": format!("{:?}", c.kind)}));
                        failed = true;
                        break;
                    }
                }
            }
            if failed {
                continue;
            }
            // (a crowd is interleaved round-robin and riffled: all its connections are open at once)
            let mixes: &[Mix] = if crowd { &[Mix::RoundRobin, Mix::Riffle] } else { &MIXES };
            for mix in mixes.iter().take(if ctx.miri() { 2 } else if ctx.quick() { 3 + (s % 3) as usize } else { 5 }) {
                let trace = scenario::interleave(&mut r, &conns, *mix);
                // half of the scenarios run the interleaving on an analyzer whose configured
                // connection capacity is exactly the number of connections ("within the configured
                // connection capacity" includes the capacity itself)
                let cap = if s % 4 >= 2 { nconn } else { 64 };
                let mut runner = Runner::with_tracker(which, cap, 64, with_db);
                let mut got: Vec<Vec<Vec<String>>> = vec![Vec::new(); conns.len()];
                let mut panic = None;
                for tf in &trace {
                    match runner.feed(tf.at_ms, &tf.frame) {
                        Ok(lines) => got[tf.conn].push(lines),
                        Err(p) => {
                            panic = Some(p);
                            break;
                        }
                    }
                }
                if let Some(p) = panic {
                    ctx.judge(false, &[], "panic while analysing interleaved connections", || json!({"panic": p, "scenario": s, "analyzer": format!("{which:?}")}));
                    continue;
                }
                if started.elapsed().as_secs() >= 5 {
                    ctx.inconclusive("scenario exceeded 5 s of wall time (TTL caches could have expired)");
                    continue;
                }
                for (ci, c) in conns.iter().enumerate() {
                    let same = got[ci] == iso[ci];
                    let reported: usize = iso[ci].iter().map(|l| l.len()).sum();
                    ctx.judge(same, &[], "a connection's results differ between isolated and interleaved analysis", || {
                        let k = iso[ci].iter().zip(got[ci].iter()).position(|(a, b)| a != b).unwrap_or(0);
                        json!({
                            "scenario": s, "analyzer": format!("{which:?}"), "mix": format!("{mix:?}"), "with_db": with_db, "capacity": cap,
                            "connection": ci, "kind": format!("{:?}", c.kind), "endpoints": c.ep.key(),
                            "kinds_in_scenario": conns.iter().map(|c| format!("{:?}", c.kind)).collect::<Vec<_>>(),
                            "first_differing_frame": k,
                            "isolated": iso[ci].get(k), "interleaved": got[ci].get(k),
                            "frame_hex": c.frames.get(k).map(|f| hex(&f.1)),
                            "trace_order": trace.iter().map(|t| t.conn).collect::<Vec<_>>(),
                        })
                    });
                    ctx.bucket(&format!("{which:?}/{mix:?}/{:?}/{}{}", c.kind, if reported > 0 { "reports" } else { "silent" }, if cap == nconn { "/capacity=connections" } else { "" }));
                    if reported > 0 {
                        // which other kinds were present: the interesting neighbourhoods
                        let mut others: Vec<String> = conns.iter().enumerate().filter(|(j, _)| *j != ci).map(|(_, o)| format!("{:?}", o.kind)).collect();
                        others.sort();
                        others.dedup();
                        ctx.bucket(&format!("{which:?}/{:?}/with/{}", c.kind, others.join("+")));
                    }
                }
                if ctx.want_sample() && which == Which::Http {
                    ctx.sample(json!({"scenario": s, "kinds": conns.iter().map(|c| format!("{:?}", c.kind)).collect::<Vec<_>>(), "mix": format!("{mix:?}"), "frames": trace.len(),
                        "example_result": iso.iter().flatten().flatten().next()}));
                }
            }
        }
        if s % 2 == 0 || !ctx.quick() {
            reuse_stage(ctx, s, &mut r);
        }
        if !ctx.miri() && (s / 16) % 16 == 5 {
            neighbour_stage(ctx, s, &mut r);
        }
        // worker pools: a quarter of the scenarios (quick) / half of them (thorough), spread evenly over the shards;
        // not under the interpreter, and not once the shard has stored its violations (a pool that
        // loses frames costs 2 s of idle detection per run)
        if !ctx.miri() && (s / 16) % if ctx.quick() { 4 } else { 2 } == 0 && ctx.rep.violation_count <= 12 {
            pool_stage(ctx, s, &mut r, &conns, with_db);
        }
    }
    huginn_net_tcp::verif_hooks::clock::clear();
}

/// thorough tier only: the flow tables are `ttl_cache` / `linked-hash-map` (unsafe code inside)
fn sanitizers(ctx: &mut Ctx) {
    if ctx.thorough() {
        crate::rt::miri_stage(ctx, "", 3000);
    }
}

pub fn spec() -> PropSpec {
    PropSpec {
        id: "C07",
        run,
        shards: super::shards_16,
        rule: "seeded scenarios of 2..8 scripted connections (TCP handshakes with timestamps, multi-segment TLS ClientHellos, HTTP/1.x and HTTP/2 exchanges incl. hostile HPACK blocks with dynamic-table inserts/references/size updates, garbage and truncated connections), each analysed alone and in 3..5 order-preserving interleavings (sequential, round-robin, riffle, hostile-first, bursts) on the TCP, HTTP, TLS and unified analyzers with the virtual clock giving every frame the same arrival time in both runs; per-frame canonical results of each connection are compared; a bucket is a distinct (analyzer, interleaving, connection kind, reports/silent) or (analyzer, kind, set of neighbouring kinds)",
        assumptions: &[
            "neighbour stage (one scenario block in 16): a bulk connection beyond the give-up limits followed by another client's exchange with the same server socket (HTTP, unified); two timestamped connections on one socket, one closed by FIN/RST between two segments of the other (TCP, unified)",
            "connection capacity is 64, or (half of the scenarios) exactly the number of connections of the scenario; the caller-supplied uptime tracker of the TCP analyzer's per-packet entry always holds 64 entries; scenarios are far shorter than the 20/30/60 s TTLs, slower ones are discarded as inconclusive",
            "parsing_time_ns and HashMap iteration order are excluded from the canonical form",
            "connections of one scenario have pairwise distinct 4-tuples",
        ],
        parent_stage: Some(sanitizers),
    }
}
