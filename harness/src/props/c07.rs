//! C07 — connections are analysed in isolation: results do not depend on other traffic.
//!
//! Differential oracle: every connection of a scenario is analysed alone on a fresh analyzer
//! (run A) and inside an order-preserving interleaving with the other connections on one analyzer
//! (run B); the per-frame canonical results of each connection must be identical.

use crate::rt::{hex, Ctx, PropSpec};
use crate::scenario::{self, Conn, Kind, Mix, Runner, Which};
use serde_json::json;

const KINDS: [Kind; 10] = [
    Kind::TcpHandshake,
    Kind::Tls,
    Kind::Tls,
    Kind::Http1,
    Kind::Http1,
    Kind::Http2,
    Kind::Http2Hostile,
    Kind::Http2Hostile,
    Kind::Garbage,
    Kind::Truncated,
];
const MIXES: [Mix; 5] = [Mix::Sequential, Mix::RoundRobin, Mix::Riffle, Mix::HostileFirst, Mix::Bursts];
const WHICH: [Which; 4] = [Which::Tcp, Which::Http, Which::Tls, Which::Unified];

pub fn isolated(which: Which, with_db: bool, c: &Conn) -> Result<Vec<Vec<String>>, String> {
    let mut r = Runner::new(which, 64, with_db);
    let mut out = Vec::with_capacity(c.frames.len());
    for (t, f) in &c.frames {
        out.push(r.feed(*t, f)?);
    }
    Ok(out)
}

pub fn run(ctx: &mut Ctx) {
    let n = ctx.scale(24_000, 800_000, 2);
    for s in 0..n {
        if !ctx.mine(s) {
            continue;
        }
        let mut r = ctx.rng_global(7, s);
        // the interpreted run (Miri) costs ~0.3 s per packet: two small scenarios, two mixes
        let nconn = if ctx.miri() { 2 + r.usize(2) } else { 2 + r.usize(7) };
        let base_id = s * 16;
        // half of the scenarios put all connections between a small set of hosts (same client
        // address with different ports, same server address/port), the other half use unrelated hosts
        let shared_hosts = s % 2 == 1;
        let conns: Vec<Conn> = (0..nconn)
            .map(|i| {
                let kind = *r.pick(&KINDS);
                let base = scenario::T0 + r.below(2000);
                let ep = if shared_hosts {
                    let c = [10, 77, (s % 250) as u8, 1 + r.below(2) as u8];
                    let sv = [172, 20, (s % 250) as u8, 1 + r.below(2) as u8];
                    Some(crate::pkt::Endpoints::v4(c, 2000 + (i as u16) * 37 + (r.below(30) as u16), sv, *r.pick(&[80u16, 443])))
                } else {
                    None
                };
                scenario::gen_conn_ep(&mut r, base_id + i as u64, kind, base, ep)
            })
            .collect();
        let with_db = s % 2 == 0 && !ctx.miri(); // loading the bundled database costs ~50 s under Miri
        let started = std::time::Instant::now();
        for which in WHICH {
            // run A
            let mut iso = Vec::new();
            let mut failed = false;
            for c in &conns {
                match isolated(which, with_db, c) {
                    Ok(v) => iso.push(v),
                    Err(p) => {
                        ctx.judge(false, &[], "panic while analysing a connection alone", || json!({"panic": p, "scenario": s, "analyzer": format!("{which:?}"), "kind": format!("{:?}", c.kind)}));
                        failed = true;
                        break;
                    }
                }
            }
            if failed {
                continue;
            }
            for mix in MIXES.iter().take(if ctx.miri() { 2 } else if ctx.quick() { 3 + (s % 3) as usize } else { 5 }) {
                let trace = scenario::interleave(&mut r, &conns, *mix);
                // half of the scenarios run the interleaving on an analyzer whose configured
                // connection capacity is exactly the number of connections ("within the configured
                // connection capacity" includes the capacity itself)
                let cap = if s % 4 >= 2 { nconn } else { 64 };
                let mut runner = Runner::with_tracker(which, cap, 64, with_db);
                let mut got: Vec<Vec<Vec<String>>> = vec![Vec::new(); conns.len()];
                let mut panic = None;
                for tf in &trace {
                    match runner.feed(tf.at_ms, &tf.frame) {
                        Ok(lines) => got[tf.conn].push(lines),
                        Err(p) => {
                            panic = Some(p);
                            break;
                        }
                    }
                }
                if let Some(p) = panic {
                    ctx.judge(false, &[], "panic while analysing interleaved connections", || json!({"panic": p, "scenario": s, "analyzer": format!("{which:?}")}));
                    continue;
                }
                if started.elapsed().as_secs() >= 5 {
                    ctx.inconclusive("scenario exceeded 5 s of wall time (TTL caches could have expired)");
                    continue;
                }
                for (ci, c) in conns.iter().enumerate() {
                    let same = got[ci] == iso[ci];
                    let reported: usize = iso[ci].iter().map(|l| l.len()).sum();
                    ctx.judge(same, &[], "a connection's results differ between isolated and interleaved analysis", || {
                        let k = iso[ci].iter().zip(got[ci].iter()).position(|(a, b)| a != b).unwrap_or(0);
                        json!({
                            "scenario": s, "analyzer": format!("{which:?}"), "mix": format!("{mix:?}"), "with_db": with_db, "capacity": cap,
                            "connection": ci, "kind": format!("{:?}", c.kind), "endpoints": c.ep.key(),
                            "kinds_in_scenario": conns.iter().map(|c| format!("{:?}", c.kind)).collect::<Vec<_>>(),
                            "first_differing_frame": k,
                            "isolated": iso[ci].get(k), "interleaved": got[ci].get(k),
                            "frame_hex": c.frames.get(k).map(|f| hex(&f.1)),
                            "trace_order": trace.iter().map(|t| t.conn).collect::<Vec<_>>(),
                        })
                    });
                    ctx.bucket(&format!("{which:?}/{mix:?}/{:?}/{}{}", c.kind, if reported > 0 { "reports" } else { "silent" }, if cap == nconn { "/capacity=connections" } else { "" }));
                    if reported > 0 {
                        // which other kinds were present: the interesting neighbourhoods
                        let mut others: Vec<String> = conns.iter().enumerate().filter(|(j, _)| *j != ci).map(|(_, o)| format!("{:?}", o.kind)).collect();
                        others.sort();
                        others.dedup();
                        ctx.bucket(&format!("{which:?}/{:?}/with/{}", c.kind, others.join("+")));
                    }
                }
                if ctx.want_sample() && which == Which::Http {
                    ctx.sample(json!({"scenario": s, "kinds": conns.iter().map(|c| format!("{:?}", c.kind)).collect::<Vec<_>>(), "mix": format!("{mix:?}"), "frames": trace.len(),
                        "example_result": iso.iter().flatten().flatten().next()}));
                }
            }
        }
    }
    huginn_net_tcp::verif_hooks::clock::clear();
}

/// thorough tier only: the flow tables are `ttl_cache` / `linked-hash-map` (unsafe code inside)
fn sanitizers(ctx: &mut Ctx) {
    if ctx.thorough() {
        crate::rt::miri_stage(ctx, "", 3000);
    }
}

pub fn spec() -> PropSpec {
    PropSpec {
        id: "C07",
        run,
        shards: super::shards_16,
        rule: "seeded scenarios of 2..8 scripted connections (TCP handshakes with timestamps, multi-segment TLS ClientHellos, HTTP/1.x and HTTP/2 exchanges incl. hostile HPACK blocks with dynamic-table inserts/references/size updates, garbage and truncated connections), each analysed alone and in 3..5 order-preserving interleavings (sequential, round-robin, riffle, hostile-first, bursts) on the TCP, HTTP, TLS and unified analyzers with the virtual clock giving every frame the same arrival time in both runs; per-frame canonical results of each connection are compared; a bucket is a distinct (analyzer, interleaving, connection kind, reports/silent) or (analyzer, kind, set of neighbouring kinds)",
        assumptions: &[
            "connection capacity is 64, or (half of the scenarios) exactly the number of connections of the scenario; the caller-supplied uptime tracker of the TCP analyzer's per-packet entry always holds 64 entries; scenarios are far shorter than the 20/30/60 s TTLs, slower ones are discarded as inconclusive",
            "parsing_time_ns and HashMap iteration order are excluded from the canonical form",
            "connections of one scenario have pairwise distinct 4-tuples",
        ],
        parent_stage: Some(sanitizers),
    }
}
