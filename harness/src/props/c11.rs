//! C11 — memory per connection and work per packet stay bounded for any traffic.
//!
//! Monitor: the counting allocator.  One connection is driven with N equal-size segments; after
//! every packet the monitor reads bytes allocated while handling it (work proxy) and bytes still
//! retained.  Rules: retained(i) - retained(0) <= L for one connection; alloc(i) <= C0 + 8*len(i)
//! (a constant plus a term proportional to the packet, nothing that grows with the index);
//! with more connections than capacity, retained <= capacity * L.

use crate::alloc;
use crate::pkt::{self, flags, Endpoints, Link, Script};
use crate::pool::{self, Filters, Handle, PoolCfg, PoolKind, Site};
use crate::rt::{Ctx, PropSpec, Rng};
use crate::scenario::{self, Runner, Which};
use serde_json::json;
use std::time::Duration;

/// per-connection retention limit (two directions of 256 KiB plus bookkeeping)
pub const L: i64 = 1024 * 1024;
/// constant part of the per-packet work bound
pub const C0: u64 = 4 * 1024 * 1024;

#[derive(Clone, Copy, Debug, PartialEq, Eq)]
pub enum Traffic {
    HttpHeadNeverCompletes,
    HttpPostEndlessBody,
    HttpResponseNeverCompletes,
    TlsAppDataAfterServerHello,
    TlsAppDataAfterClientHello,
    TlsHugeDeclaredRecord,
    RandomBothDirections,
    OneByteSegments,
    TimestampedAcks,
    /// the client sends a complete *response* head (and the server a request head), then data
    HttpOppositeRoleHeadThenData,
    /// several complete TLS records in every segment after the ServerHello
    TlsSeveralRecordsPerSegment,
    /// HTTP/2 preface and SETTINGS, then endless DATA frames without any HEADERS
    Http2DataWithoutHeaders,
    /// a complete request, then endless further complete requests on the same connection
    HttpPipelinedRequests,
    /// an unfinished request head, then the same few sequence numbers over and over
    /// (retransmission storm / keep-alive probes): every copy is a segment the flow receives
    HttpRetransmissionStorm,
    /// an HTTP/2 HEADERS block that raises the HPACK table size, inserts ~19 KiB of literal
    /// fields and then fails to decode; endless DATA frames follow, each one re-parsing the stream
    Http2FailingBlockThenData,
    /// an unfinished head, one stray byte far ahead in sequence space (32 MiB; every 500th
    /// segment another one even farther, also just below the first payload byte), then small
    /// in-order segments: work per packet must follow the bytes held, not the sequence distance
    HttpStraySegmentFarAhead,
    /// the first fragment of a ClientHello record, then a hole (one segment is never seen), then
    /// endless in-order segments behind the hole; every 2000th segment opens another hole
    TlsHelloFragmentHoleThenData,
    /// ClientHello and ServerHello, then segments that start in the middle of a record (the
    /// capture lost the record boundary): the first one happens to begin with 0x16 followed by
    /// bytes that are no TLS version, the rest is arbitrary; every 1500th segment begins that way
    /// again.  Both directions.
    TlsMidRecordSegments,
}

pub const ALL: [Traffic; 18] = [
    Traffic::HttpHeadNeverCompletes,
    Traffic::HttpPostEndlessBody,
    Traffic::HttpResponseNeverCompletes,
    Traffic::TlsAppDataAfterServerHello,
    Traffic::TlsAppDataAfterClientHello,
    Traffic::TlsHugeDeclaredRecord,
    Traffic::RandomBothDirections,
    Traffic::OneByteSegments,
    Traffic::TimestampedAcks,
    Traffic::HttpOppositeRoleHeadThenData,
    Traffic::TlsSeveralRecordsPerSegment,
    Traffic::Http2DataWithoutHeaders,
    Traffic::HttpPipelinedRequests,
    Traffic::HttpRetransmissionStorm,
    Traffic::Http2FailingBlockThenData,
    Traffic::HttpStraySegmentFarAhead,
    Traffic::TlsHelloFragmentHoleThenData,
    Traffic::TlsMidRecordSegments,
];

/// Lazily produces the frames of one long connection.
pub struct LongConn {
    s: Script,
    kind: Traffic,
    i: u64,
    r: Rng,
    seg: usize,
    pre: Vec<Vec<u8>>,
}

impl LongConn {
    pub fn new(kind: Traffic, id: u64, seed: u64, seg: usize) -> LongConn {
        let mut r = Rng::from_parts(&[seed, id, kind as u64]);
        let ep = Endpoints::v4([10, 7, (id >> 8) as u8, id as u8], 20000 + (id % 30000) as u16, [192, 0, 2, 1 + (id % 200) as u8], if matches!(kind, Traffic::TlsAppDataAfterServerHello | Traffic::TlsAppDataAfterClientHello | Traffic::TlsHugeDeclaredRecord | Traffic::TlsSeveralRecordsPerSegment | Traffic::TlsHelloFragmentHoleThenData | Traffic::TlsMidRecordSegments) { 443 } else { 80 });
        let mut s = Script::new(ep, Link::Ethernet, r.u32(), r.u32());
        s.handshake();
        match kind {
            Traffic::HttpHeadNeverCompletes => {
                s.c_data(b"GET /never HTTP/1.1\r\nHost: example.org\r\nX-Filler: ");
            }
            Traffic::HttpPostEndlessBody => {
                s.c_data(b"POST /upload HTTP/1.1\r\nHost: example.org\r\nUser-Agent: curl/8.4.0\r\nContent-Length: 99999999999\r\n\r\n");
            }
            Traffic::HttpResponseNeverCompletes => {
                s.c_data(b"GET / HTTP/1.1\r\nHost: example.org\r\nUser-Agent: curl/8.4.0\r\n\r\n");
                s.s_data(b"HTTP/1.1 200 OK\r\nServer: nginx\r\nX-Filler: ");
            }
            Traffic::TlsAppDataAfterServerHello => {
                let h = scenario::client_hello(&mut r, id, 0);
                s.c_data(&h);
                s.s_data(&scenario::server_hello_like());
            }
            Traffic::TlsAppDataAfterClientHello => {
                let h = scenario::client_hello(&mut r, id, 0);
                s.c_data(&h);
                // client key exchange-like handshake record (type 16), then application data
                s.c_data(&[0x16, 0x03, 0x03, 0x00, 0x06, 0x10, 0x00, 0x00, 0x02, 0xaa, 0xbb]);
            }
            Traffic::TlsHugeDeclaredRecord => {
                s.c_data(&[0x16, 0x03, 0x01, 0xff, 0xff, 0x01, 0x00, 0xff, 0xfb, 0x03, 0x03]);
            }
            Traffic::TlsHelloFragmentHoleThenData => {
                // a 16 KiB hello of which only the first 600 octets are seen
                let h = scenario::client_hello(&mut r, id, 16000);
                s.c_data(&h[..600]);
                s.c_next = s.c_next.wrapping_add(1400);
            }
            Traffic::HttpOppositeRoleHeadThenData => {
                s.c_data(b"HTTP/1.1 200 OK\r\nServer: nginx\r\nContent-Type: text/html\r\n\r\n");
                s.s_data(b"GET /index.html HTTP/1.1\r\nHost: example.org\r\nUser-Agent: curl/8.4.0\r\n\r\n");
            }
            Traffic::TlsSeveralRecordsPerSegment | Traffic::TlsMidRecordSegments => {
                let h = scenario::client_hello(&mut r, id, 0);
                s.c_data(&h);
                s.s_data(&scenario::server_hello_like());
            }
            Traffic::Http2DataWithoutHeaders => {
                let mut p = b"PRI * HTTP/2.0\r\n\r\nSM\r\n\r\n".to_vec();
                p.extend_from_slice(&[0, 0, 6, 4, 0, 0, 0, 0, 0, 0, 3, 0, 0, 0, 100]);
                s.c_data(&p);
            }
            Traffic::HttpPipelinedRequests => {
                s.c_data(b"GET /first HTTP/1.1\r\nHost: example.org\r\nUser-Agent: curl/8.4.0\r\n\r\n");
            }
            Traffic::HttpRetransmissionStorm | Traffic::HttpStraySegmentFarAhead => {
                s.c_data(b"GET /storm HTTP/1.1\r\nHost: example.org\r\nX-Filler: ");
            }
            Traffic::Http2FailingBlockThenData => {
                let mut p = b"PRI * HTTP/2.0\r\n\r\nSM\r\n\r\n".to_vec();
                p.extend_from_slice(&[0, 0, 0, 4, 0, 0, 0, 0, 0]);
                // header block: table size update to 1 MiB, 140 literal fields with incremental
                // indexing (new name, 100-byte value), then an indexed field with index 0 (invalid)
                let mut block: Vec<u8> = vec![0x3f, 0xe1, 0xff, 0x3f];
                for k in 0..140u32 {
                    block.push(0x40);
                    let name = format!("x-f{k:03}");
                    block.push(name.len() as u8);
                    block.extend_from_slice(name.as_bytes());
                    block.push(100);
                    block.extend((0..100).map(|_| b'a' + (r.u8() % 26)));
                }
                block.push(0x80);
                let l = block.len();
                p.extend_from_slice(&[(l >> 16) as u8, (l >> 8) as u8, l as u8, 1, 0x04, 0, 0, 0, 1]);
                p.extend_from_slice(&block);
                s.c_data(&p);
            }
            _ => {}
        }
        let pre = std::mem::take(&mut s.frames);
        LongConn { s, kind, i: 0, r, seg, pre }
    }
    pub fn prelude(&mut self) -> Vec<Vec<u8>> {
        std::mem::take(&mut self.pre)
    }
    pub fn next_frame(&mut self) -> Vec<u8> {
        self.i += 1;
        let n = self.seg;
        let filler = |r: &mut Rng, n: usize| -> Vec<u8> { (0..n).map(|_| b'a' + (r.u8() % 26)).collect() };
        match self.kind {
            Traffic::HttpHeadNeverCompletes | Traffic::HttpPostEndlessBody => {
                let b = filler(&mut self.r, n);
                self.s.c_data(&b);
            }
            Traffic::HttpResponseNeverCompletes => {
                let b = filler(&mut self.r, n);
                self.s.s_data(&b);
            }
            Traffic::TlsAppDataAfterServerHello => {
                let b = scenario::app_data(&mut self.r, n.max(6) - 5);
                self.s.s_data(&b);
            }
            Traffic::TlsAppDataAfterClientHello => {
                let b = scenario::app_data(&mut self.r, n.max(6) - 5);
                self.s.c_data(&b);
            }
            Traffic::TlsHugeDeclaredRecord => {
                let b = self.r.bytes(n);
                self.s.c_data(&b);
            }
            Traffic::TlsHelloFragmentHoleThenData => {
                if self.i % 2000 == 0 {
                    self.s.c_next = self.s.c_next.wrapping_add(1 + self.r.below(3000) as u32);
                }
                let b = self.r.bytes(n);
                self.s.c_data(&b);
            }
            Traffic::TlsMidRecordSegments => {
                let mut b = self.r.bytes(n.max(8));
                if self.i <= 2 || self.i % 1500 == 0 {
                    b[0] = 0x16;
                    b[1] = *self.r.pick(&[0x7fu8, 0x00, 0x16, 0x30, 0x02]);
                    b[2] = self.r.u8() | 0x10;
                } else if b[0] == 0x16 {
                    b[0] = 0x99;
                }
                if self.i % 2 == 0 {
                    self.s.c_data(&b);
                } else {
                    self.s.s_data(&b);
                }
            }
            Traffic::RandomBothDirections => {
                let b = self.r.bytes(n);
                if self.i % 2 == 0 {
                    self.s.c_data(&b);
                } else {
                    self.s.s_data(&b);
                }
            }
            Traffic::OneByteSegments => {
                let b = [b'a' + (self.i % 26) as u8];
                if self.i % 3 == 0 {
                    self.s.s_data(&b);
                } else {
                    self.s.c_data(&b);
                }
            }
            Traffic::HttpOppositeRoleHeadThenData => {
                let b = filler(&mut self.r, n);
                if self.i % 2 == 0 {
                    self.s.c_data(&b);
                } else {
                    self.s.s_data(&b);
                }
            }
            Traffic::TlsSeveralRecordsPerSegment => {
                // three complete records (application data, alert-like, change-cipher-spec) per segment
                let k = (n.max(40) - 15) / 3;
                let mut b = Vec::new();
                for ct in [0x17u8, 0x17, 0x14] {
                    b.extend_from_slice(&[ct, 0x03, 0x03, (k >> 8) as u8, k as u8]);
                    b.extend(self.r.bytes(k));
                }
                if self.i % 4 == 0 {
                    self.s.c_data(&b);
                } else {
                    self.s.s_data(&b);
                }
            }
            Traffic::Http2DataWithoutHeaders => {
                let k = n.max(20) - 9;
                let mut b = vec![(k >> 16) as u8, (k >> 8) as u8, k as u8, 0, 0, 0, 0, 0, 1];
                b.extend(self.r.bytes(k));
                self.s.c_data(&b);
            }
            Traffic::HttpPipelinedRequests => {
                let mut b = format!("GET /r{} HTTP/1.1\r\nHost: example.org\r\nX-Pad: ", self.i).into_bytes();
                b.extend(filler(&mut self.r, n.saturating_sub(60)));
                b.extend_from_slice(b"\r\n\r\n");
                self.s.c_data(&b);
            }
            Traffic::HttpRetransmissionStorm => {
                // three sequence numbers already seen, sent again and again
                let b = filler(&mut self.r, n);
                let seq = self.s.c_next.wrapping_add(((self.i % 3) as u32) * n as u32);
                let f = self.s.seg(true, seq, self.s.s_next, flags::ACK | flags::PSH, vec![], &b);
                self.s.frames.push(f);
            }
            Traffic::HttpStraySegmentFarAhead => {
                if self.i % 500 == 1 {
                    let far = match (self.i / 500) % 3 {
                        0 => self.s.c_next.wrapping_add(32 << 20),
                        1 => self.s.c_next.wrapping_add(0x7000_0000),
                        // before the first payload byte of the stream (keep-alive style probe)
                        _ => self.s.c_next.wrapping_sub(0x0100_0000),
                    };
                    let f = self.s.seg(true, far, self.s.s_next, flags::ACK, vec![], b"x");
                    self.s.frames.push(f);
                } else {
                    let b = filler(&mut self.r, n.min(200));
                    self.s.c_data(&b);
                }
            }
            Traffic::Http2FailingBlockThenData => {
                let k = n.max(20) - 9;
                let mut b = vec![(k >> 16) as u8, (k >> 8) as u8, k as u8, 0, 0, 0, 0, 0, 1];
                b.extend(self.r.bytes(k));
                self.s.c_data(&b);
            }
            Traffic::TimestampedAcks => {
                let mut o = pkt::opt_nop();
                o.extend(pkt::opt_nop());
                o.extend(pkt::opt_ts(1000 + self.i as u32, 1));
                let f = self.s.seg(self.i % 2 == 0, self.s.c_next, self.s.s_next, flags::ACK, o, &[]);
                self.s.frames.push(f);
            }
        }
        self.s.frames.pop().unwrap_or_default()
    }
}

struct Verdict {
    max_live: i64,
    max_alloc_excess: u64,
    at_live: u64,
    at_alloc: u64,
    live_samples: Vec<(u64, i64)>,
}

/// drive one connection through a sequential analyzer, reading the counters after every packet
fn drive_sequential(which: Which, kind: Traffic, id: u64, seed: u64, n: u64, seg: usize) -> Result<Verdict, String> {
    let mut runner = Runner::new(which, 64, false);
    let mut conn = LongConn::new(kind, id, seed, seg);
    for f in conn.prelude() {
        runner.feed(scenario::T0, &f)?;
    }
    let base = alloc::thread_snap();
    let mut v = Verdict { max_live: 0, max_alloc_excess: 0, at_live: 0, at_alloc: 0, live_samples: Vec::new() };
    let mut bad_windows = 0u32;
    for i in 0..n {
        let frame = conn.next_frame();
        let len = frame.len() as u64;
        let before = alloc::thread_snap();
        let lines = runner.feed(scenario::T0 + i, &frame)?;
        let after = alloc::thread_snap();
        drop(lines);
        drop(frame);
        let quiescent = alloc::thread_snap();
        let allocated = after.alloc - before.alloc;
        let live = quiescent.live() - base.live();
        if live > v.max_live {
            v.max_live = live;
            v.at_live = i;
        }
        let bound = C0 + 8 * len;
        if allocated > bound && allocated - bound > v.max_alloc_excess {
            v.max_alloc_excess = allocated - bound;
            v.at_alloc = i;
        }
        if i % (n / 16).max(1) == 0 {
            v.live_samples.push((i, live));
        }
        // once a verdict is decided there is no point in paying for quadratic behaviour
        if live > L || allocated > bound {
            bad_windows += 1;
            if bad_windows > 1024 {
                break;
            }
        }
    }
    Ok(v)
}

/// the same through a one-worker pool; retained memory from process-wide counters at quiescence,
/// per-packet allocation from the worker thread's counter at the dequeue / processed hook points
fn drive_worker(kind_pool: PoolKind, kind: Traffic, id: u64, seed: u64, n: u64, seg: usize) -> Result<Verdict, String> {
    let cfg = PoolCfg { workers: 1, queue: 600, batch: 32, timeout_ms: 1, max_conn: 64, with_db: false };
    pool::reset_log(0, 0);
    let h = Handle::new(kind_pool, &cfg, Filters::none())?;
    let mut conn = LongConn::new(kind, id, seed, seg);
    let mut sent = 0u64;
    for f in conn.prelude() {
        if h.dispatch(f) {
            sent += 1;
        }
    }
    if !pool::wait_processed(sent, Duration::from_secs(30)) {
        return Err("inconclusive: pool did not drain".into());
    }
    let _ = h.drain_results();
    alloc::track_global(true);
    let base = alloc::global_snap();
    let mut v = Verdict { max_live: 0, max_alloc_excess: 0, at_live: 0, at_alloc: 0, live_samples: Vec::new() };
    let mut i = 0u64;
    while i < n {
        let chunk = 512.min(n - i);
        let mut lens = std::collections::HashMap::new();
        for _ in 0..chunk {
            let f = conn.next_frame();
            lens.insert(pool::fnv(&f), f.len() as u64);
            if h.dispatch(f) {
                sent += 1;
            }
        }
        i += chunk;
        if !pool::wait_processed(sent, Duration::from_secs(30)) {
            alloc::track_global(false);
            return Err("inconclusive: pool did not drain".into());
        }
        let _ = h.drain_results();
        let events = pool::take_events();
        let mut deq: std::collections::HashMap<u64, u64> = std::collections::HashMap::new();
        for e in &events {
            match e.site {
                Site::WorkerDequeue => {
                    deq.insert(e.frame, e.thread_alloc);
                }
                Site::WorkerProcessed => {
                    if let (Some(a0), Some(len)) = (deq.get(&e.frame), lens.get(&e.frame)) {
                        let allocated = e.thread_alloc - a0;
                        let bound = C0 + 8 * len;
                        if allocated > bound && allocated - bound > v.max_alloc_excess {
                            v.max_alloc_excess = allocated - bound;
                            v.at_alloc = i;
                        }
                    }
                }
                _ => {}
            }
        }
        drop(events);
        drop(lens);
        let live = alloc::global_snap().live() - base.live();
        if live > v.max_live {
            v.max_live = live;
            v.at_live = i;
        }
        v.live_samples.push((i, live));
        if v.max_live > 8 * L {
            break;
        }
    }
    alloc::track_global(false);
    h.shutdown();
    Ok(v)
}

fn judge(ctx: &mut Ctx, path: &str, kind: Traffic, n: u64, seg: usize, v: &Verdict, limit: i64) {
    // "neither grows with the number of bytes or segments the connection has already carried":
    // every buffer limit is reached long before half of the run, so what is retained at the end
    // must not exceed what was retained at half time by more than 64 KiB (a leak of a few dozen
    // bytes per segment stays far below the absolute limit within the quick tier's length)
    let half = v.live_samples.iter().filter(|(i, _)| *i >= n / 2).map(|(_, l)| *l).next();
    let last = v.live_samples.last().map(|(_, l)| *l);
    let second_half_growth = match (half, last) {
        (Some(h), Some(l)) if v.live_samples.len() >= 8 => l - h,
        _ => 0,
    };
    ctx.judge(second_half_growth <= 64 * 1024, &[], "retained memory keeps growing in the second half of a long connection", || {
        json!({"path": path, "traffic": format!("{kind:?}"), "segments": n, "segment_payload_bytes": seg, "growth_in_second_half_bytes": second_half_growth, "retained_samples": v.live_samples})
    });
    ctx.class_n(&format!("second_half_growth_kib/{path}/{kind:?}"), (second_half_growth.max(0) as u64) / 1024);
    let ok = v.max_live <= limit && v.max_alloc_excess == 0;
    ctx.judge(ok, &[], "retained memory or per-packet work grows with the amount of traffic a connection has carried", || {
        json!({
            "path": path, "traffic": format!("{kind:?}"), "segments": n, "segment_payload_bytes": seg,
            "max_retained_bytes": v.max_live, "retention_limit": limit, "at_segment": v.at_live,
            "max_per_packet_allocation_above_bound": v.max_alloc_excess, "bound": format!("{C0} + 8*len"), "at_segment_alloc": v.at_alloc,
            "retained_samples": v.live_samples,
        })
    });
    ctx.bucket(&format!("{path}/{kind:?}/seg{seg}"));
    ctx.class_n(&format!("max_retained_kib/{path}/{kind:?}"), (v.max_live.max(0) as u64) / 1024);
    if ctx.want_sample() {
        ctx.sample(json!({"path": path, "traffic": format!("{kind:?}"), "segments": n, "max_retained_bytes": v.max_live, "retained_samples": v.live_samples}));
    }
}

pub fn run(ctx: &mut Ctx) {
    pool::install_hooks();
    huginn_net_tcp::verif_hooks::clock::set_ms(scenario::T0);
    let n = ctx.scale(20_000, 1_000_000, 40);
    let mut idx = 0u64;
    for which in [Which::Http, Which::Tls, Which::Tcp, Which::Unified] {
        for kind in ALL {
            for seg in [1400usize, 64] {
                idx += 1;
                if !ctx.mine(idx) {
                    continue;
                }
                if seg == 64 && ctx.quick() && idx % 2 == 0 {
                    continue;
                }
                let nn = if kind == Traffic::OneByteSegments { n.min(200_000) } else { n };
                match drive_sequential(which, kind, idx, ctx.seed, nn, seg) {
                    Ok(v) => judge(ctx, &format!("sequential-{which:?}"), kind, nn, seg, &v, L),
                    Err(p) => {
                        ctx.judge(false, &[], "panic while driving a long connection", || json!({"panic": p, "traffic": format!("{kind:?}")}));
                    }
                }
            }
        }
    }
    // inside a worker
    for pk in [PoolKind::Http, PoolKind::Tls, PoolKind::Tcp] {
        for kind in ALL {
            idx += 1;
            if !ctx.mine(idx) || ctx.miri() {
                continue;
            }
            let nn = n.min(100_000);
            match drive_worker(pk, kind, idx, ctx.seed, nn, 1400) {
                // process-wide counters also see the harness' own small allocations: allow 2L
                Ok(v) => judge(ctx, &format!("worker-{pk:?}"), kind, nn, 1400, &v, 2 * L),
                Err(e) if e.starts_with("inconclusive") => ctx.inconclusive("worker pool did not drain within the watchdog"),
                Err(p) => {
                    ctx.judge(false, &[], "panic while driving a long connection through a worker", || json!({"panic": p}));
                }
            }
        }
    }
    // more connections than capacity: retained <= capacity * L
    // `light`: many connections that each leave one small unfinished piece behind (a fragment of
    // a ClientHello, the beginning of a head) -- the table, not the buffers, is what could grow
    for (which, cap, light) in [
        (Which::Http, 1usize, false),
        (Which::Http, 16, false),
        (Which::Tls, 16, false),
        (Which::Unified, 16, false),
        (Which::Http, 1000, false),
        (Which::Tls, 16, true),
        (Which::Http, 16, true),
        (Which::Unified, 16, true),
        (Which::Tls, 4, true),
    ] {
        idx += 1;
        if !ctx.mine(idx) {
            continue;
        }
        // `complete` connections (the light Http/Unified rows, every other connection): a whole
        // request/response exchange whose header values (Accept-Language, User-Agent, Cookie,
        // Host, path, Server) occur nowhere else -- a finished connection leaves nothing behind,
        // whatever it said
        let complete_mix = light && which != Which::Tls;
        let conns = if light { cap as u64 * ctx.scale(40, 400, 3) } else if cap == 1000 { 1200u64 } else { (cap as u64 * 4).max(8) };
        let per = if light { 1 } else { ctx.scale(60, 300, 4) };
        let mut runner = Runner::new(which, cap, false);
        let base = alloc::thread_snap();
        let mut max_live = 0i64;
        let mut live_at_cap = 0i64;
        let mut max_after_cap = 0i64;
        let mut failed = None;
        'outer: for c in 0..conns {
            let kind = if which == Which::Tls || (light && which == Which::Unified && c % 2 == 0) { Traffic::TlsHugeDeclaredRecord } else { Traffic::HttpHeadNeverCompletes };
            if complete_mix && c % 2 == 1 {
                let ep = Endpoints::v4([10, 9, (c >> 8) as u8, c as u8], 30000 + (c % 30000) as u16, [192, 0, 2, 77], 80);
                let mut s = Script::new(ep, Link::Ethernet, c as u32 * 7919, c as u32 * 104729);
                s.handshake();
                let tag = format!("{:08x}{:08x}", c.wrapping_mul(0x9E37_79B9), ctx.seed);
                let langs: String = (0..40).map(|k| format!("x{k}-{tag};q=0.{}", 1 + k % 9)).collect::<Vec<_>>().join(", ");
                let req = format!("GET /u/{tag} HTTP/1.1\r\nHost: h{tag}.example\r\nUser-Agent: agent-{tag}/1.0 ({tag}{tag}{tag})\r\nAccept: */*\r\nAccept-Language: {langs}\r\nCookie: sid={tag}; t={tag}{tag}\r\nReferer: http://ref{tag}.example/{tag}\r\n\r\n");
                s.c_data(req.as_bytes());
                let res = format!("HTTP/1.1 200 OK\r\nServer: srv-{tag}/2.{c}\r\nContent-Type: text/{tag}\r\nContent-Length: 0\r\n\r\n");
                s.s_data(res.as_bytes());
                for f in std::mem::take(&mut s.frames) {
                    if let Err(p) = runner.feed(scenario::T0, &f) {
                        failed = Some(p);
                        break 'outer;
                    }
                }
                let live = alloc::thread_snap().live() - base.live();
                max_live = max_live.max(live);
                if c + 1 > cap as u64 {
                    max_after_cap = max_after_cap.max(live);
                }
                continue;
            }
            let mut conn = LongConn::new(kind, 100_000 + c, ctx.seed, if light { 64 } else { 1400 });
            for f in conn.prelude() {
                if let Err(p) = runner.feed(scenario::T0, &f) {
                    failed = Some(p);
                    break 'outer;
                }
            }
            for _ in 0..per {
                let f = conn.next_frame();
                if let Err(p) = runner.feed(scenario::T0, &f) {
                    failed = Some(p);
                    break 'outer;
                }
            }
            let live = alloc::thread_snap().live() - base.live();
            max_live = max_live.max(live);
            if c + 1 == cap as u64 {
                live_at_cap = live;
            } else if c + 1 > cap as u64 {
                max_after_cap = max_after_cap.max(live);
            }
        }
        if let Some(p) = failed {
            ctx.judge(false, &[], "panic while driving many connections", || json!({"panic": p}));
            continue;
        }
        // plateau: once `capacity` connections are held, further connections replace earlier
        // ones; what is retained must not keep growing with the number of connections seen
        let plateau_limit = 2 * live_at_cap + 64 * 1024;
        ctx.judge(max_after_cap <= plateau_limit, &[], "retained memory keeps growing with the number of connections beyond the configured capacity", || {
            json!({"analyzer": format!("{which:?}"), "capacity": cap, "connections": conns, "segments_per_connection": per,
                   "retained_after_capacity_connections": live_at_cap, "max_retained_later": max_after_cap, "limit(2x+64KiB)": plateau_limit})
        });
        let limit = cap as i64 * L;
        ctx.judge(max_live <= limit, &[], "retained memory exceeds capacity x per-connection limit", || {
            json!({"analyzer": format!("{which:?}"), "capacity": cap, "connections": conns, "segments_per_connection": per, "max_retained_bytes": max_live, "limit": limit})
        });
        ctx.bucket(&format!("capacity/{which:?}/cap{cap}{}", if light { "/light" } else { "" }));
        ctx.class_n(&format!("max_retained_kib/capacity-{which:?}-{cap}"), (max_live.max(0) as u64) / 1024);
    }
    // a producer that is faster than the workers, at the smallest queue sizes (0, 1, 2): what the
    // pool holds on to is bounded by its queues and tables, not by the traffic offered to it
    for (pk, queue) in [(PoolKind::Http, 0usize), (PoolKind::Tls, 0), (PoolKind::Tcp, 0), (PoolKind::Http, 1), (PoolKind::Tls, 2)] {
        idx += 1;
        if !ctx.mine(idx) || ctx.miri() {
            continue;
        }
        let cfg = PoolCfg { workers: 1, queue, batch: 32, timeout_ms: 1, max_conn: 16, with_db: false };
        pool::reset_log(0, 0);
        let Ok(h) = Handle::new(pk, &cfg, Filters::none()) else { continue };
        let kind = match pk {
            PoolKind::Http => Traffic::HttpHeadNeverCompletes,
            PoolKind::Tls => Traffic::TlsHugeDeclaredRecord,
            PoolKind::Tcp => Traffic::TimestampedAcks,
        };
        let mut conn = LongConn::new(kind, 300_000 + idx, ctx.seed, 1400);
        for f in conn.prelude() {
            let _ = h.dispatch(f);
        }
        std::thread::sleep(Duration::from_millis(20));
        let _ = h.drain_results();
        let _ = pool::take_events();
        alloc::track_global(true);
        let base = alloc::global_snap();
        let mut max_live = 0i64;
        let mut accepted = 0u64;
        let offered = ctx.scale(20_000, 200_000, 100);
        for i in 0..offered {
            if h.dispatch(conn.next_frame()) {
                accepted += 1;
            }
            if i % 64 == 0 {
                max_live = max_live.max(alloc::global_snap().live() - base.live());
                let _ = h.drain_results();
                let _ = pool::take_events();
            }
        }
        max_live = max_live.max(alloc::global_snap().live() - base.live());
        alloc::track_global(false);
        let _ = h.wait_drain(pool::log().processed.load(std::sync::atomic::Ordering::SeqCst), Duration::from_secs(5));
        h.shutdown();
        let limit = 2 * L;
        ctx.judge(max_live <= limit, &[], "a pool with a tiny queue retains memory in proportion to the traffic offered to it", || {
            json!({"pool": format!("{pk:?}"), "queue_size": queue, "frames_offered": offered, "frames_accepted": accepted, "max_retained_bytes": max_live, "limit": limit})
        });
        ctx.bucket(&format!("flood/worker-{pk:?}/queue{queue}"));
        ctx.class_n(&format!("max_retained_kib/flood-{pk:?}-queue{queue}"), (max_live.max(0) as u64) / 1024);
    }
    // the same inside a worker: the capacity handed to the pool (directly, or through the
    // analyzer's with_config + init_pool) bounds what one worker retains, whatever the queue
    // length is -- queues here are far longer than the capacity
    for (pk, cap, queue, via_analyzer) in [
        (PoolKind::Http, 4usize, 512usize, false),
        (PoolKind::Http, 8, 300, true),
        (PoolKind::Tls, 4, 512, true),
        (PoolKind::Tls, 8, 300, false),
    ] {
        idx += 1;
        if !ctx.mine(idx) || ctx.miri() {
            continue;
        }
        let cfg = PoolCfg { workers: 1, queue, batch: 32, timeout_ms: 1, max_conn: cap, with_db: false };
        pool::reset_log(0, 0);
        let h = match if via_analyzer { Handle::new_via_analyzer(pk, &cfg, Filters::none()) } else { Handle::new(pk, &cfg, Filters::none()) } {
            Ok(h) => h,
            Err(e) => {
                ctx.judge(false, &[], "worker pool could not be created", || json!({"error": e}));
                continue;
            }
        };
        let conns = cap as u64 * 8;
        let per = ctx.scale(60, 300, 4);
        let mut sent = 0u64;
        let mut stalled = false;
        // nothing allocated before tracking starts may be freed while it runs
        let _ = pool::take_events();
        alloc::track_global(true);
        let base = alloc::global_snap();
        let (mut live_at_cap, mut max_after_cap, mut max_live) = (0i64, 0i64, 0i64);
        for c in 0..conns {
            let kind = if pk == PoolKind::Tls { Traffic::TlsHugeDeclaredRecord } else { Traffic::HttpHeadNeverCompletes };
            let mut conn = LongConn::new(kind, 200_000 + c, ctx.seed, 1400);
            let mut frames = conn.prelude();
            for _ in 0..per {
                frames.push(conn.next_frame());
            }
            for chunk in frames.chunks(queue.min(256)) {
                for f in chunk {
                    if h.dispatch(f.clone()) {
                        sent += 1;
                    }
                }
                if !pool::wait_processed(sent, Duration::from_secs(30)) {
                    stalled = true;
                    break;
                }
            }
            if stalled {
                break;
            }
            drop(frames);
            let _ = h.drain_results();
            let _ = pool::take_events();
            let live = alloc::global_snap().live() - base.live();
            max_live = max_live.max(live);
            if c + 1 == cap as u64 {
                live_at_cap = live;
            } else if c + 1 > cap as u64 {
                max_after_cap = max_after_cap.max(live);
            }
        }
        alloc::track_global(false);
        h.shutdown();
        if stalled {
            ctx.inconclusive("worker pool did not drain within the watchdog");
            continue;
        }
        // process-wide counters also see the harness' own bookkeeping: 256 KiB of slack
        let plateau_limit = 2 * live_at_cap + 256 * 1024;
        ctx.judge(max_after_cap <= plateau_limit, &[], "a worker's retained memory keeps growing with the number of connections beyond the configured capacity", || {
            json!({"pool": format!("{pk:?}"), "built_by_analyzer": via_analyzer, "capacity": cap, "queue_size": queue, "connections": conns, "segments_per_connection": per,
                   "retained_after_capacity_connections": live_at_cap, "max_retained_later": max_after_cap, "limit(2x+256KiB)": plateau_limit})
        });
        let limit = 2 * cap as i64 * L;
        ctx.judge(max_live <= limit, &[], "a worker's retained memory exceeds capacity x per-connection limit", || {
            json!({"pool": format!("{pk:?}"), "capacity": cap, "queue_size": queue, "connections": conns, "max_retained_bytes": max_live, "limit": limit})
        });
        ctx.bucket(&format!("capacity/worker-{pk:?}/cap{cap}/queue{queue}/{}", if via_analyzer { "analyzer-built" } else { "direct" }));
        ctx.class_n(&format!("max_retained_kib/capacity-worker-{pk:?}-{cap}"), (max_live.max(0) as u64) / 1024);
    }
    huginn_net_tcp::verif_hooks::clock::clear();
}

pub fn spec() -> PropSpec {
    PropSpec {
        id: "C11",
        run,
        shards: super::shards_16,
        rule: "one connection of each traffic kind (HTTP head that never completes, POST with endless body, response that never completes, TLS application data after ServerHello / after ClientHello, ClientHello with a 65535-byte record never completed, random bytes in both directions, 1-byte segments, timestamped ACKs) is driven with N segments (quick 2e4, thorough 1e6) of 1400 and 64 payload bytes through the HTTP, TLS, TCP and unified analyzers and through one-worker pools while a counting allocator reads, after every packet, the bytes allocated for it and the bytes still retained; rules: retained <= 1 MiB per connection, allocation per packet <= 4 MiB + 8 x packet length, and with more connections than capacity retained <= capacity x 1 MiB and, after the first `capacity` connections, never more than twice what those retained plus 64 KiB (plateau; also with many connections that each leave only a 64-byte unfinished piece; also inside one-worker HTTP and TLS pools whose queues are far longer than their connection capacity); a bucket is a distinct (path, traffic kind, segment size) or capacity configuration",
        assumptions: &[
            "18 traffic kinds since round 7 (mid-record TLS segments beginning 0x16 + non-version octets, both directions)",
            "bytes allocated while handling a packet are the work proxy (re-assembly and re-parsing copy what they process)",
            "limits are generous constants (1 MiB retained per connection, 4 MiB constant work term); growth proportional to history crosses them within the driven length",
            "worker-path retention is read from process-wide counters at quiescent points and therefore includes the harness' own small bookkeeping (limit doubled)",
            "C11 judges resources only; TTL expiry during long runs can only lower the figures",
        ],
        parent_stage: None,
    }
}
