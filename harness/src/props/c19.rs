//! C19 — uptime estimates are sound for steady clocks and withheld otherwise.
//!
//! Episodes of timestamped segments with *virtual* arrival times (hook H1) are fed to a fresh
//! HuginnNetTcp tracker; after every segment the reported client/server uptime (or its absence) is
//! compared with `RefUptime`, an exact-rational state machine written from the documented rule.

use crate::pkt::{self, flags, Endpoints, Ip, Link, Tcp, V4, V6};
use crate::rt::{guard, hex, Ctx, PropSpec, Rng};
use huginn_net_tcp::HuginnNetTcp;
use serde_json::json;
use std::collections::HashMap;
use ttl_cache::TtlCache;

#[derive(Clone, Debug)]
pub struct Seg {
    pub at_ms: u64,
    pub from_client: bool,
    pub flags: u8,
    pub tsval: u32,
}

#[derive(Clone, Debug, PartialEq)]
pub struct Est {
    pub client_role: bool,
    pub freq: u32,
    pub days: u32,
    pub hours: u32,
    pub min: u32,
    pub wrap_a: u32,
    pub wrap_b: u32,
}

#[derive(Clone, Debug)]
enum St {
    Ref(u32, u64),
    Bad,
}

pub struct RefUptime {
    st: HashMap<(bool, bool), St>, // (direction is client->server, classified as client)
}

pub fn classify_client(fl: u8, sport: u16, dport: u16) -> bool {
    let syn = fl & flags::SYN != 0;
    let ack = fl & flags::ACK != 0;
    if syn && !ack {
        true
    } else if syn && ack {
        false
    } else {
        sport > 1024 && dport <= 1024
    }
}

pub fn grid(floor_raw: u32) -> u32 {
    match floor_raw {
        0 => 1,
        1..=10 => floor_raw,
        11..=50 => (floor_raw + 3) / 5 * 5,
        51..=100 => (floor_raw + 7) / 10 * 10,
        101..=500 => (floor_raw + 33) / 50 * 50,
        _ => (floor_raw + 67) / 100 * 100,
    }
}

/// frequency on the documented grid from exact ticks / ms, or None when outside the bounds
pub fn ref_freq(ticks: u64, ms: u64) -> Option<u32> {
    // raw = ticks*1000/ms must lie in [1, 1500]
    let num = ticks as u128 * 1000;
    let ms = ms as u128;
    if num < ms || num > 1500 * ms {
        return None;
    }
    if num >= 900 * ms && num <= 1100 * ms {
        return Some(1000);
    }
    if num >= 90 * ms && num <= 110 * ms {
        return Some(100);
    }
    Some(grid((num / ms) as u32))
}

pub fn ref_est(tsval: u32, freq: u32, client_role: bool) -> Est {
    let f = freq as u64;
    let ts = tsval as u64;
    Est {
        client_role,
        freq,
        days: (ts / (f * 86400)) as u32,
        hours: ((ts / (f * 3600)) % 24) as u32,
        min: ((ts / (f * 60)) % 60) as u32,
        wrap_a: ((u32::MAX as u64) / (f * 86400)) as u32,
        wrap_b: ((1u64 << 32) / (f * 86400)) as u32,
    }
}

impl RefUptime {
    pub fn new() -> RefUptime {
        RefUptime { st: HashMap::new() }
    }
    /// returns (expected estimate, judged) — `judged == false` for the sub-domain where the
    /// statement is ambiguous (documented in `assumptions`)
    pub fn step(&mut self, s: &Seg, sport: u16, dport: u16) -> (Option<Est>, bool) {
        let is_client = classify_client(s.flags, sport, dport);
        let key = (s.from_client, is_client);
        match self.st.get(&key).cloned() {
            None => {
                self.st.insert(key, St::Ref(s.tsval, s.at_ms));
                (None, true)
            }
            Some(St::Bad) => (None, true),
            Some(St::Ref(ts0, t0)) => {
                let ms = s.at_ms.saturating_sub(t0);
                let diff = s.tsval.wrapping_sub(ts0);
                let mut fail = ms < 25 || ms > 600_000;
                let mut ticks = diff as u64;
                if !fail {
                    if diff > !diff {
                        // backward movement: documented inversion + 100 ms grace rule
                        let inv = !diff;
                        if inv < 5 || (ms < 100 && inv > 15_000) {
                            fail = true;
                        }
                        ticks = inv as u64;
                    } else if diff < 5 {
                        fail = true;
                    }
                }
                let freq = if fail { None } else { ref_freq(ticks, ms) };
                match freq {
                    None => {
                        self.st.insert(key, St::Bad);
                        (None, true)
                    }
                    Some(f) => (Some(ref_est(s.tsval, f, is_client)), true),
                }
            }
        }
    }
}

pub struct Episode {
    pub ep: Endpoints,
    pub segs: Vec<Seg>,
    pub tag: &'static str,
}

fn frame_of(ep: &Endpoints, s: &Seg, link: Link) -> Vec<u8> {
    let ip = ep.ip_hdr(s.from_client, 64);
    let (sp, dp) = if s.from_client { (ep.cport, ep.sport) } else { (ep.sport, ep.cport) };
    let mut o = pkt::opt_nop();
    o.extend(pkt::opt_nop());
    o.extend(pkt::opt_ts(s.tsval, 1));
    let tcp = Tcp {
        sport: sp,
        dport: dp,
        flags: s.flags,
        seq: 100,
        ack: if s.flags & flags::ACK != 0 { 200 } else { 0 },
        options: o,
        window: 1000,
        payload: if s.flags & flags::SYN == 0 { b"d".to_vec() } else { vec![] },
        ..Default::default()
    };
    let _ = (&ip as &Ip, V4::default().ttl, V6::default().hop);
    pkt::build(link, &ip, &tcp)
}

pub fn run_episode(ctx: &mut Ctx, tcp: &HuginnNetTcp, e: &Episode, link: Link) {
    let mut tracker = TtlCache::new(64);
    let mut model = RefUptime::new();
    let started = std::time::Instant::now();
    let mut history = Vec::new();
    for (i, s) in e.segs.iter().enumerate() {
        let (sp, dp) = if s.from_client { (e.ep.cport, e.ep.sport) } else { (e.ep.sport, e.ep.cport) };
        let (want, judged) = model.step(s, sp, dp);
        let frame = frame_of(&e.ep, s, link);
        huginn_net_tcp::verif_hooks::clock::set_ms(s.at_ms);
        let res = guard(|| tcp.verif_process_packet(&frame, &mut tracker));
        let got = match res {
            Err(p) => {
                ctx.judge(false, &[], "panic while analysing a timestamped segment", || json!({"panic": p, "frame_hex": hex(&frame)}));
                return;
            }
            Ok(r) => r.ok(),
        };
        let (cu, su) = match &got {
            Some(t) => (t.client_uptime.as_ref(), t.server_uptime.as_ref()),
            None => (None, None),
        };
        let got_desc = format!(
            "client={:?} server={:?}",
            cu.map(|u| (u.freq, u.days, u.hours, u.min, u.up_mod_days)),
            su.map(|u| (u.freq, u.days, u.hours, u.min, u.up_mod_days))
        );
        history.push(json!({"i": i, "at_ms": s.at_ms, "from_client": s.from_client, "flags": s.flags, "tsval": s.tsval, "reported": got_desc.clone()}));
        if !judged {
            continue;
        }
        if started.elapsed().as_secs() >= 5 {
            ctx.inconclusive("episode exceeded 5 s of wall time (TTL cache could have expired)");
            return;
        }
        let ok = match (&want, cu, su) {
            (None, None, None) => true,
            (Some(w), Some(u), None) if w.client_role => est_eq(w, u),
            (Some(w), None, Some(u)) if !w.client_role => est_eq(w, u),
            _ => false,
        };
        let hist = history.clone();
        ctx.judge(ok, &[], "reported uptime estimate differs from the documented rule", || {
            json!({"episode": e.tag, "endpoints": e.ep.key(), "segment_index": i, "expected": format!("{want:?}"), "actual": got_desc, "history": hist})
        });
        // bucket: outcome class
        let b = match &want {
            None => format!("{}/none/i{}", e.tag, i.min(3)),
            Some(w) => format!("{}/{}/f{}/{}", e.tag, if w.client_role { "cli" } else { "srv" }, w.freq, if w.days > 0 { "days" } else { "0d" }),
        };
        ctx.bucket(&b);
    }
    if ctx.want_sample() {
        ctx.sample(json!({"episode": e.tag, "endpoints": e.ep.key(), "history": history}));
    }
}

/// Several connections alive at once, as many as the analyzer was sized for: their segments are
/// interleaved on one analyzer, and each connection must still be judged by the documented rule
/// from its own references (no entry may push out another connection's or direction's entry).
/// `unified` picks the entry point: the unified analyzer (own tracker sized from
/// max_connections) or the TCP analyzer's per-packet entry point with a tracker of
/// tracker_capacity(max_connections).
fn run_crowd(ctx: &mut Ctx, eps_: &[Episode], unified: bool) {
    let k = eps_.len();
    let cfg = huginn_net::AnalysisConfig { tcp_enabled: true, http_enabled: false, tls_enabled: false, matcher_enabled: false };
    let mut uni = if unified {
        match huginn_net::HuginnNet::new(None, k, Some(cfg)) {
            Ok(u) => Some(u),
            Err(e) => {
                ctx.judge(false, &[], "unified analyzer refused a valid configuration", || json!({"error": e.to_string()}));
                return;
            }
        }
    } else {
        None
    };
    let tcp = HuginnNetTcp::new(None, k).expect("analyzer");
    let mut tracker = TtlCache::new(huginn_net_tcp::uptime::tracker_capacity(k));
    let mut order: Vec<(u64, usize, usize)> = Vec::new();
    for (c, e) in eps_.iter().enumerate() {
        for (i, s) in e.segs.iter().enumerate() {
            order.push((s.at_ms, c, i));
        }
    }
    order.sort();
    let mut models: Vec<RefUptime> = (0..k).map(|_| RefUptime::new()).collect();
    let started = std::time::Instant::now();
    let mut history = Vec::new();
    for (at, c, i) in order {
        let e = &eps_[c];
        let s = &e.segs[i];
        let (sp, dp) = if s.from_client { (e.ep.cport, e.ep.sport) } else { (e.ep.sport, e.ep.cport) };
        let (want, _) = models[c].step(s, sp, dp);
        let frame = frame_of(&e.ep, s, Link::Ethernet);
        huginn_net_tcp::verif_hooks::clock::set_ms(at);
        let res = guard(|| match uni.as_mut() {
            Some(u) => {
                let r = u.analyze_tcp(&frame);
                (r.tcp_client_uptime, r.tcp_server_uptime)
            }
            None => match tcp.verif_process_packet(&frame, &mut tracker) {
                Ok(t) => (t.client_uptime, t.server_uptime),
                Err(_) => (None, None),
            },
        });
        let (cu, su) = match res {
            Ok(x) => x,
            Err(p) => {
                ctx.judge(false, &[], "panic while analysing a timestamped segment", || json!({"panic": p, "frame_hex": hex(&frame)}));
                return;
            }
        };
        if started.elapsed().as_secs() >= 5 {
            ctx.inconclusive("episode exceeded 5 s of wall time (TTL cache could have expired)");
            return;
        }
        let got_desc = format!(
            "client={:?} server={:?}",
            cu.as_ref().map(|u| (u.freq, u.days, u.hours, u.min, u.up_mod_days)),
            su.as_ref().map(|u| (u.freq, u.days, u.hours, u.min, u.up_mod_days))
        );
        history.push(json!({"connection": c, "at_ms": at, "from_client": s.from_client, "flags": s.flags, "tsval": s.tsval, "reported": got_desc.clone()}));
        let ok = match (&want, cu.as_ref(), su.as_ref()) {
            (None, None, None) => true,
            (Some(w), Some(u), None) if w.client_role => est_eq(w, u),
            (Some(w), None, Some(u)) if !w.client_role => est_eq(w, u),
            _ => false,
        };
        let hist = history.clone();
        ctx.judge(ok, &[], "reported uptime estimate differs from the documented rule (as many live connections as the analyzer was sized for)", || {
            json!({"entry_point": if unified { "HuginnNet::analyze_tcp" } else { "HuginnNetTcp per-packet + tracker_capacity(max_connections)" }, "max_connections": k, "connection": c, "endpoints": e.ep.key(),
                   "expected": format!("{want:?}"), "actual": got_desc, "history": hist})
        });
        ctx.bucket(&format!("crowd/{}/k{}/{}", if unified { "unified" } else { "tcp" }, k, match &want { None => "none".to_string(), Some(w) => format!("{}-f{}", if w.client_role { "cli" } else { "srv" }, w.freq) }));
    }
}

fn est_eq(w: &Est, u: &huginn_net_tcp::UptimeOutput) -> bool {
    u.freq == w.freq as f64
        && u.days == w.days
        && u.hours == w.hours
        && u.min == w.min
        && (u.up_mod_days == w.wrap_a || u.up_mod_days == w.wrap_b)
        && (u.role == huginn_net_tcp::UptimeRole::Client) == w.client_role
        && u.hours < 24
        && u.min < 60
}

fn eps(i: u64, v6: bool, cport: u16, sport: u16) -> Endpoints {
    if v6 {
        Endpoints {
            client: format!("2001:db8::{:x}", 1 + (i % 60000)).parse().unwrap(),
            server: "2001:db8:1::2".parse().unwrap(),
            cport,
            sport,
        }
    } else {
        Endpoints::v4([10, (i >> 16) as u8, (i >> 8) as u8, i as u8], cport, [192, 0, 2, 9], sport)
    }
}

const INTERVALS: [u64; 13] = [0, 24, 25, 26, 50, 99, 100, 101, 1000, 60_000, 599_999, 600_000, 600_001];
const BASES: [u32; 8] = [0, 1, 1_000_000, 0x7fff_fff0, 0x8000_0000, 0xffff_fff0, 0xffff_ffff, 86_400_000];
const T0: u64 = 1_700_000_000_000;

pub fn run(ctx: &mut Ctx) {
    let tcp = HuginnNetTcp::new(None, 64).expect("analyzer");
    let mut idx: u64 = 0;
    let fstep = ctx.scale(1, 1, 97);

    // ---- A: every integer frequency 1..1500 (and neighbours outside) x intervals x bases, forward
    let mut f: u64 = 0;
    while f <= 1600 {
        for (ii, iv) in INTERVALS.iter().enumerate() {
            for (bi, base) in BASES.iter().enumerate() {
                idx += 1;
                if !ctx.mine(idx) {
                    continue;
                }
                let _ = (ii, bi);
                // ticks realising about f Hz over the interval (at least 0)
                let ticks = ((f as u128 * *iv as u128 + 500) / 1000) as u64;
                if ticks >= (1u64 << 31) {
                    continue;
                }
                let variant = (idx % 6) as u8;
                // variant 0: client SYN then client ACK; 1: server SYN+ACK then server data;
                // 2: client data then client data; 3: low client port (heuristic says "server")
                // 4: server on a high port answering a client on a privileged port (handshake flags must
                //    win over the port heuristic); 5: the same with non-handshake segments only
                let (cport, sport) = match variant {
                    3 => (1000u16, 80u16),
                    4 | 5 => (600 + (idx % 400) as u16, 8080),
                    _ => (40000 + (idx % 20000) as u16, 443),
                };
                let ep = eps(idx, idx % 5 == 0, cport, sport);
                let (fc, fl0, fl1) = match variant {
                    0 => (true, flags::SYN, flags::ACK),
                    1 => (false, flags::SYN | flags::ACK, flags::ACK | flags::PSH),
                    2 => (true, flags::ACK, flags::ACK | flags::PSH),
                    4 => (false, flags::SYN | flags::ACK, flags::ACK),
                    5 => (false, flags::ACK, flags::ACK | flags::PSH),
                    _ => (true, flags::SYN, flags::ACK),
                };
                let segs = vec![
                    Seg { at_ms: T0, from_client: fc, flags: fl0, tsval: *base },
                    Seg { at_ms: T0 + iv, from_client: fc, flags: fl1, tsval: base.wrapping_add(ticks as u32) },
                    // a third segment at the same steady rate (same expectation from either reference)
                    Seg { at_ms: T0 + 2 * iv, from_client: fc, flags: fl1, tsval: base.wrapping_add((2 * ticks) as u32) },
                ];
                // the third segment is only judged when it cannot depend on which earlier segment
                // is used as reference: keep it only when 2*iv is still inside the window and the
                // doubled measurement gives the same grid value (exact multiples)
                let keep_third = ticks * 1000 == f * iv && 2 * iv <= 600_000 && *iv >= 25 && ticks >= 5;
                let mut segs = segs;
                if !keep_third {
                    segs.truncate(2);
                }
                let e = Episode { ep, segs, tag: "steady-forward" };
                run_episode(ctx, &tcp, &e, if idx % 2 == 0 { Link::Ethernet } else { Link::RawIp });
            }
        }
        f += fstep;
    }
    if !ctx.miri() {
        ctx.exhaustive("every integer frequency 0..1600 Hz x 13 intervals around the 25 ms/100 ms/600 s boundaries x 8 base timestamps (incl. wrapping), forward movement");
    }

    // ---- A2: differences around half the 32-bit range (the boundary between "forward" and
    // "backward" movement): 2^31-2 .. 2^31+2 ticks over every interval, every base
    for d in [0x7fff_fffeu32, 0x7fff_ffff, 0x8000_0000, 0x8000_0001, 0x8000_0002] {
        for iv in INTERVALS {
            for base in BASES {
                idx += 1;
                if !ctx.mine(idx) {
                    continue;
                }
                let fc = idx % 2 == 0;
                let (fl0, fl1) = if fc { (flags::SYN, flags::ACK) } else { (flags::SYN | flags::ACK, flags::ACK | flags::PSH) };
                let ep = eps(idx, idx % 5 == 0, 41000 + (idx % 20000) as u16, 443);
                let e = Episode {
                    ep,
                    segs: vec![
                        Seg { at_ms: T0, from_client: fc, flags: fl0, tsval: base },
                        Seg { at_ms: T0 + iv, from_client: fc, flags: fl1, tsval: base.wrapping_add(d) },
                        Seg { at_ms: T0 + iv + 1000, from_client: fc, flags: fl1, tsval: base.wrapping_add(d).wrapping_add(100) },
                    ],
                    tag: "half-range-difference",
                };
                run_episode(ctx, &tcp, &e, Link::Ethernet);
            }
        }
    }

    // ---- B: tick counts around the minimum (0..8) and rates around the 1 Hz / 1500 Hz / 10% boundaries
    for ticks in 0..=8u64 {
        for iv in [25u64, 30, 100, 1000, 5000, 8000, 9000] {
            idx += 1;
            if !ctx.mine(idx) {
                continue;
            }
            let ep = eps(idx, false, 41000, 80);
            let e = Episode {
                ep,
                segs: vec![
                    Seg { at_ms: T0, from_client: true, flags: flags::SYN, tsval: 5000 },
                    Seg { at_ms: T0 + iv, from_client: true, flags: flags::ACK, tsval: 5000 + ticks as u32 },
                    Seg { at_ms: T0 + iv + 1000, from_client: true, flags: flags::ACK, tsval: 5000 + ticks as u32 + 1000 },
                ],
                tag: "min-ticks",
            };
            // third segment judged only when the second failed (then: nothing, entry is bad) —
            // the model handles both; when the second succeeded the third uses the first reference
            // in the model, which is only unambiguous if both references give the same grid value:
            let second_ok = iv >= 25 && ticks >= 5 && ref_freq(ticks, iv).is_some();
            let mut e = e;
            if second_ok {
                e.segs.truncate(2);
            }
            run_episode(ctx, &tcp, &e, Link::Ethernet);
        }
    }
    for ms in [1000u64, 2000, 7000, 100_000] {
        for permille in [899u64, 900, 901, 1099, 1100, 1101, 89, 90, 91, 109, 110, 111, 1, 1499, 1500, 1501] {
            for delta in [-1i64, 0, 1] {
                idx += 1;
                if !ctx.mine(idx) {
                    continue;
                }
                let ticks = ((permille * ms) as i64 / 1000 + delta).max(0) as u64;
                let ep = eps(idx, idx % 2 == 0, 42000, 8080);
                // high ports on both sides: heuristic classifies non-handshake segments as server
                let e = Episode {
                    ep,
                    segs: vec![
                        Seg { at_ms: T0, from_client: false, flags: flags::SYN | flags::ACK, tsval: 77 },
                        Seg { at_ms: T0 + ms, from_client: false, flags: flags::ACK, tsval: 77u32.wrapping_add(ticks as u32) },
                    ],
                    tag: "grid-boundaries",
                };
                run_episode(ctx, &tcp, &e, Link::RawIp);
            }
        }
    }

    // ---- C: backward movement (documented inversion and grace rule)
    for back in [1u32, 4, 5, 6, 100, 14_999, 15_000, 15_001, 100_000, 0x7fff_ffff] {
        for iv in [24u64, 25, 50, 99, 100, 101, 1000, 600_000] {
            idx += 1;
            if !ctx.mine(idx) {
                continue;
            }
            let ep = eps(idx, false, 43000, 80);
            let e = Episode {
                ep,
                segs: vec![
                    Seg { at_ms: T0, from_client: true, flags: flags::SYN, tsval: 0x4000_0000 },
                    Seg { at_ms: T0 + iv, from_client: true, flags: flags::ACK, tsval: 0x4000_0000u32.wrapping_sub(back).wrapping_sub(1) },
                ],
                tag: "backward",
            };
            run_episode(ctx, &tcp, &e, Link::Ethernet);
        }
    }

    // ---- C2: the capture clock steps back: the second segment is stamped *before* its reference
    // (by 1 ms .. 11 min) while its TSval advanced steadily.  A negative interval is not an
    // interval between 25 ms and 10 minutes: nothing is reported and the endpoint is not
    // re-evaluated by a third, well-behaved segment
    for step_back in [1u64, 24, 25, 26, 99, 100, 1000, 5000, 60_000, 599_999, 600_000, 600_001, 660_000] {
        for hz in [1u64, 10, 100, 250, 1000, 1500] {
            for variant in 0..3u64 {
                idx += 1;
                if !ctx.mine(idx) {
                    continue;
                }
                let ep = eps(idx, variant == 2, 44000 + (idx % 1000) as u16, 443);
                let fc = variant != 1;
                let (fl0, fl1) = if fc { (flags::SYN, flags::ACK) } else { (flags::SYN | flags::ACK, flags::ACK | flags::PSH) };
                let t_ref = T0 + 700_000;
                let base = 0x1000_0000u32;
                let ticks = (hz * step_back / 1000).max(5) as u32;
                let e = Episode {
                    ep,
                    segs: vec![
                        Seg { at_ms: t_ref, from_client: fc, flags: fl0, tsval: base },
                        Seg { at_ms: t_ref - step_back, from_client: fc, flags: fl1, tsval: base.wrapping_add(ticks) },
                        Seg { at_ms: t_ref + 2000, from_client: fc, flags: fl1, tsval: base.wrapping_add((hz * 2) as u32 + 7) },
                    ],
                    tag: "arrival-clock-steps-back",
                };
                run_episode(ctx, &tcp, &e, Link::Ethernet);
            }
        }
    }

    // ---- D: interleaved client/server segments with independent clocks, failures on one side only
    let n = ctx.scale(1_500_000, 12_000_000, 20) / ctx.nshards as u64 + 1;
    let mut r: Rng = ctx.rng(19);
    for k in 0..n {
        let cport = if r.chance(1, 5) { 1 + r.u16() % 1024 } else { 1025 + r.u16() % 60000 };
        let ep = eps(1_000_000 + k + (ctx.shard as u64) * 10_000_000, r.chance(1, 4), cport, *r.pick(&[80u16, 443, 22, 1024, 1025, 8080, 50000]));
        let cf = *r.pick(&[1u64, 7, 10, 64, 100, 250, 300, 500, 1000, 1200, 1500, 2000, 5000]);
        let sf = *r.pick(&[1u64, 2, 24, 100, 128, 200, 250, 333, 1000, 1024, 1499, 3000]);
        let c_base = *r.pick(&BASES);
        let s_base = r.u32();
        let mut segs = vec![
            Seg { at_ms: T0, from_client: true, flags: flags::SYN, tsval: c_base },
            Seg { at_ms: T0 + r.below(30), from_client: false, flags: flags::SYN | flags::ACK, tsval: s_base },
        ];
        let mut t = segs[1].at_ms;
        let nseg = 1 + r.usize(4);
        for _ in 0..nseg {
            t += *r.pick(&[1u64, 10, 24, 25, 40, 100, 250, 1000, 30_000, 300_000, 600_001]);
            let fc = r.chance(1, 2);
            let (base, f, t_ref) = if fc { (c_base, cf, T0) } else { (s_base, sf, segs[1].at_ms) };
            let ticks = (f as u128 * (t - t_ref) as u128 / 1000) as u64;
            segs.push(Seg {
                at_ms: t,
                from_client: fc,
                flags: if r.chance(1, 5) { flags::ACK | flags::PSH } else { flags::ACK },
                tsval: base.wrapping_add(ticks as u32),
            });
        }
        // steady rates measured from the first reference: every later segment of a side yields the
        // same grid value from the first reference, so all segments are judged
        let e = Episode { ep, segs, tag: "interleaved" };
        run_episode(ctx, &tcp, &e, if k % 3 == 0 { Link::RawIp } else { Link::Ethernet });
    }
    // ---- E: as many connections alive at once as the analyzer was sized for, both entry points
    let n = ctx.scale(6_000, 120_000, 20) / ctx.nshards as u64 + 1;
    let mut r: Rng = ctx.rng(1919);
    for j in 0..n {
        let k = *r.pick(&[1usize, 1, 2, 3, 5, 8]);
        let mut crowd = Vec::new();
        for c in 0..k {
            let ep = eps(50_000_000 + (j * 8 + c as u64) + (ctx.shard as u64) * 1_000_000, r.chance(1, 4), 1025 + r.u16() % 60000, *r.pick(&[80u16, 443, 8080]));
            let cf = *r.pick(&[10u64, 100, 250, 1000]);
            let sf = *r.pick(&[100u64, 200, 1000, 1024]);
            let (c_base, s_base) = (r.u32(), r.u32());
            let t0 = T0 + r.below(20);
            let mut segs = vec![
                Seg { at_ms: t0, from_client: true, flags: flags::SYN, tsval: c_base },
                Seg { at_ms: t0 + 1 + r.below(20), from_client: false, flags: flags::SYN | flags::ACK, tsval: s_base },
            ];
            let mut t = T0 + 60;
            for _ in 0..2 + r.usize(4) {
                t += *r.pick(&[30u64, 100, 250, 1000, 20_000]);
                let fc = r.chance(1, 2);
                let (base, f, t_ref) = if fc { (c_base, cf, t0) } else { (s_base, sf, segs[1].at_ms) };
                let ticks = (f as u128 * (t - t_ref) as u128 / 1000) as u64;
                segs.push(Seg { at_ms: t, from_client: fc, flags: flags::ACK, tsval: base.wrapping_add(ticks as u32) });
            }
            crowd.push(Episode { ep, segs, tag: "crowd" });
        }
        run_crowd(ctx, &crowd, j % 2 == 0);
    }
    huginn_net_tcp::verif_hooks::clock::clear();
}

pub fn spec() -> PropSpec {
    PropSpec {
        id: "C19",
        run,
        shards: super::shards_8_16,
        rule: "episodes of timestamped segments with virtual arrival times are analysed by HuginnNetTcp on a fresh tracker and every per-segment report (or absence of one) is compared with an exact-rational state machine of the documented estimator: every integer rate 0..1600 Hz x intervals at the 25 ms/100 ms/600 s boundaries x base timestamps incl. 2^32 wrap, minimum-tick and grid-boundary cases, backward movement, and seeded interleaved client/server sequences with independent clocks; a bucket is a distinct (episode family, role, reported grid frequency or 'none' position, day class)",
        assumptions: &[
            "family E: k = 1..8 live connections on an analyzer built for max_connections = k (unified analyzer; TCP analyzer with tracker_capacity(k))",
            "the reference of an endpoint is the first timestamped segment seen for its (direction, role) key, as in p0f (a successful estimate does not replace it); in the sweep families a third segment is only included when measuring from the first or from the previous segment gives the same value, the interleaved family judges later segments against the first reference",
            "backward timestamp movement is judged by the crate's documented inversion and 100 ms grace rule (tests/backward_timestamps.rs), which the property statement does not spell out",
            "wrap period accepts both floor((2^32-1)/(f*86400)) and floor(2^32/(f*86400))",
            "every episode is far shorter than the 30 s tracker TTL; episodes that took > 5 s of wall time are discarded as inconclusive",
        ],
        parent_stage: None,
    }
}
