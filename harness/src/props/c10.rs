//! C10 — parallel mode is observationally equivalent to sequential mode.
//!
//! Differential with an event log: a trace of complete connections is analysed sequentially and
//! through a worker pool (queue >= trace length, so nothing may be dropped); after logical drain
//! (hook event count) the multiset of results and the per-connection (TCP pool: per-sender) order
//! must be identical.  Schedule diversity comes from worker counts, batch sizes, timeouts and
//! seeded perturbation at the hook points; the evidence counts distinct result-arrival orders.

use crate::pkt;
use crate::pool::{self, Filters, Handle, PoolCfg, PoolKind};
use crate::rt::{Ctx, PropSpec, Rng};
use crate::scenario::{self, Conn, Kind, Mix, Runner, TFrame, Which};
use serde_json::json;
use std::collections::BTreeMap;
use std::time::Duration;

pub fn which_of(k: PoolKind) -> Which {
    match k {
        PoolKind::Tcp => Which::Tcp,
        PoolKind::Http => Which::Http,
        PoolKind::Tls => Which::Tls,
    }
}

/// ordering key of a result: the sender for the TCP pool, the connection otherwise
pub fn order_key(kind: PoolKind, first_line: &str) -> String {
    match kind {
        PoolKind::Tcp => {
            let ep = crate::canon::endpoints_of(first_line).unwrap_or_default();
            let src = ep.split('>').next().unwrap_or("");
            src.rsplit_once(':').map(|x| x.0.to_string()).unwrap_or_default()
        }
        _ => crate::canon::conn_key_of(first_line).unwrap_or_default(),
    }
}

pub fn gen_trace(r: &mut Rng, nconn: usize, base_id: u64) -> (Vec<Conn>, Vec<TFrame>) {
    let kinds = [Kind::TcpHandshake, Kind::Tls, Kind::Tls, Kind::Http1, Kind::Http1, Kind::Http2, Kind::Garbage];
    // a third of the traces are "hub" traces: a few busy hosts (a NAT gateway, a proxy, a popular
    // server) take part in many connections, so that one sending host has results towards many
    // destinations -- the per-host order of the TCP pool is then a real constraint
    let hub = r.chance(1, 3);
    let sub = (base_id % 250) as u8;
    let conns: Vec<Conn> = (0..nconn)
        .map(|i| {
            let k = *r.pick(&kinds);
            let ep = if hub && r.chance(3, 4) {
                let c = [10, 200, sub, 1 + r.below(3) as u8];
                let sv = [172, 30, sub, 1 + r.below(4) as u8];
                Some(crate::pkt::Endpoints::v4(c, 2000 + (i as u16) * 13 + r.below(13) as u16, sv, *r.pick(&[80u16, 443, 8080])))
            } else {
                None
            };
            scenario::gen_conn_ep(r, base_id + i as u64, k, scenario::T0, ep)
        })
        .collect();
    let mix = *r.pick(&[Mix::Riffle, Mix::RoundRobin, Mix::Bursts]);
    let mut trace = scenario::interleave(r, &conns, mix);
    // other traffic of the same hosts in between: UDP and ICMP datagrams, TCP segments cut short
    // inside their header.  The sequential analyzers answer such a frame with an error and go on;
    // a pool has to go on as well (frames marked conn = usize::MAX may be refused at dispatch).
    if r.chance(2, 3) {
        let n = 1 + trace.len() / 12;
        for k in 0..n {
            let c = &conns[r.usize(conns.len())];
            let from_client = r.chance(1, 2);
            let mut ip = c.ep.ip_hdr(from_client, 64);
            let (sp, dp) = if from_client { (c.ep.cport, c.ep.sport) } else { (c.ep.sport, c.ep.cport) };
            let mut l4: Vec<u8> = Vec::new();
            l4.extend_from_slice(&sp.to_be_bytes());
            l4.extend_from_slice(&dp.to_be_bytes());
            let kind = r.below(3);
            match kind {
                0 => {
                    // UDP: length, checksum, payload
                    l4.extend_from_slice(&[0, 20, 0, 0]);
                    l4.extend_from_slice(&(base_id + k as u64).to_be_bytes());
                    l4.extend_from_slice(&[0x55; 4]);
                }
                1 => {
                    // ICMP echo (type/code live where the source port would be)
                    l4 = vec![8, 0, 0, 0];
                    l4.extend_from_slice(&(base_id + k as u64).to_be_bytes());
                }
                _ => {
                    // TCP header cut after 12 of its 20 octets
                    l4.extend_from_slice(&((base_id as u32).wrapping_add(k as u32)).to_be_bytes());
                    l4.extend_from_slice(&[0, 0, 0, 1]);
                }
            }
            match &mut ip {
                crate::pkt::Ip::V4(h) => h.proto = [17u8, 1, 6][kind as usize],
                crate::pkt::Ip::V6(h) => h.next = [17u8, 58, 6][kind as usize],
            }
            let is_v4 = ip.is_v4();
            let f = crate::pkt::frame(crate::pkt::Link::Ethernet, &ip.bytes(&l4), is_v4);
            let pos = r.usize(trace.len() + 1);
            trace.insert(pos, TFrame { at_ms: scenario::T0, conn: usize::MAX, frame: f });
        }
    }
    // all frames of a trace must be distinct (they are identified by content in the event log)
    let mut seen = std::collections::HashSet::new();
    let trace: Vec<TFrame> = trace.into_iter().filter(|t| seen.insert(pool::fnv(&t.frame))).collect();
    (conns, trace)
}

pub fn sequential(kind: PoolKind, trace: &[TFrame], with_db: bool, clock: impl Fn(&TFrame) -> u64) -> Result<Vec<Vec<String>>, String> {
    let mut runner = Runner::new(which_of(kind), 4096, with_db);
    let mut out = Vec::new();
    for t in trace {
        let lines = runner.feed(clock(t), &t.frame)?;
        if !lines.is_empty() {
            if kind == PoolKind::Tls {
                for l in lines {
                    out.push(vec![l]);
                }
            } else {
                out.push(lines);
            }
        }
    }
    Ok(out)
}

fn per_key(kind: PoolKind, results: &[Vec<String>]) -> BTreeMap<String, Vec<String>> {
    let mut m: BTreeMap<String, Vec<String>> = BTreeMap::new();
    for r in results {
        let k = order_key(kind, &r[0]);
        m.entry(k).or_default().push(r.join(" || "));
    }
    m
}

pub struct ParOutcome {
    pub results: Vec<Vec<String>>,
    pub all_queued: bool,
    pub drained: bool,
}

pub fn parallel(kind: PoolKind, cfg: &PoolCfg, trace: &[TFrame], lockstep: bool, perturb_seed: u64, perturb_rate: u64) -> Result<ParOutcome, String> {
    parallel_with(kind, cfg, trace, lockstep, perturb_seed, perturb_rate, false)
}

/// `via_analyzer`: the pool is the one the analyzer's `with_config` + `init_pool` builds.
pub fn parallel_with(kind: PoolKind, cfg: &PoolCfg, trace: &[TFrame], lockstep: bool, perturb_seed: u64, perturb_rate: u64, via_analyzer: bool) -> Result<ParOutcome, String> {
    pool::reset_log(perturb_seed, perturb_rate);
    let h = if via_analyzer { Handle::new_via_analyzer(kind, cfg, Filters::none())? } else { Handle::new(kind, cfg, Filters::none())? };
    let mut all_queued = true;
    let mut queued = 0u64;
    let mut drained = true;
    let mut deficit = 0u64;
    for t in trace {
        if lockstep {
            huginn_net_tcp::verif_hooks::clock::set_ms(t.at_ms);
        }
        if h.dispatch(t.frame.clone()) {
            queued += 1;
            if lockstep && deficit < 3 {
                match h.wait_drain(queued - deficit, Duration::from_secs(30)) {
                    pool::Drain::Complete => {}
                    // a frame reported as queued never reached the processed point although the
                    // pool is idle: it is lost (the comparison shows it).  Later frames are
                    // awaited relative to what can still arrive; after three losses the rest of
                    // the trace is dispatched without waiting (each loss costs 2 s to establish)
                    pool::Drain::IdleShort => deficit = queued - pool::log().processed.load(std::sync::atomic::Ordering::SeqCst).min(queued),
                    pool::Drain::Stalled => {
                        drained = false;
                        break;
                    }
                }
            }
        } else if t.conn != usize::MAX {
            all_queued = false;
        }
    }
    // an idle pool that processed fewer frames than were queued counts as drained: the comparison
    // below then shows what is missing
    if drained && h.wait_drain(queued - deficit.min(queued), Duration::from_secs(30)) == pool::Drain::Stalled {
        drained = false;
    }
    let results = h.drain_results();
    h.shutdown();
    Ok(ParOutcome { results, all_queued, drained })
}

fn arrival_hash(results: &[Vec<String>]) -> u64 {
    let mut h: u64 = 1469598103934665603;
    for r in results {
        h = h.rotate_left(5) ^ pool::fnv(r.join("|").as_bytes());
        h = h.wrapping_mul(0x100000001b3);
    }
    h
}

pub fn compare(ctx: &mut Ctx, kind: PoolKind, cfg: &PoolCfg, tag: &str, seq: &[Vec<String>], par: &ParOutcome, trace_id: u64, trace: &[TFrame]) {
    if !par.all_queued {
        ctx.inconclusive("a dispatch was not queued although the queue is larger than the trace");
        return;
    }
    if !par.drained {
        ctx.inconclusive("pool did not drain within the 30 s watchdog");
        return;
    }
    let mut a: Vec<String> = seq.iter().map(|r| r.join(" || ")).collect();
    let mut b: Vec<String> = par.results.iter().map(|r| r.join(" || ")).collect();
    a.sort();
    b.sort();
    let multiset_ok = a == b;
    let order_ok = per_key(kind, seq) == per_key(kind, &par.results);
    ctx.judge(multiset_ok && order_ok, &[], "worker-pool results differ from the sequential analyzer's", || {
        let missing: Vec<&String> = a.iter().filter(|x| !b.contains(x)).take(3).collect();
        let extra: Vec<&String> = b.iter().filter(|x| !a.contains(x)).take(3).collect();
        json!({
            "pool": format!("{kind:?}"), "mode": tag, "config": format!("{cfg:?}"), "trace": trace_id, "frames": trace.len(),
            "sequential_results": a.len(), "parallel_results": b.len(), "multiset_equal": multiset_ok, "per_key_order_equal": order_ok,
            "missing_in_parallel": missing, "only_in_parallel": extra,
            "regenerate": "trace is a deterministic function of (seed, trace id): hv replay re-runs the shard",
        })
    });
    ctx.bucket(&format!("{kind:?}/{tag}/w{}/b{}/t{}", cfg.workers, cfg.batch, cfg.timeout_ms));
    ctx.bucket(&format!("arrival-order/{kind:?}/{:016x}", arrival_hash(&par.results)));
    ctx.class_n(&format!("results/{kind:?}"), par.results.len() as u64);
}

pub fn run(ctx: &mut Ctx) {
    pool::install_hooks();
    let n = ctx.scale(400, 6_000, 2);
    for t in 0..n {
        if !ctx.mine(t) {
            continue;
        }
        if ctx.rep.violation_count > 40 {
            ctx.note("stopped early after more than 40 violations in this shard");
            break;
        }
        // (every inconclusive pool run has cost a 30 s watchdog or a 15 s guard)
        if ctx.rep.inconclusive > 24 {
            ctx.note("stopped early after more than 24 inconclusive pool runs in this shard");
            break;
        }
        let mut r = ctx.rng_global(10, t);
        let nconn = if ctx.miri() { 3 } else { 10 + r.usize(if ctx.quick() { 60 } else { 190 }) };
        let (_conns, trace) = gen_trace(&mut r, nconn, t * 256);
        let with_db = t % 2 == 0 && !ctx.miri(); // loading the bundled database costs ~50 s under Miri
        for kind in [PoolKind::Tcp, PoolKind::Http, PoolKind::Tls] {
            let started = std::time::Instant::now();
            let seq = match sequential(kind, &trace, with_db, |_| scenario::T0) {
                Ok(s) => s,
                Err(p) => {
                    ctx.judge(false, &[], "panic in the sequential analyzer", || json!({"panic": p}));
                    continue;
                }
            };
            let nconf = ctx.scale(3, 6, 1);
            for c in 0..nconf {
                let workers = match c {
                    0 => 1,
                    1 => 2 + r.usize(3),
                    _ => 1 + r.usize(16),
                };
                let cfg = PoolCfg {
                    workers,
                    queue: trace.len() + 8,
                    batch: *r.pick(&[1usize, 2, 32]),
                    timeout_ms: *r.pick(&[1u64, 10]),
                    max_conn: 4096,
                    with_db,
                };
                huginn_net_tcp::verif_hooks::clock::set_ms(scenario::T0);
                let rate = *r.pick(&[0u64, 3, 11, 2]);
                match parallel(kind, &cfg, &trace, false, r.next_u64(), rate) {
                    Ok(par) => {
                        if started.elapsed().as_secs() >= 15 {
                            ctx.inconclusive("run exceeded 15 s of wall time (TTL caches could have expired)");
                        } else {
                            compare(ctx, kind, &cfg, "free-running", &seq, &par, t, &trace);
                        }
                    }
                    Err(e) => {
                        ctx.judge(false, &[], "worker pool could not be created", || json!({"error": e}));
                    }
                }
            }
            // lock-step mode: one frame at a time with its own arrival time, so that uptime
            // estimates produced inside the TCP pool can be compared too
            if kind == PoolKind::Tcp && (t % 3 == 0 || !ctx.quick()) {
                let short: Vec<TFrame> = trace.iter().take(400).cloned().collect();
                let started = std::time::Instant::now();
                if let Ok(seq_t) = sequential(kind, &short, with_db, |f| f.at_ms) {
                    let cfg = PoolCfg { workers: 1 + r.usize(8), queue: short.len() + 8, batch: *r.pick(&[1usize, 32]), timeout_ms: 1, max_conn: 4096, with_db };
                    if let Ok(par) = parallel(kind, &cfg, &short, true, r.next_u64(), 0) {
                        if started.elapsed().as_secs() >= 15 {
                            ctx.inconclusive("lock-step run exceeded 15 s of wall time");
                        } else {
                            compare(ctx, kind, &cfg, "lock-step", &seq_t, &par, t, &short);
                            let ups = seq_t.iter().flatten().filter(|l| l.starts_with("uptime")).count();
                            ctx.class_n("lock-step-uptime-results", ups as u64);
                        }
                    }
                }
            }
        }
        // pools built by the analyzers (with_config + init_pool), in lock-step with a queue much
        // smaller than the number of open connections and a connection capacity far above it:
        // nothing overflows, so every connection's results must still be there
        if t % 2 == 1 || !ctx.quick() {
            for kind in [PoolKind::Tcp, PoolKind::Http, PoolKind::Tls] {
                let short: Vec<TFrame> = trace.iter().take(600).cloned().collect();
                let started = std::time::Instant::now();
                let Ok(seq_t) = sequential(kind, &short, with_db, |f| f.at_ms) else { continue };
                let cfg = PoolCfg { workers: 1 + r.usize(3), queue: 2 + r.usize(5), batch: *r.pick(&[1usize, 8]), timeout_ms: 1, max_conn: 4096, with_db };
                match parallel_with(kind, &cfg, &short, true, r.next_u64(), 0, true) {
                    Ok(par) => {
                        if started.elapsed().as_secs() >= 15 {
                            ctx.inconclusive("lock-step run exceeded 15 s of wall time");
                        } else {
                            compare(ctx, kind, &cfg, "analyzer-built-pool/lock-step/small-queue", &seq_t, &par, t, &short);
                        }
                    }
                    Err(e) => {
                        ctx.judge(false, &[], "worker pool could not be created", || json!({"error": e, "via": "with_config + init_pool"}));
                    }
                }
            }
        }
        // an application that dispatches a capture and then simply lets go of the pool, reading the
        // result channel until it closes: everything that was accepted as Queued is still analysed
        if t % 3 == 1 && !ctx.miri() {
            for kind in [PoolKind::Tcp, PoolKind::Http, PoolKind::Tls] {
                let short: Vec<TFrame> = trace.iter().take(1500).cloned().collect();
                let Ok(seq) = sequential(kind, &short, with_db, |_| scenario::T0) else { continue };
                let cfg = PoolCfg { workers: 1 + r.usize(4), queue: short.len() + 8, batch: *r.pick(&[1usize, 32]), timeout_ms: *r.pick(&[1u64, 10]), max_conn: 4096, with_db };
                huginn_net_tcp::verif_hooks::clock::set_ms(scenario::T0);
                pool::reset_log(0, 0);
                let via = r.chance(1, 2);
                let Ok(h) = (if via { Handle::new_via_analyzer(kind, &cfg, Filters::none()) } else { Handle::new(kind, &cfg, Filters::none()) }) else { continue };
                let mut all_queued = true;
                for f in &short {
                    if !h.dispatch(f.frame.clone()) && f.conn != usize::MAX {
                        all_queued = false;
                    }
                }
                match h.drop_and_collect(Duration::from_secs(30)) {
                    Some(results) => {
                        let par = ParOutcome { results, all_queued, drained: true };
                        compare(ctx, kind, &cfg, if via { "dropped-while-busy/analyzer-built" } else { "dropped-while-busy" }, &seq, &par, t, &short);
                    }
                    None => ctx.inconclusive("result channel did not close within 30 s after the pool was dropped"),
                }
            }
        }
        // analyze_pcap entry in parallel mode (TCP: includes the shutdown path)
        if t % 4 == 0 && !ctx.miri() {
            pcap_mode(ctx, &mut r, t, &trace);
        }
        if ctx.want_sample() {
            ctx.sample(json!({"trace": t, "connections": nconn, "frames": trace.len()}));
        }
    }
    huginn_net_tcp::verif_hooks::clock::clear();
    replays_and_duplicates(ctx);
}

/// Two more shapes of use the traces above do not have.
///
/// (a) one capture thread that uses several pools one after the other -- worker counts going down
/// and up -- for the same short capture of ONE connection whose last frame comes from the same
/// endpoint as its first (handshake, exchange, final client ACK): each pool's results are the
/// sequential ones, whatever pool the thread fed before.
///
/// (b) traces in which some frames occur twice back to back, byte for byte (a retransmitted SYN
/// of a host without timestamps, a capture on a mirror port): the sequential analyzer reports
/// for every frame it is given, and so must the pool.
fn replays_and_duplicates(ctx: &mut Ctx) {
    if ctx.miri() {
        return;
    }
    let n = ctx.scale(60, 1_200, 2);
    for t in 0..n {
        if !ctx.mine(t) || ctx.rep.violation_count > 40 {
            continue;
        }
        let mut r = ctx.rng_global(1010, t);
        // ---- (a)
        let kind_c = *r.pick(&[Kind::Http1, Kind::Tls, Kind::Http1]);
        let ep = crate::pkt::Endpoints::v4([10, 77, (t >> 8) as u8, t as u8], 1025 + r.u16() % 60000, [172, 31, 0, 1 + r.u8() % 200], if kind_c == Kind::Tls { 443 } else { 80 });
        let conn = scenario::gen_conn_ep(&mut r, 900_000 + t, kind_c, scenario::T0, Some(ep.clone()));
        let mut one: Vec<TFrame> = conn.frames.iter().map(|(at, f)| TFrame { at_ms: *at, conn: 0, frame: f.clone() }).collect();
        if let Some(first) = one.first().cloned() {
            // a last frame from the endpoint that sent the first one: the SYN's sender acknowledges
            // (a copy of the first frame with the ACK flag instead of SYN would need the script;
            // a bare client ACK built from the same endpoints does)
            let mut s = crate::pkt::Script::new(ep.clone(), crate::pkt::Link::Ethernet, 7, 9);
            let f = s.seg(true, 0x7000_0000, 0x6000_0000, crate::pkt::flags::ACK, vec![], &[]);
            one.push(TFrame { at_ms: first.at_ms, conn: 0, frame: f });
        }
        for kind in [PoolKind::Http, PoolKind::Tls, PoolKind::Tcp] {
            let started = std::time::Instant::now();
            let Ok(seq) = sequential(kind, &one, false, |_| scenario::T0) else { continue };
            let counts: Vec<usize> = if r.chance(1, 2) { vec![16, 7, 3, 2, 1, 5, 16] } else { vec![13, 4, 64, 2, 9] };
            for workers in counts {
                let cfg = PoolCfg { workers, queue: one.len() + 8, batch: 4, timeout_ms: 1, max_conn: 64, with_db: false };
                huginn_net_tcp::verif_hooks::clock::set_ms(scenario::T0);
                match parallel(kind, &cfg, &one, false, 0, 0) {
                    Ok(par) => {
                        if started.elapsed().as_secs() >= 15 {
                            ctx.inconclusive("replay run exceeded 15 s of wall time");
                        } else {
                            compare(ctx, kind, &cfg, "one-connection-replayed-to-pools-of-changing-size", &seq, &par, t, &one);
                        }
                    }
                    Err(e) => {
                        ctx.judge(false, &[], "worker pool could not be created", || json!({"error": e}));
                    }
                }
            }
        }
        // ---- (b)
        let nc = 4 + r.usize(12);
        let (_c, trace) = gen_trace(&mut r, nc, 5_000_000 + t * 64);
        let mut dup: Vec<TFrame> = Vec::new();
        for f in trace {
            let twice = f.conn != usize::MAX && r.chance(1, 6);
            dup.push(f.clone());
            if twice {
                dup.push(f);
            }
        }
        for kind in [PoolKind::Tcp, PoolKind::Http, PoolKind::Tls] {
            let started = std::time::Instant::now();
            let Ok(seq) = sequential(kind, &dup, false, |_| scenario::T0) else { continue };
            let cfg = PoolCfg { workers: 1 + r.usize(8), queue: dup.len() + 8, batch: *r.pick(&[1usize, 4, 32]), timeout_ms: 1, max_conn: 4096, with_db: false };
            huginn_net_tcp::verif_hooks::clock::set_ms(scenario::T0);
            match parallel(kind, &cfg, &dup, false, r.next_u64(), 0) {
                Ok(par) => {
                    if started.elapsed().as_secs() >= 15 {
                        ctx.inconclusive("duplicate-frame run exceeded 15 s of wall time");
                    } else {
                        compare(ctx, kind, &cfg, "frames-duplicated-back-to-back", &seq, &par, t, &dup);
                    }
                }
                Err(e) => {
                    ctx.judge(false, &[], "worker pool could not be created", || json!({"error": e}));
                }
            }
        }
    }
    huginn_net_tcp::verif_hooks::clock::clear();
}

fn pcap_mode(ctx: &mut Ctx, r: &mut Rng, t: u64, trace: &[TFrame]) {
    // Ethernet frames only (one link type per pcap file)
    let frames: Vec<Vec<u8>> = trace.iter().map(|f| f.frame.clone()).filter(|f| f.len() > 14 && (f[12] == 0x08 || f[12] == 0x86)).collect();
    if frames.is_empty() {
        return;
    }
    let dir = format!("{}/work/C10", crate::rt::verif_dir());
    let _ = std::fs::create_dir_all(&dir);
    let path = format!("{dir}/trace_{}_{}.pcap", ctx.shard, t);
    if pkt::write_pcap(&path, 1, &frames).is_err() {
        ctx.note("could not write a pcap file; analyze_pcap stage skipped");
        return;
    }
    huginn_net_tcp::verif_hooks::clock::set_ms(scenario::T0);
    let db = scenario::db();
    // sequential reference through the same entry
    let seq: Vec<Vec<String>> = {
        let (tx, rx) = std::sync::mpsc::channel();
        let mut a = huginn_net_tcp::HuginnNetTcp::new(Some(db.clone()), 4096).expect("analyzer");
        let _ = a.analyze_pcap(&path, tx, None);
        rx.try_iter().map(|x| crate::canon::tcp(&x)).filter(|l| !l.is_empty()).collect()
    };
    let workers = 1 + r.usize(4);
    let cfg = PoolCfg { workers, queue: frames.len() + 8, batch: *r.pick(&[1usize, 32]), timeout_ms: 5, max_conn: 4096, with_db: true };
    pool::reset_log(r.next_u64(), *r.pick(&[0u64, 5]));
    let (tx, rx) = std::sync::mpsc::channel();
    let mut a = huginn_net_tcp::HuginnNetTcp::with_config(Some(db), 4096, cfg.workers, cfg.queue, cfg.batch, cfg.timeout_ms).expect("analyzer");
    if a.init_pool(tx.clone()).is_err() {
        return;
    }
    let _ = a.analyze_pcap(&path, tx, None);
    // after analyze_pcap returned, shutdown has been requested; workers finish their queues
    let mut par: Vec<Vec<String>> = Vec::new();
    let start = std::time::Instant::now();
    let mut drained = false;
    loop {
        match rx.recv_timeout(Duration::from_millis(200)) {
            Ok(x) => {
                let l = crate::canon::tcp(&x);
                if !l.is_empty() {
                    par.push(l);
                }
            }
            Err(std::sync::mpsc::RecvTimeoutError::Disconnected) => {
                drained = true;
                break;
            }
            Err(std::sync::mpsc::RecvTimeoutError::Timeout) => {
                if start.elapsed() > Duration::from_secs(30) {
                    break;
                }
            }
        }
    }
    drop(a);
    let _ = std::fs::remove_file(&path);
    let tf: Vec<TFrame> = Vec::new();
    let out = ParOutcome { results: par, all_queued: true, drained };
    compare(ctx, PoolKind::Tcp, &cfg, "analyze_pcap", &seq, &out, t, &tf);
}

/// thorough tier only: sanitizer / interpreter stages, run once in the parent
fn sanitizers(ctx: &mut Ctx) {
    if !ctx.thorough() {
        return;
    }
    crate::rt::tsan_stage(ctx, 900);
    crate::rt::miri_stage(ctx, "-Zmiri-many-seeds=0..3", 3000);
}

pub fn spec() -> PropSpec {
    PropSpec {
        id: "C10",
        run,
        shards: super::shards_8_16,
        rule: "seeded traces of 10..200 complete connections (handshakes with timestamps, multi-segment ClientHellos, HTTP/1.x and HTTP/2 exchanges in both directions, garbage, with UDP / ICMP datagrams and truncated TCP segments of the same hosts in between) are analysed sequentially and by the TCP, HTTP and TLS worker pools under varied worker counts (1..16), batch sizes {1,2,32}, timeouts {1,10} ms and seeded yield/sleep/spin perturbation at the hook points; after logical drain the result multisets and the per-connection (TCP: per-sender) orders are compared; a lock-step mode compares uptime estimates through the TCP pool; the parallel analyze_pcap entry of the TCP analyzer is compared with its sequential one; a bucket is a distinct (pool, mode, workers, batch, timeout) configuration or a distinct result-arrival order observed",
        assumptions: &[
            "two further shapes: one single-connection capture replayed from one thread to pools of changing size; traces in which one frame in six occurs twice back to back",
            "queue size exceeds the trace length (free-running), or frames are dispatched one at a time and awaited at the WorkerProcessed point (lock-step, also with queues of 2..6 on pools built by the analyzers' with_config + init_pool, connection capacity 4096); a run in which any dispatch is not queued, or which does not drain within 30 s, is inconclusive",
            "free-running runs freeze the virtual clock (uptime estimation then yields nothing in both modes); lock-step runs advance it per frame",
            "Ethernet and raw-IP framing only (the TLS pool drops loopback-framed frames at dispatch by design of its hash)",
            "only schedules produced by real threads with perturbation are explored; the thorough tier adds ThreadSanitizer and Miri stages on reduced traces",
        ],
        parent_stage: Some(sanitizers),
    }
}
