//! C01 — analysis is total: no input can crash, hang or poison an analyzer.
//!
//! Monitors: panic hook + catch_unwind around every library call (overflow-checks and
//! debug-assertions are on, so arithmetic overflow panics), abnormal child death observed by the
//! parent (abort, signal, allocation failure, stack overflow), a per-call progress watchdog, and a
//! differential *poison* comparator: after hostile inputs a well-formed probe on a reserved
//! 4-tuple must be analysed exactly as by a fresh instance.

use crate::pkt::{self, flags, Endpoints, Ip, Link, Script, Tcp, V4, V6};
use crate::pool::{self, Filters, Handle, PoolCfg, PoolKind};
use crate::props::c14;
use crate::rt::{guard, hex, Ctx, PropSpec, Rng};
use crate::scenario::{self, Runner, Which};
use serde_json::json;
use std::io::{Seek, SeekFrom, Write};
use std::sync::atomic::{AtomicU64, Ordering};
use std::sync::Mutex;
use std::time::{Duration, Instant};

// ------------------------------------------------------------------------------------------------
// watchdog + crash stash
// ------------------------------------------------------------------------------------------------

static CALL_STARTED_MS: AtomicU64 = AtomicU64::new(0);
static STASH: Mutex<Option<std::fs::File>> = Mutex::new(None);
static EPOCH: std::sync::OnceLock<Instant> = std::sync::OnceLock::new();

fn now_ms() -> u64 {
    EPOCH.get_or_init(Instant::now).elapsed().as_millis() as u64 + 1
}

fn stash_path(shard: usize) -> String {
    format!("{}/work/C01/stash_{}.bin", crate::rt::verif_dir(), shard)
}

/// remember the input about to be handed to the library (survives an abort of this process)
fn stash(target: &str, data: &[u8]) {
    if let Ok(mut g) = STASH.lock() {
        if let Some(f) = g.as_mut() {
            let _ = f.seek(SeekFrom::Start(0));
            let mut head = Vec::with_capacity(16 + target.len());
            head.extend_from_slice(&(target.len() as u32).to_le_bytes());
            head.extend_from_slice(&(data.len() as u32).to_le_bytes());
            head.extend_from_slice(target.as_bytes());
            let _ = f.write_all(&head);
            let _ = f.write_all(data);
        }
    }
    CALL_STARTED_MS.store(now_ms(), Ordering::SeqCst);
}

fn unstash() {
    CALL_STARTED_MS.store(0, Ordering::SeqCst);
}

pub fn read_stash(path: &str) -> Option<(String, Vec<u8>)> {
    let b = std::fs::read(path).ok()?;
    if b.len() < 8 {
        return None;
    }
    let tl = u32::from_le_bytes([b[0], b[1], b[2], b[3]]) as usize;
    let dl = u32::from_le_bytes([b[4], b[5], b[6], b[7]]) as usize;
    if b.len() < 8 + tl + dl {
        return None;
    }
    Some((String::from_utf8_lossy(&b[8..8 + tl]).to_string(), b[8 + tl..8 + tl + dl].to_vec()))
}

fn start_watchdog(shard: usize, budget: Duration) {
    let _ = std::fs::create_dir_all(format!("{}/work/C01", crate::rt::verif_dir()));
    if let Ok(f) = std::fs::OpenOptions::new().create(true).write(true).truncate(true).open(stash_path(shard)) {
        if let Ok(mut g) = STASH.lock() {
            *g = Some(f);
        }
    }
    std::thread::Builder::new()
        .name("c01-watchdog".into())
        .spawn(move || loop {
            std::thread::sleep(Duration::from_millis(250));
            let s = CALL_STARTED_MS.load(Ordering::SeqCst);
            if s != 0 && now_ms().saturating_sub(s) > budget.as_millis() as u64 {
                eprintln!("hv C01: a call did not return within {:?}; leaving the input in {} for isolation", budget, stash_path(shard));
                std::process::exit(86);
            }
        })
        .ok();
}

// ------------------------------------------------------------------------------------------------
// analyzers under test (long-lived instances) and probes
// ------------------------------------------------------------------------------------------------

fn harmless_filter() -> c14::Cfg {
    // deny frames to the discard port only: nearly everything passes, but every frame goes through
    // the pre-parse filter decoder
    c14::Cfg { deny: true, port: Some(c14::PortF { dst_ports: vec![9], ..Default::default() }), addr: None, net: None, style: 0 }
}

pub struct Bank {
    runners: Vec<(&'static str, Runner)>,
    born: Instant,
    fed: u64,
}

thread_local! {
    /// arrival time (virtual clock, hook H1) given to hostile frames; probes always arrive at T0
    static ARRIVAL_MS: std::cell::Cell<u64> = const { std::cell::Cell::new(scenario::T0) };
}

impl Bank {
    pub fn fresh() -> Bank {
        // loading the bundled database costs ~50 s under Miri: matching is off there
        let db = !cfg!(miri);
        let f = harmless_filter();
        let runners = vec![
            ("tcp", Runner::new(Which::Tcp, 1000, db)),
            ("http", Runner::new(Which::Http, 1000, db)),
            ("tls", Runner::new(Which::Tls, 1000, false)),
            ("unified", Runner::new(Which::Unified, 1000, db)),
            (
                "tcp+filter",
                Runner::Tcp(huginn_net_tcp::HuginnNetTcp::new(None, 1000).expect("tcp").with_filter(c14::build_tcp(&f)), ttl_cache::TtlCache::new(1000)),
            ),
            ("http+filter", Runner::Http(huginn_net_http::HuginnNetHttp::new(None, 1000).expect("http").with_filter(c14::build_http(&f)))),
            ("tls+filter", Runner::Tls(huginn_net_tls::HuginnNetTls::new(1000).with_filter(c14::build_tls(&f)))),
        ];
        Bank { runners, born: Instant::now(), fed: 0 }
    }
    /// feed one hostile frame to every analyzer; Ok = bit mask of the analyzers that reported
    /// something for it; Err = (analyzer, panic message)
    pub fn feed(&mut self, frame: &[u8]) -> Result<u32, (String, String)> {
        self.fed += 1;
        let mut mask = 0u32;
        for (i, (name, r)) in self.runners.iter_mut().enumerate() {
            stash(name, frame);
            let res = r.feed(ARRIVAL_MS.with(|a| a.get()), frame);
            unstash();
            match res {
                Err(p) => return Err((name.to_string(), p)),
                Ok(lines) => {
                    if !lines.is_empty() {
                        mask |= 1 << i;
                    }
                }
            }
        }
        Ok(mask)
    }
}

/// a well-formed probe on a reserved address block (203.0.113.1..4 <-> 198.18.0.0/24; the client
/// ports differ from probe to probe, so every probe is a set of new connections)
pub fn probe_frames(n: u64) -> Vec<Vec<u8>> {
    let mut r = Rng::from_parts(&[0xC01, n]);
    let mut frames = Vec::new();
    // TCP handshake with timestamps + HTTP/1.1 exchange
    let ep = Endpoints::v4([203, 0, 113, (n % 4) as u8 + 1], 30000 + (n % 20000) as u16, [198, 18, 0, 7], 80);
    let mut s = Script::new(ep, Link::Ethernet, 0x1000_0000 + n as u32, 0x2000_0000);
    let mut o = pkt::opt_mss(1460);
    o.extend(pkt::opt_sok());
    o.extend(pkt::opt_ts(4242, 0));
    o.extend(pkt::opt_nop());
    o.extend(pkt::opt_ws(7));
    s.syn(o.clone());
    s.syn_ack(o);
    s.ack();
    s.c_data(b"GET /probe HTTP/1.1\r\nHost: probe.example\r\nUser-Agent: curl/8.4.0\r\nAccept: */*\r\nAccept-Language: es\r\n\r\n");
    s.s_data(b"HTTP/1.1 200 OK\r\nServer: nginx/1.24.0\r\nDate: Tue, 14 Nov 2023 22:13:20 GMT\r\nContent-Type: text/plain\r\nContent-Length: 2\r\n\r\nok");
    frames.extend(s.frames);
    // TLS ClientHello in two segments
    let ep = Endpoints::v4([203, 0, 113, (n % 4) as u8 + 1], 50000 + (n % 10000) as u16, [198, 18, 0, 8], 443);
    let mut s = Script::new(ep, Link::Ethernet, 7, 9);
    s.handshake();
    let hello = scenario::client_hello(&mut r, n, 0);
    let cut = 40.min(hello.len() - 1);
    s.c_stream(&hello, &[cut]);
    frames.extend(s.frames);
    // HTTP/2 request
    let ep = Endpoints::v4([203, 0, 113, (n % 4) as u8 + 1], 20000 + (n % 9000) as u16, [198, 18, 0, 9], 8080);
    let mut s = Script::new(ep, Link::RawIp, 77, 99);
    s.handshake();
    let (_req, res) = scenario::simple_h2(&mut r, n, false);
    // the probe's request inserts a header into the HPACK dynamic table and refers back to it
    // (index 62): it only decodes on a decoder whose state is that of a fresh connection
    let req = {
        use crate::h2gen::{self, Encoder, HeadersOpts, Indexing, Repr};
        let mut enc = Encoder::new();
        let mut block = Vec::new();
        for (n, v) in [(":method", "GET"), (":scheme", "http"), (":path", "/probe"), (":authority", "probe.example")] {
            enc.field(&mut block, n.as_bytes(), v.as_bytes(), Repr::Indexed);
        }
        enc.field(&mut block, b"x-probe", b"1", Repr::lit(Indexing::Incremental, false, false));
        enc.raw_indexed(&mut block, 62);
        h2gen::request_bytes(&h2gen::settings(&[(3, 100)]), &block, &HeadersOpts::plain(1), &[])
    };
    s.c_data(&req);
    s.s_data(&res);
    frames.extend(s.frames);
    frames
}

/// connections crafted to leave state behind: header blocks that change HPACK state and then fail,
/// partial TLS records, unterminated heads
/// One connection each whose single data segment is filled to the IP limit with thousands of
/// tiny, individually well-formed units (handshake records that are no ClientHello,
/// change_cipher_spec records, empty SETTINGS frames after the preface): work and stack depth per
/// packet must not follow the number of units in it.
pub fn jumbo_connections() -> Vec<Vec<Vec<u8>>> {
    let mut out = Vec::new();
    let units: [(&[u8], &[u8], u16); 4] = [
        (&[], &[0x16, 0x03, 0x03, 0x00, 0x04, 0x00, 0x00, 0x00, 0x00], 443),
        (&[], &[0x16, 0x03, 0x01, 0x00, 0x04, 0x0e, 0x00, 0x00, 0x00], 443),
        (&[], &[0x14, 0x03, 0x03, 0x00, 0x01, 0x01], 443),
        (b"PRI * HTTP/2.0\r\n\r\nSM\r\n\r\n", &[0, 0, 0, 4, 0, 0, 0, 0, 0], 80),
    ];
    for (i, (pre, unit, port)) in units.iter().enumerate() {
        let mut payload = pre.to_vec();
        while payload.len() + unit.len() <= 65000 {
            payload.extend_from_slice(unit);
        }
        for v6 in [false, true] {
            let ep = if v6 {
                Endpoints { client: format!("2001:db8:77::{:x}", 1 + i).parse().unwrap(), server: "2001:db8:78::1".parse().unwrap(), cport: 42000 + i as u16, sport: *port }
            } else {
                Endpoints::v4([10, 68, i as u8, 1], 42000 + i as u16, [10, 69, 0, 1], *port)
            };
            let mut s = Script::new(ep, Link::Ethernet, 7000 + i as u32, 9000);
            s.handshake();
            s.c_data(&payload);
            out.push(std::mem::take(&mut s.frames));
        }
    }
    out
}

fn stateful_poisons(r: &mut Rng) -> Vec<Vec<Vec<u8>>> {
    use crate::h2gen::{self, HeadersOpts};
    let mut out = Vec::new();
    let blocks: Vec<Vec<u8>> = vec![
        vec![0x20, 0xc6],                         // table size 0, then an out-of-range index
        vec![0x3f, 0xe1, 0x7f, 0xff],             // table size 16384, then garbage
        vec![0x40, 0x01, b'a', 0x01, b'b', 0xff, 0xff, 0xff], // insert a:b, then a broken integer
        vec![0x40, 0x03, b'k', b'e', b'y', 0x02, b'v', b'1', 0x40, 0x01, b'x', 0x01, b'y', 0xc7],
        vec![0x20, 0x82, 0x86, 0x84, 0x41, 0x01, b'h', 0xbe, 0xbf], // size 0, inserts, dangling references
    ];
    for (i, b) in blocks.iter().enumerate() {
        for server_side in [false, true] {
            let ep = Endpoints::v4([10, 66, i as u8, 1 + server_side as u8], 41000 + i as u16, [10, 67, 0, 1], 8080);
            let mut s = Script::new(ep, Link::Ethernet, r.u32(), r.u32());
            s.handshake();
            let req = h2gen::request_bytes(&h2gen::settings(&[(1, 0), (3, 100)]), if server_side { &[0x82, 0x86, 0x84][..] } else { b }, &HeadersOpts::plain(1), &[]);
            s.c_data(&req);
            let mut o = HeadersOpts::plain(1);
            o.end_stream = true;
            let res = h2gen::response_bytes(&h2gen::settings(&[]), if server_side { b } else { &[0x88][..] }, &o, &[]);
            s.s_data(&res);
            out.push(s.frames);
        }
    }
    // the same kinds of unfinished connection between the very hosts the probes use (other client
    // ports): a connection that dies half-way must not affect the next connection of its host
    for k in 1..=4u8 {
        let h = scenario::client_hello(r, 100 + k as u64, 0);
        let ep = Endpoints::v4([203, 0, 113, k], 1500 + k as u16, [198, 18, 0, 8], 443);
        let mut s = Script::new(ep, Link::Ethernet, r.u32(), r.u32());
        s.handshake();
        s.c_data(&h[..(h.len() / 2).max(6)]);
        out.push(s.frames);
        let ep = Endpoints::v4([203, 0, 113, k], 1600 + k as u16, [198, 18, 0, 7], 80);
        let mut s = Script::new(ep, Link::Ethernet, r.u32(), r.u32());
        s.handshake();
        s.c_data(b"POST /half HTTP/1.1\r\nHost: probe.example\r\nUser-Agent: ");
        s.s_data(b"HTTP/1.1 200 OK\r\nServer: ");
        out.push(s.frames);
        let ep = Endpoints::v4([203, 0, 113, k], 1700 + k as u16, [198, 18, 0, 9], 8080);
        let mut s = Script::new(ep, Link::RawIp, r.u32(), r.u32());
        s.handshake();
        let req = h2gen::request_bytes(&h2gen::settings(&[(1, 0), (3, 100)]), &blocks[(k as usize) % blocks.len()], &HeadersOpts::plain(1), &[]);
        s.c_data(&req[..req.len() - 1]);
        out.push(s.frames);
    }
    // TLS: a partial ClientHello that never completes, and a huge declared record
    let ep = Endpoints::v4([10, 66, 9, 1], 42000, [10, 67, 0, 2], 443);
    let mut s = Script::new(ep, Link::Ethernet, 1, 2);
    s.handshake();
    let h = scenario::client_hello(r, 1, 0);
    s.c_data(&h[..h.len() / 2]);
    out.push(s.frames);
    out
}

fn run_probe(bank: &mut Bank, n: u64) -> Result<Vec<(String, Vec<Vec<String>>)>, (String, String)> {
    let frames = probe_frames(n);
    let mut out = Vec::new();
    for (name, r) in bank.runners.iter_mut() {
        let mut lines = Vec::new();
        for f in &frames {
            match r.feed(scenario::T0, f) {
                Ok(l) => lines.push(l),
                Err(p) => return Err((name.to_string(), p)),
            }
        }
        out.push((name.to_string(), lines));
    }
    Ok(out)
}

// ------------------------------------------------------------------------------------------------
// hostile frame generators
// ------------------------------------------------------------------------------------------------

fn seed_frames(r: &mut Rng) -> Vec<Vec<u8>> {
    let mut v = Vec::new();
    for name in ["http-simple-get.pcap", "macos_tcp_flags.pcap", "tls-alpn-h2.pcap", "tls12.pcap"] {
        v.extend(pkt::read_pcap(&format!("/repo/pcap/{name}")));
    }
    for i in 0..12u64 {
        let kinds = [scenario::Kind::TcpHandshake, scenario::Kind::Tls, scenario::Kind::Http1, scenario::Kind::Http2, scenario::Kind::Http2Hostile, scenario::Kind::Garbage];
        let c = scenario::gen_conn(r, 9000 + i, kinds[(i % 6) as usize], scenario::T0);
        v.extend(c.frames.into_iter().map(|f| f.1));
    }
    // IPv6 and loopback-framed seeds
    let tcp = Tcp { options: pkt::opt_mss(1440), ..Default::default() };
    v.push(pkt::build(Link::Null(pkt::NULL_V6_LE), &Ip::V6(V6::default()), &tcp));
    v.push(pkt::build(Link::Null(pkt::NULL_V6_LE), &Ip::V4(V4::default()), &tcp));
    v.push(pkt::build(Link::RawIp, &Ip::V6(V6::default()), &tcp));
    v
}

fn mutate(r: &mut Rng, seed: &[u8]) -> Vec<u8> {
    let mut f = seed.to_vec();
    let n = 1 + r.usize(4);
    for _ in 0..n {
        if f.is_empty() {
            f.push(r.u8());
            continue;
        }
        match r.below(9) {
            0 => {
                let i = r.usize(f.len());
                f[i] ^= 1 << r.below(8);
            }
            1 => {
                let i = r.usize(f.len());
                f[i] = *r.pick(&[0u8, 1, 2, 0x7f, 0x80, 0xff, 0x16, 0x45, 0x60]);
            }
            2 => {
                let i = r.usize(f.len());
                f.truncate(i);
            }
            3 => {
                let i = r.usize(f.len() + 1);
                let k = 1 + r.usize(8);
                let ins = r.bytes(k);
                f.splice(i..i, ins);
            }
            4 => {
                // 16-bit length-like field: set to an extreme
                if f.len() >= 2 {
                    let i = r.usize(f.len() - 1);
                    let v = *r.pick(&[0u16, 1, 0xffff, 0x7fff, 0x8000, f.len() as u16, (f.len() as u16).wrapping_add(1)]);
                    f[i] = (v >> 8) as u8;
                    f[i + 1] = v as u8;
                }
            }
            5 => {
                // duplicate a chunk
                let i = r.usize(f.len());
                let k = 1 + r.usize((f.len() - i).min(64));
                let chunk = f[i..i + k].to_vec();
                f.splice(i..i, chunk);
            }
            6 => {
                let i = r.usize(f.len());
                let k = (1 + r.usize(16)).min(f.len() - i);
                f.drain(i..i + k);
            }
            7 => {
                // the IHL / data-offset nibbles
                for off in [14usize, 0, 4, 46, 32] {
                    if off < f.len() && r.chance(1, 3) {
                        f[off] = (f[off] & 0xf0) | (r.u8() & 0x0f);
                    }
                }
            }
            _ => {
                let i = r.usize(f.len());
                let k = (1 + r.usize(8)).min(f.len() - i);
                for j in 0..k {
                    f[i + j] = r.u8();
                }
            }
        }
    }
    if f.len() > 65535 {
        f.truncate(65535);
    }
    f
}

// ------------------------------------------------------------------------------------------------
// byte-stream / text entry points
// ------------------------------------------------------------------------------------------------

fn stream_targets(ctx: &mut Ctx, r: &mut Rng, data: &[u8]) {
    use huginn_net_http::http1_parser::Http1Parser;
    use huginn_net_http::http2_fingerprint_extractor::Http2FingerprintExtractor;
    use huginn_net_http::http2_parser::Http2Parser;
    use huginn_net_http::http_process::HttpProcessors;
    use huginn_net_tls::TlsClientHelloReader;
    let mut fail = |ctx: &mut Ctx, target: &str, p: String| {
        ctx.judge(false, &[], "panic in a byte-stream entry point", || json!({"entry_point": target, "panic": p, "input_hex": hex(data)}));
    };
    macro_rules! call {
        ($name:expr, $body:expr) => {{
            stash($name, data);
            let res = guard(|| $body);
            unstash();
            ctx.eval();
            if let Err(p) = res {
                fail(ctx, $name, p);
            }
        }};
    }
    {
        stash("parse_tls_client_hello", data);
        let res = guard(|| huginn_net_tls::parse_tls_client_hello(data));
        unstash();
        ctx.eval();
        match res {
            Err(p) => fail(ctx, "parse_tls_client_hello", p),
            Ok(r) => ctx.bucket(&format!("streams/parse_tls_client_hello/{}", match r { Ok(Some(_)) => "hello", Ok(None) => "other-record", Err(_) => "error" })),
        }
    }
    call!("parse_tls_client_hello_ja4", { let _ = huginn_net_tls::parse_tls_client_hello_ja4(data); });
    let chunks: Vec<usize> = (0..r.usize(5)).map(|_| r.usize(data.len() + 1)).collect();
    call!("TlsClientHelloReader::add_bytes", {
        let mut rd = TlsClientHelloReader::new();
        let mut cs = chunks.clone();
        cs.sort();
        for part in pkt::split_at(data, &cs) {
            let _ = rd.add_bytes(part);
        }
        // a reader that saw hostile bytes and is reset must work like a new one
        rd.reset();
    });
    {
        stash("HttpProcessors::parse_request", data);
        let res = guard(|| {
            let p = HttpProcessors::new();
            (p.parse_request(data).map(|r| r.matching.version), p.parse_response(data).map(|r| r.matching.version))
        });
        unstash();
        ctx.eval();
        match res {
            Err(p) => fail(ctx, "HttpProcessors::parse_request", p),
            Ok((a, b)) => ctx.bucket(&format!("streams/HttpProcessors/request={a:?}/response={b:?}")),
        }
    }
    call!("Http1Parser", { let p = Http1Parser::new(); let _ = p.parse_request(data); let _ = p.parse_response(data); });
    call!("Http2Parser", {
        let p = Http2Parser::new();
        let _ = p.parse_frames(data);
        let _ = p.parse_frames_with_offset(data);
        let _ = p.parse_frames_skip_preface(data);
        let _ = p.parse_request(data);
        let _ = p.parse_response(data);
    });
    call!("extract_akamai_fingerprint_from_bytes", { let _ = huginn_net_http::extract_akamai_fingerprint_from_bytes(data); });
    call!("Http2FingerprintExtractor::add_bytes", {
        let mut e = Http2FingerprintExtractor::new();
        let mut cs = chunks.clone();
        cs.sort();
        for part in pkt::split_at(data, &cs) {
            let _ = e.add_bytes(part);
        }
    });
    call!("hash functions", {
        let _ = huginn_net_tcp::packet_hash::hash_source_ip(data);
        let _ = huginn_net_http::packet_hash::hash_flow(data, 7);
        let _ = huginn_net_tls::packet_hash::hash_flow(data, 7);
        let _ = huginn_net_tcp::packet_parser::detect_datalink_format(data);
    });
}

/// Well-formed probe inputs through new instances of every byte-stream entry point, as canonical
/// text.  The HTTP/2 probe's header block inserts a field into the dynamic table and refers back
/// to it, so that HPACK state left behind anywhere shows.
fn stream_probe() -> Vec<String> {
    use huginn_net_http::http2_fingerprint_extractor::Http2FingerprintExtractor;
    use huginn_net_http::http2_parser::Http2Parser;
    use huginn_net_http::http_process::HttpProcessors;
    use huginn_net_tls::TlsClientHelloReader;
    let mut out = Vec::new();
    let mut r = Rng::from_parts(&[0xC01, 0x5712]);
    let hello = scenario::client_hello(&mut r, 4242, 700);
    out.push(format!("ja4 {:?}", huginn_net_tls::parse_tls_client_hello_ja4(&hello)));
    let mut rd = TlsClientHelloReader::new();
    let mut got = Vec::new();
    for part in hello.chunks(211) {
        got.push(rd.add_bytes(part).map(|o| o.map(|s| format!("{:?}", (s.version, s.cipher_suites.len(), s.extensions.len(), s.generate_ja4().full.to_string())))).map_err(|e| e.to_string()));
    }
    out.push(format!("reader {got:?}"));
    let p = HttpProcessors::new();
    let q = b"GET /probe HTTP/1.1\r\nHost: probe.example\r\nUser-Agent: probe/1.0\r\nAccept-Language: de;q=0.4, fr;q=0.9\r\nCookie: a=b\r\n\r\n";
    out.push(format!("h1req {:?}", p.parse_request(q).map(|x| crate::canon::http_req_sig(&x))));
    let a = b"HTTP/1.1 200 OK\r\nServer: probe-srv/2\r\nContent-Type: text/plain\r\n\r\nbody";
    out.push(format!("h1res {:?}", p.parse_response(a).map(|x| crate::canon::http_res_sig(&x))));
    // HTTP/2: preface, SETTINGS, WINDOW_UPDATE, HEADERS whose block is
    //   :method GET, :scheme https, :path /, literal+indexing :authority probe.example,
    //   literal+indexing x-probe: 1, indexed 62 (= x-probe: 1 again), indexed 63 (= :authority)
    let mut h2 = b"PRI * HTTP/2.0\r\n\r\nSM\r\n\r\n".to_vec();
    h2.extend_from_slice(&[0, 0, 12, 4, 0, 0, 0, 0, 0, 0, 1, 0, 1, 0, 0, 0, 4, 0, 0x60, 0, 0]);
    h2.extend_from_slice(&[0, 0, 4, 8, 0, 0, 0, 0, 0, 0, 0xef, 0, 1]);
    let mut block = vec![0x82, 0x87, 0x84, 0x41, 13];
    block.extend_from_slice(b"probe.example");
    block.extend_from_slice(&[0x40, 7]);
    block.extend_from_slice(b"x-probe");
    block.extend_from_slice(&[1, b'1', 0xbe, 0xbf]);
    h2.extend_from_slice(&[0, 0, block.len() as u8, 1, 5, 0, 0, 0, 1]);
    h2.extend_from_slice(&block);
    let hp = Http2Parser::new();
    out.push(format!("h2req {:?}", hp.parse_request(&h2).map(|o| o.map(|x| (x.method.clone(), x.path.clone(), x.authority.clone(), x.headers.len())))));
    out.push(format!("h2proc {:?}", p.parse_request(&h2).map(|x| crate::canon::http_req_sig(&x))));
    out.push(format!("akamai {:?}", huginn_net_http::extract_akamai_fingerprint_from_bytes(&h2).map(|f| (f.fingerprint, f.hash))));
    let mut e = Http2FingerprintExtractor::new();
    let mut hist = Vec::new();
    for part in h2.chunks(17) {
        hist.push(e.add_bytes(part).map(|o| o.map(|f| f.fingerprint)).map_err(|x| x.to_string()));
    }
    out.push(format!("extractor {:?}", hist.iter().flatten().flatten().collect::<Vec<_>>()));
    out.push(format!("lang {:?}", huginn_net_http::http_languages::get_highest_quality_language("es;q=0.3, ja;q=0.8".to_string())));
    out
}

/// stream probe on this thread (state left by hostile streams included) and on a new thread,
/// both against the values taken before any hostile stream was offered
fn check_stream_probe(ctx: &mut Ctx, golden: &[String], after: u64) {
    let here = guard(stream_probe);
    let there = std::thread::spawn(|| guard(stream_probe)).join().unwrap_or_else(|_| Err("reference thread panicked".into()));
    for (which, got) in [("same thread", here), ("new thread", there)] {
        match got {
            Ok(g) => {
                ctx.judge(g == golden, &[], "a well-formed probe stream is analysed differently after hostile streams than before", || {
                    let k = g.iter().zip(golden.iter()).position(|(a, b)| a != b).unwrap_or(0);
                    json!({"where": which, "hostile_streams_before": after, "before": golden.get(k), "after": g.get(k)})
                });
            }
            Err(p) => {
                ctx.judge(false, &[], "panic while analysing the probe stream", || json!({"where": which, "panic": p}));
            }
        }
    }
    ctx.class("stream-probes-compared");
}

fn text_targets(ctx: &mut Ctx, text: &str) {
    use std::str::FromStr;
    let data = text.as_bytes();
    macro_rules! call {
        ($name:expr, $body:expr) => {{
            stash($name, data);
            let res = guard(|| $body);
            unstash();
            ctx.eval();
            if let Err(p) = res {
                ctx.judge(false, &[], "panic in a text entry point", || json!({"entry_point": $name, "panic": p, "input": text}));
            }
        }};
    }
    call!("Database::from_str", { let _ = huginn_net_db::Database::from_str(text); });
    call!("tcp::Signature::from_str", { let _ = huginn_net_db::tcp::Signature::from_str(text); });
    call!("http::Signature::from_str", { let _ = huginn_net_db::http::Signature::from_str(text); });
    call!("vocabulary::from_str", {
        let _ = huginn_net_db::Label::from_str(text);
        let _ = huginn_net_db::tcp::Ttl::from_str(text);
        let _ = huginn_net_db::tcp::WindowSize::from_str(text);
        let _ = huginn_net_db::tcp::TcpOption::from_str(text);
        let _ = huginn_net_db::tcp::Quirk::from_str(text);
        let _ = huginn_net_db::tcp::PayloadSize::from_str(text);
        let _ = huginn_net_db::tcp::IpVersion::from_str(text);
        let _ = huginn_net_db::http::Header::from_str(text);
        let _ = huginn_net_db::http::Version::from_str(text);
        let _ = huginn_net_http::http_languages::get_highest_quality_language(text.to_string());
    });
}

/// Database text that LOADS is then used: analyzers are built on it and given traffic that
/// conforms to each of its signatures (so that every index key of every table is looked up) plus
/// a probe; whatever the text was, analysis returns a result or an error value.
fn db_then_traffic(ctx: &mut Ctx, r: &mut Rng, text: &str, what: &str) {
    use crate::props::c13;
    use std::str::FromStr;
    let db = match guard(|| huginn_net_db::Database::from_str(text)) {
        Ok(Ok(d)) => std::sync::Arc::new(d),
        Ok(Err(_)) => {
            ctx.class("text/database-variant-rejected");
            return;
        }
        Err(p) => {
            ctx.judge(false, &[], "panic in a text entry point", || json!({"entry_point": "Database::from_str", "panic": p, "input": what}));
            return;
        }
    };
    ctx.class("text/database-variant-loaded");
    let Ok(tcp) = huginn_net_tcp::HuginnNetTcp::new(Some(db.clone()), 64) else { return };
    let Ok(mut uni) = huginn_net::HuginnNet::new(Some(&db), 64, None) else { return };
    let mut fed = 0u64;
    let mut idx = 0u64;
    for (request, entries) in [(true, &db.tcp_request.entries), (false, &db.tcp_response.entries)] {
        for (_label, sigs) in entries.iter() {
            for sig in sigs {
                idx += 1;
                for v in 0..2u64 {
                    let v4 = match sig.version {
                        huginn_net_db::tcp::IpVersion::V4 => true,
                        huginn_net_db::tcp::IpVersion::V6 => false,
                        _ => v == 0,
                    };
                    let ep = Endpoints::v4([10, 70, (idx >> 8) as u8, idx as u8], 1025 + (idx % 60000) as u16, [198, 51, 100, 70], 80);
                    let Some(b) = c13::build_tcp(sig, request, v4, (v * 7) as u8, r, &ep) else { continue };
                    let mut tracker = ttl_cache::TtlCache::new(16);
                    let res = guard(|| {
                        let _ = tcp.verif_process_packet(&b.frame, &mut tracker);
                        let _ = uni.analyze_tcp(&b.frame);
                    });
                    fed += 1;
                    ctx.eval();
                    if let Err(p) = res {
                        ctx.judge(false, &[], "panic while analysing a frame with a loaded signature database", || json!({"database": what, "signature": sig.to_string(), "panic": p, "frame_hex": hex(&b.frame)}));
                        return;
                    }
                }
            }
        }
    }
    for (request, entries) in [(true, &db.http_request.entries), (false, &db.http_response.entries)] {
        for (_label, sigs) in entries.iter() {
            for sig in sigs {
                idx += 1;
                let v11 = !matches!(sig.version, huginn_net_db::http::Version::V10);
                let (bytes, _m) = c13::build_http(sig, request, v11, idx % 2 == 0, false, idx % 3 == 0);
                let ep = Endpoints::v4([10, 71, (idx >> 8) as u8, idx as u8], 2000 + (idx % 60000) as u16, [198, 51, 100, 71], 80);
                let mut s = Script::new(ep, Link::Ethernet, r.u32(), r.u32());
                s.handshake();
                if request {
                    s.c_data(&bytes);
                } else {
                    s.c_data(b"GET / HTTP/1.1\r\nHost: a\r\n\r\n");
                    s.s_data(&bytes);
                }
                let Ok(mut http) = huginn_net_http::HuginnNetHttp::new(Some(db.clone()), 16) else { return };
                for f in &s.frames {
                    let res = guard(|| {
                        let _ = http.verif_process_packet(f);
                        let _ = uni.analyze_tcp(f);
                    });
                    fed += 1;
                    ctx.eval();
                    if let Err(p) = res {
                        ctx.judge(false, &[], "panic while analysing a frame with a loaded signature database", || json!({"database": what, "signature": sig.to_string(), "panic": p, "frame_hex": hex(f)}));
                        return;
                    }
                }
            }
        }
    }
    ctx.class_n("text/frames-analysed-with-a-loaded-database-variant", fed);
}

fn mutate_text(r: &mut Rng, seed: &str) -> String {
    let toks = ["*", ":", ",", "+", "-", "?", "%", "=", "[", "]", "mss*", "mtu*", "eol+", "999999999999999999999", "256", "65536", "4294967296", "\u{fffd}", "é", "\n", " ", "\t", "", "0", "ts", "nop", "[tcp:request]", "label = s:unix:X:y", "sig = "];
    let mut s: Vec<char> = seed.chars().collect();
    for _ in 0..1 + r.usize(3) {
        let i = r.usize(s.len() + 1);
        match r.below(4) {
            0 => {
                let t: Vec<char> = r.pick(&toks).chars().collect();
                s.splice(i..i, t);
            }
            1 if !s.is_empty() => {
                let i = i.min(s.len() - 1);
                let k = (1 + r.usize(6)).min(s.len() - i);
                s.drain(i..i + k);
            }
            2 if !s.is_empty() => {
                let i = i.min(s.len() - 1);
                s[i] = *r.pick(&['0', '9', '*', ':', ',', 'x', '\u{0}', '\u{7f}']);
            }
            _ => {
                s.truncate(i);
            }
        }
    }
    s.into_iter().collect()
}

// ------------------------------------------------------------------------------------------------
// the check
// ------------------------------------------------------------------------------------------------

struct FrameStage<'a> {
    bank: Bank,
    probe_no: u64,
    since_probe: u64,
    tag: &'a str,
}

fn hostile_frame(ctx: &mut Ctx, st: &mut FrameStage, frame: &[u8]) {
    ctx.eval();
    match st.bank.feed(frame) {
        Err((who, p)) => {
            ctx.judge(false, &[], "panic while analysing a frame", || json!({"analyzer": who, "panic": p, "frame_hex": hex(frame), "stage": st.tag}));
            st.bank = Bank::fresh();
            return;
        }
        Ok(mask) => {
            // outcome class: which analyzers still produced a result for the hostile frame
            ctx.bucket(&format!("frames/{}/reported-by-{:07b}", st.tag, mask));
        }
    }
    st.since_probe += 1;
    // poison check: every 64 hostile frames, and a fresh bank before the TTLs could matter
    if st.since_probe >= 64 {
        st.since_probe = 0;
        st.probe_no += 1;
        let n = st.probe_no + (ctx.shard as u64) * 1_000_000;
        let aged = st.bank.born.elapsed() > Duration::from_secs(4);
        let got = run_probe(&mut st.bank, n);
        // "as a fresh instance would": a new instance on a new thread -- per-thread state that
        // hostile input may have left behind on this thread cannot follow it there (the virtual
        // clock is per process, analysis results do not depend on the thread otherwise)
        let want = if cfg!(miri) || st.probe_no % 4 != 0 {
            run_probe(&mut Bank::fresh(), n)
        } else {
            std::thread::spawn(move || run_probe(&mut Bank::fresh(), n)).join().unwrap_or_else(|_| Err(("reference thread".to_string(), "panicked".to_string())))
        };
        match (got, want) {
            (Ok(g), Ok(w)) => {
                if aged {
                    ctx.inconclusive("analyzer bank older than 4 s at probe time (TTL caches)");
                } else {
                    let same = g == w;
                    ctx.judge(same, &[], "a probe connection is analysed differently after hostile input than by a fresh instance", || {
                        let d = g.iter().zip(w.iter()).find(|(a, b)| a != b);
                        json!({"stage": st.tag, "probe": n, "hostile_frames_before": st.bank.fed, "analyzer": d.map(|x| x.0 .0.clone()), "after_hostile": d.map(|x| x.0 .1.clone()), "fresh": d.map(|x| x.1 .1.clone()), "last_hostile_frame_hex": hex(frame)})
                    });
                    let reported: usize = w.iter().map(|(_, l)| l.iter().map(|x| x.len()).sum::<usize>()).sum();
                    ctx.class_n("probe-results-compared", reported as u64);
                }
            }
            (Err((who, p)), _) | (_, Err((who, p))) => {
                ctx.judge(false, &[], "panic while analysing the probe connection", || json!({"analyzer": who, "panic": p}));
            }
        }
        if aged || st.bank.fed > 20_000 {
            st.bank = Bank::fresh();
        }
    }
}

fn pool_stage(ctx: &mut Ctx, r: &mut Rng, frames: &[Vec<u8>]) {
    pool::install_hooks();
    huginn_net_tcp::verif_hooks::clock::set_ms(scenario::T0);
    for kind in [PoolKind::Tcp, PoolKind::Http, PoolKind::Tls] {
        let mut seen = std::collections::HashSet::new();
        let hostile: Vec<&Vec<u8>> = frames.iter().filter(|f| seen.insert(pool::fnv(f))).collect();
        let probe = probe_frames(r.next_u64() % 1_000_000 + 5_000_000);
        let f = harmless_filter();
        let cfg = PoolCfg { workers: 1 + r.usize(3), queue: hostile.len() + probe.len() + 8, batch: *r.pick(&[1usize, 32]), timeout_ms: 1, max_conn: 1000, with_db: false };
        let filters = Filters { tcp: Some(c14::build_tcp(&f)), http: Some(c14::build_http(&f)), tls: Some(c14::build_tls(&f)) };
        pool::reset_log(0, 0);
        let Ok(h) = Handle::new(kind, &cfg, filters) else { continue };
        let before = crate::rt::panic_count();
        let mut queued = 0u64;
        for fr in &hostile {
            stash("pool-dispatch", fr);
            let q = guard(|| h.dispatch((*fr).clone()));
            unstash();
            match q {
                Ok(true) => queued += 1,
                Ok(false) => {}
                Err(p) => {
                    ctx.judge(false, &[], "panic in dispatch", || json!({"pool": format!("{kind:?}"), "panic": p, "frame_hex": hex(fr)}));
                }
            }
        }
        let drained = h.wait_drain(queued, Duration::from_secs(30)) != pool::Drain::Stalled;
        let _ = h.drain_results();
        // probe through the same pool
        let mut pq = 0u64;
        for fr in &probe {
            if h.dispatch(fr.clone()) {
                pq += 1;
            }
        }
        let drained2 = drained && h.wait_drain(queued + pq, Duration::from_secs(30)) != pool::Drain::Stalled;
        let results = h.drain_results();
        h.shutdown();
        let panics = crate::rt::panic_count() - before;
        let log = crate::rt::take_panics();
        ctx.eval();
        if panics > 0 {
            ctx.judge(false, &[], "panic on a worker thread", || json!({"pool": format!("{kind:?}"), "panics": log, "hostile_frames": hostile.len()}));
            continue;
        }
        if !drained2 {
            // no panic was recorded: cannot tell a stuck worker from a stalled machine
            ctx.inconclusive("pool did not drain within 30 s (no panic recorded)");
            continue;
        }
        // expected probe results from a fresh sequential analyzer (same filter)
        let tf: Vec<scenario::TFrame> = probe.iter().map(|f| scenario::TFrame { at_ms: scenario::T0, conn: 0, frame: f.clone() }).collect();
        if let Ok(want) = crate::props::c10::sequential(kind, &tf, false, |_| scenario::T0) {
            let mut a: Vec<String> = want.iter().map(|x| x.join("|")).collect();
            let mut b: Vec<String> = results.iter().map(|x| x.join("|")).collect();
            a.sort();
            b.sort();
            ctx.judge(a == b, &[], "probe connections are analysed differently by a pool that processed hostile frames", || {
                json!({"pool": format!("{kind:?}"), "expected": a, "actual": b, "hostile_frames": hostile.len()})
            });
        }
        ctx.bucket(&format!("pool/{kind:?}/w{}", cfg.workers));
    }
}

pub fn run(ctx: &mut Ctx) {
    if !ctx.miri() {
        start_watchdog(ctx.shard, Duration::from_secs(20));
    }
    let mut r = ctx.rng(1);
    let seeds = seed_frames(&mut ctx.rng_global(1, 0));
    ctx.class_n("seed-frames", seeds.len() as u64);
    let mut st = FrameStage { bank: Bank::fresh(), probe_no: 0, since_probe: 0, tag: "truncation" };
    let mut idx = 0u64;

    // ---- W1: every truncation of every seed frame
    for f in &seeds {
        for cut in 0..f.len() {
            idx += 1;
            if ctx.mine(idx) && (!ctx.miri() || cut % 37 == 0) {
                hostile_frame(ctx, &mut st, &f[..cut]);
            }
        }
    }
    ctx.bucket("frames/every-truncation");
    if !ctx.miri() {
        ctx.exhaustive("every truncation of every packet of the four bundled captures and of the synthesised seed connections");
    }
    // ---- W2: single-bit corruptions (quick: every 7th bit)
    st.tag = "bit-corruption";
    let bit_step = ctx.scale(7, 1, 997) as usize;
    for f in &seeds {
        let mut bit = (idx as usize) % bit_step;
        while bit < f.len() * 8 {
            idx += 1;
            if ctx.mine(idx) {
                let mut g = f.clone();
                g[bit / 8] ^= 1 << (bit % 8);
                hostile_frame(ctx, &mut st, &g);
            }
            bit += bit_step;
        }
    }
    ctx.bucket("frames/single-bit-corruption");
    if ctx.thorough() {
        ctx.exhaustive("every single-bit corruption of every seed frame");
    }
    // ---- W3: every (kind, length, position) encoding of one TCP option in a valid SYN
    st.tag = "tcp-option-encoding";
    let kstep = ctx.scale(1, 1, 41) as usize;
    for kind in (0..=255u16).step_by(kstep) {
        for len in 0..=255u16 {
            for pos in 0..3u8 {
                idx += 1;
                if !ctx.mine(idx) {
                    continue;
                }
                let mut one = vec![kind as u8, len as u8];
                one.extend(std::iter::repeat(0x5a).take((len as usize).saturating_sub(2).min(36)));
                let mut o = Vec::new();
                match pos {
                    0 => o.extend(one),
                    1 => {
                        o.extend(pkt::opt_mss(1460));
                        o.extend(one);
                    }
                    _ => {
                        o.extend(one);
                        o.extend(pkt::opt_ts(1, 0));
                    }
                }
                o.truncate(40);
                let tcp = Tcp { options: o, pad_byte: (kind & 1) as u8, flags: if len % 2 == 0 { flags::SYN } else { flags::SYN | flags::ACK }, ..Default::default() };
                let ip = if kind % 3 == 0 { Ip::V6(V6::default()) } else { Ip::V4(V4::default()) };
                hostile_frame(ctx, &mut st, &pkt::build(Link::Ethernet, &ip, &tcp));
            }
        }
    }
    ctx.bucket("frames/tcp-option-kind-length-position");
    if !ctx.miri() {
        ctx.exhaustive("every (kind 0..255, length 0..255, position alone/after MSS/before TS) encoding of one TCP option inside a valid SYN / SYN+ACK");
    }
    // ---- W4: IPv4 IHL x total length x data offset, IPv6 next headers and payload lengths
    st.tag = "header-length-fields";
    for ihl in 0..16u8 {
        for tl in [0u16, 19, 20, 39, 40, 41, 60, 1500, 65535] {
            for doff in 0..16u8 {
                idx += 1;
                if !ctx.mine(idx) {
                    continue;
                }
                let tcp = Tcp { data_offset: Some(doff), options: pkt::opt_mss(1460), payload: b"GET / HTTP/1.1\r\n\r\n".to_vec(), ..Default::default() };
                let ip = Ip::V4(V4 { ihl: Some(ihl), total_len: Some(tl), ..Default::default() });
                for link in [Link::Ethernet, Link::RawIp, Link::Null(pkt::NULL_V6_LE)] {
                    hostile_frame(ctx, &mut st, &pkt::build(link, &ip, &tcp));
                }
            }
        }
    }
    for nh in 0..=255u8 {
        for pl in [0u16, 1, 19, 20, 21, 65535] {
            idx += 1;
            if !ctx.mine(idx) {
                continue;
            }
            let ip = Ip::V6(V6 { next: nh, payload_len: Some(pl), ..Default::default() });
            hostile_frame(ctx, &mut st, &pkt::build(Link::Ethernet, &ip, &Tcp { options: pkt::opt_ts(0, 0), ..Default::default() }));
        }
    }
    ctx.bucket("frames/ip-header-length-fields");

    // ---- W4t: timestamped segments on an advancing arrival clock (hook H1): a segment and a
    // later one filed under the same tracker entry, 25 ms .. 10 min (and outside) apart, whose
    // TSval values differ by every boundary amount of the 32-bit tick arithmetic
    st.tag = "timestamp-pairs-on-advancing-clock";
    {
        let deltas: [u32; 16] = [0, 1, 4, 5, 6, 1000, 15_000, 15_001, 0x7fff_fffe, 0x7fff_ffff, 0x8000_0000, 0x8000_0001, 0xffff_fff0, 0xffff_fffa, 0xffff_fffb, 0xffff_ffff];
        let gaps: [u64; 9] = [0, 1, 24, 25, 99, 100, 60_000, 600_000, 600_001];
        let bases: [u32; 5] = [0, 1, 0x7fff_ffff, 0x8000_0000, 0xffff_ffff];
        let mut now = scenario::T0 + 86_400_000;
        let mut k = 0u64;
        for (di, d) in deltas.iter().enumerate() {
            for gap in gaps {
                for (bi, base) in bases.iter().enumerate() {
                    idx += 1;
                    if !ctx.mine(idx) {
                        continue;
                    }
                    k += 1;
                    let variant = (di + bi + gap as usize) % 4;
                    let ep = Endpoints::v4([10, 68, (k >> 8) as u8, k as u8], 30_000 + (k % 30_000) as u16, [10, 69, 0, 1], if variant == 3 { 8080 } else { 443 });
                    let s = Script::new(ep, if k % 5 == 0 { Link::RawIp } else { Link::Ethernet }, 1000, 2000);
                    let ts = |v: u32| {
                        let mut o = pkt::opt_nop();
                        o.extend(pkt::opt_nop());
                        o.extend(pkt::opt_ts(v, 1));
                        o
                    };
                    // 0: SYN and its retransmission; 1: SYN+ACK twice; 2: two client data segments; 3: two server data segments
                    let (fc, fl) = match variant {
                        0 => (true, flags::SYN),
                        1 => (false, flags::SYN | flags::ACK),
                        2 => (true, flags::ACK | flags::PSH),
                        _ => (false, flags::ACK),
                    };
                    now += 700_000;
                    ARRIVAL_MS.with(|a| a.set(now));
                    hostile_frame(ctx, &mut st, &s.seg(fc, 1000, if fl & flags::ACK != 0 { 1 } else { 0 }, fl, ts(*base), &[]));
                    ARRIVAL_MS.with(|a| a.set(now + gap));
                    hostile_frame(ctx, &mut st, &s.seg(fc, 1000, if fl & flags::ACK != 0 { 1 } else { 0 }, fl, ts(base.wrapping_add(*d)), &[]));
                    // and a third one, after the entry has been judged (good or bad)
                    ARRIVAL_MS.with(|a| a.set(now + gap + 30_000));
                    hostile_frame(ctx, &mut st, &s.seg(fc, 1000, if fl & flags::ACK != 0 { 1 } else { 0 }, fl, ts(base.wrapping_add(*d).wrapping_add(0x8000_0000)), &[]));
                }
            }
        }
        ARRIVAL_MS.with(|a| a.set(scenario::T0));
    }
    ctx.bucket("frames/timestamp-pairs");

    // ---- W4b: link-layer grid: every 16-bit value in the EtherType position (quick: the assigned
    // ones -- IPv4, IPv6, ARP, 802.1Q/802.1ad/QinQ tags, MPLS, PPPoE, LLDP, jumbo -- plus a
    // stride), and every first-word value a NULL/loopback reading looks at, on frames of every
    // length from 0 to 26 and of full length: runt and snap-truncated frames of formats the
    // parsers may or may not know
    st.tag = "link-layer-grid";
    let syn = pkt::build(Link::RawIp, &Ip::V4(V4::default()), &Tcp { flags: pkt::flags::SYN, options: pkt::opt_mss(1460), ..Default::default() });
    let syn6 = pkt::build(Link::RawIp, &Ip::V6(V6::default()), &Tcp { flags: pkt::flags::SYN, options: pkt::opt_mss(1440), ..Default::default() });
    let assigned: [u16; 16] = [0x0800, 0x86dd, 0x0806, 0x8100, 0x88a8, 0x9100, 0x9200, 0x8847, 0x8848, 0x8863, 0x8864, 0x88cc, 0x8870, 0x0000, 0xffff, 0x05dc];
    let stride = ctx.scale(257, 1, 8191) as u32;
    let mut et: u32 = 0;
    while et <= 0xffff {
        let e = et as u16;
        et += if assigned.contains(&e) || stride == 1 { 1 } else { stride };
        idx += 1;
        if !ctx.mine(idx) {
            continue;
        }
        for inner in [&syn, &syn6] {
            let mut f = vec![0x02, 0, 0x5e, 0x10, 0, 1, 0x02, 0, 0x5e, 0x10, 0, 2, (e >> 8) as u8, e as u8];
            // a tag-like continuation: TCI, then the EtherType of the inner packet
            f.extend_from_slice(&[0x00, 0x64, if inner[0] >> 4 == 4 { 0x08 } else { 0x86 }, if inner[0] >> 4 == 4 { 0x00 } else { 0xdd }]);
            f.extend_from_slice(inner);
            for len in (0..=26usize).chain([f.len()]) {
                hostile_frame(ctx, &mut st, &f[..len.min(f.len())]);
            }
        }
    }
    for a in assigned {
        for len in 0..=26usize {
            // the assigned values right behind each other (stacked tags) and a bare header
            let mut f = vec![0xff; 12];
            for _ in 0..4 {
                f.extend_from_slice(&a.to_be_bytes());
                f.extend_from_slice(&[0x00, 0x01]);
            }
            hostile_frame(ctx, &mut st, &f[..len.min(f.len())]);
        }
    }
    for fam in [[2u8, 0, 0, 0], [0, 0, 0, 2], [0x1e, 0, 0, 0], [0x1c, 0, 0, 0], [0x18, 0, 0, 0], [0, 0, 0, 0x1e], [0, 0, 0, 0x18], [0x1e, 0, 0, 0x1e]] {
        for inner in [&syn, &syn6] {
            let mut f = fam.to_vec();
            f.extend_from_slice(inner);
            for len in (0..=26usize).chain([f.len()]) {
                hostile_frame(ctx, &mut st, &f[..len.min(f.len())]);
            }
        }
    }
    ctx.bucket("frames/link-layer-grid");

    // ---- W5: connections crafted to leave state behind, each followed at once by the probe
    st.tag = "stateful-poison";
    let mut poisons = stateful_poisons(&mut ctx.rng_global(1, 5));
    poisons.extend(jumbo_connections());
    for (pi, conn) in poisons.iter().enumerate() {
        if !ctx.mine(pi as u64) && ctx.nshards > 1 && pi as u64 % ctx.nshards as u64 != ctx.shard as u64 {
            continue;
        }
        for (k, f) in conn.iter().enumerate() {
            if k + 1 == conn.len() {
                st.since_probe = 64; // probe right after the last frame of the poison connection
            }
            hostile_frame(ctx, &mut st, f);
        }
    }
    ctx.bucket("frames/stateful-poison-connections");

    // ---- W6: seeded grammar-aware mutation of the seed frames
    st.tag = "mutation";
    let n = ctx.scale(250_000, 20_000_000, 150) / ctx.nshards as u64 + 1;
    for _ in 0..n {
        let s = r.usize(seeds.len());
        let f = mutate(&mut r, &seeds[s]);
        hostile_frame(ctx, &mut st, &f);
    }
    ctx.bucket("frames/seeded-mutation");

    // ---- byte-stream entry points
    let mut stream_seeds: Vec<Vec<u8>> = Vec::new();
    for i in 0..6u64 {
        stream_seeds.push(scenario::client_hello(&mut r, i, if i % 2 == 0 { 0 } else { 1200 }));
        stream_seeds.push(scenario::http1_request(&mut r, i));
        stream_seeds.push(scenario::http1_response(&mut r, i));
        let (a, b) = scenario::rich_h2(&mut r, i, i % 2 == 1);
        stream_seeds.push(a);
        stream_seeds.push(b);
    }
    stream_seeds.push(scenario::server_hello_like());
    stream_seeds.push(vec![0x16, 0x03, 0x01, 0xff, 0xff, 0x01]);
    // structured length-field attacks on TLS records / handshakes / extensions and H2 frames
    for s in stream_seeds.clone() {
        for off in [3usize, 4, 6, 7, 8, 43, 44, 76, 77] {
            for v in [0u8, 1, 0x7f, 0x80, 0xff] {
                if off < s.len() {
                    let mut m = s.clone();
                    m[off] = v;
                    stream_seeds.push(m);
                }
            }
        }
    }
    // whole frames above the default size limit (complete in the buffer, not merely announced),
    // alone and between ordinary frames
    for (t, len) in [(0u8, 16385usize), (1, 16400), (9, 20000), (0x0b, 16385), (4, 16386)] {
        let mut f = b"PRI * HTTP/2.0\r\n\r\nSM\r\n\r\n".to_vec();
        f.extend_from_slice(&[0, 0, 0, 4, 0, 0, 0, 0, 0]);
        f.extend_from_slice(&[(len >> 16) as u8, (len >> 8) as u8, len as u8, t, 0, 0, 0, 0, (t % 2)]);
        f.extend(std::iter::repeat(0x41).take(len));
        f.extend_from_slice(&[0, 0, 4, 8, 0, 0, 0, 0, 0, 0, 0, 0x10, 0]);
        stream_seeds.push(f[24..].to_vec());
        stream_seeds.push(f);
    }
    // very many small records / frames in one buffer: handshake records that are no ClientHello
    // (HelloRequest, ServerHelloDone-like), change_cipher_spec records, empty SETTINGS frames
    for (unit, count) in [(&[0x16u8, 0x03, 0x03, 0x00, 0x04, 0x00, 0x00, 0x00, 0x00][..], 7000usize), (&[0x16, 0x03, 0x01, 0x00, 0x04, 0x0e, 0x00, 0x00, 0x00][..], 600), (&[0x14, 0x03, 0x03, 0x00, 0x01, 0x01][..], 9000), (&[0, 0, 0, 4, 0, 0, 0, 0, 0][..], 7000)] {
        let mut v = Vec::with_capacity(unit.len() * count);
        for _ in 0..count {
            v.extend_from_slice(unit);
        }
        stream_seeds.push(v);
    }
    // streams that change HPACK state and then fail or stop (table size updates, inserts,
    // references to entries that do not exist)
    for i in 0..8u64 {
        let (a, b) = scenario::simple_h2(&mut r, 100 + i, true);
        stream_seeds.push(a);
        stream_seeds.push(b);
    }
    // the probe's values before this process has seen any hostile stream, taken on a new thread
    let golden: Vec<String> = if ctx.miri() { stream_probe() } else { std::thread::spawn(stream_probe).join().unwrap_or_default() };
    let mut offered = 0u64;
    let mut sidx = 0u64;
    for s in &stream_seeds {
        // long seeds (tens of KiB) are cut at 64 positions and offered whole, short ones densely
        let step = if s.len() > 4096 { s.len() / 64 } else { ctx.scale(3, 1, 29) as usize };
        for cut in (0..=s.len()).step_by(step).chain(std::iter::once(s.len())) {
            sidx += 1;
            if ctx.mine(sidx) {
                stream_targets(ctx, &mut r, &s[..cut]);
                offered += 1;
                if offered % 512 == 0 && !ctx.miri() {
                    check_stream_probe(ctx, &golden, offered);
                }
            }
        }
    }
    let n = ctx.scale(60_000, 4_000_000, 60) / ctx.nshards as u64 + 1;
    for _ in 0..n {
        let s = r.usize(stream_seeds.len());
        let m = mutate(&mut r, &stream_seeds[s]);
        stream_targets(ctx, &mut r, &m);
        offered += 1;
        if offered % 512 == 0 && !ctx.miri() {
            check_stream_probe(ctx, &golden, offered);
        }
    }
    if !ctx.miri() {
        check_stream_probe(ctx, &golden, offered);
    }
    // HTTP/2 frame header grid: length x type x flags
    for t in 0..=12u8 {
        for fl in [0u8, 1, 4, 5, 8, 0x20, 0x2d, 0xff] {
            for len in [0usize, 1, 4, 5, 6, 8, 9, 16384, 16385, 0xffffff] {
                sidx += 1;
                if !ctx.mine(sidx) {
                    continue;
                }
                let mut f = b"PRI * HTTP/2.0\r\n\r\nSM\r\n\r\n".to_vec();
                f.extend_from_slice(&[(len >> 16) as u8, (len >> 8) as u8, len as u8, t, fl, 0, 0, 0, (t % 2)]);
                f.extend(r.bytes(len.min(40)));
                stream_targets(ctx, &mut r, &f);
                stream_targets(ctx, &mut r, &f[24..]);
            }
        }
    }
    ctx.bucket("streams/tls-http1-http2");

    // ---- signature-database text
    let fp = std::fs::read_to_string("/repo/huginn-net-db/config/p0f.fp").unwrap_or_default();
    let lines: Vec<&str> = fp.lines().filter(|l| !l.trim().is_empty() && !l.starts_with(';')).collect();
    let n = ctx.scale(30_000, 2_000_000, 40) / ctx.nshards as u64 + 1;
    for i in 0..n {
        let l = lines[r.usize(lines.len().max(1))];
        let value = l.split_once('=').map(|x| x.1.trim()).unwrap_or(l);
        let m = mutate_text(&mut r, if i % 2 == 0 { value } else { l });
        text_targets(ctx, &m);
    }
    // whole-database mutations (token-wise), fewer
    let n = ctx.scale(60, 3_000, 1) / ctx.nshards as u64 + 1;
    for _ in 0..n {
        let mut t: Vec<String> = fp.lines().map(|s| s.to_string()).collect();
        for _ in 0..1 + r.usize(4) {
            let i = r.usize(t.len());
            t[i] = mutate_text(&mut r, &t[i].clone());
        }
        let joined = t.join("\n");
        text_targets(ctx, &joined);
        if !ctx.miri() {
            db_then_traffic(ctx, &mut r, &joined, "bundled text with 1..4 mutated lines");
        }
    }
    // labels without signatures (placeholders; signatures commented out) in every signature section
    if !ctx.miri() {
        for _ in 0..ctx.scale(16, 160, 0) / ctx.nshards as u64 + 1 {
            let (t, stripped) = crate::props::c13::strip_label_signatures(&fp, &mut r);
            db_then_traffic(ctx, &mut r, &t, &format!("bundled text with the signatures of these labels commented out: {stripped:?}"));
        }
        ctx.bucket("text/database-with-signature-less-labels");
    }
    ctx.bucket("text/signature-database");

    // ---- worker-pool path: hostile frames, then the probe, through each pool
    if !ctx.miri() {
        let rounds = ctx.scale(6, 200, 0) / ctx.nshards as u64 + 1;
        for _ in 0..rounds {
            let mut batch: Vec<Vec<u8>> = (0..600).map(|_| { let s = r.usize(seeds.len()); mutate(&mut r, &seeds[s]) }).collect();
            // the jumbo segments reach the workers (whose threads have the default stack) too
            batch.extend(jumbo_connections().into_iter().flatten());
            pool_stage(ctx, &mut r, &batch);
        }
    }
    // analyze_pcap entry of the four analyzers on a file of hostile frames
    if !ctx.miri() {
        pcap_stage(ctx, &mut r, &seeds);
    }
    huginn_net_tcp::verif_hooks::clock::clear();
}

fn pcap_stage(ctx: &mut Ctx, r: &mut Rng, seeds: &[Vec<u8>]) {
    let dir = format!("{}/work/C01", crate::rt::verif_dir());
    let _ = std::fs::create_dir_all(&dir);
    let path = format!("{dir}/hostile_{}.pcap", ctx.shard);
    let frames: Vec<Vec<u8>> = (0..400).map(|_| { let s = r.usize(seeds.len()); mutate(r, &seeds[s]) }).chain(probe_frames(77)).collect();
    if pkt::write_pcap(&path, 1, &frames).is_err() {
        return;
    }
    let body = std::fs::read(&path).unwrap_or_default();
    // also a truncated / corrupted container
    let bad = format!("{dir}/hostile_{}_cut.pcap", ctx.shard);
    let _ = std::fs::write(&bad, &body[..body.len() - r.usize(200).min(body.len() - 24)]);
    // record headers the capture reader refuses (captured length above the original length,
    // above the snap length, zero or absurd; a sub-second field of a whole second or more), at a
    // record in the middle of the file: analysis has to end or go on, not stay at that record
    let mut variants: Vec<String> = vec![path.clone(), bad.clone()];
    let mut offs = Vec::new();
    let mut o = 24usize;
    while o + 16 <= body.len() {
        offs.push(o);
        let incl = u32::from_le_bytes([body[o + 8], body[o + 9], body[o + 10], body[o + 11]]) as usize;
        o += 16 + incl;
    }
    if offs.len() > 4 {
        for (k, (field, value)) in [(12usize, 1u32), (8, 0x0004_0001), (8, 0xffff_ffff), (8, 0), (4, 1_000_000), (4, 0xffff_ffff), (12, 0)].iter().enumerate() {
            let at = offs[offs.len() / 2 + k % 3];
            let mut b = body.clone();
            b[at + field..at + field + 4].copy_from_slice(&value.to_le_bytes());
            let name = format!("{dir}/hostile_{}_hdr{k}.pcap", ctx.shard);
            if std::fs::write(&name, &b).is_ok() {
                variants.push(name);
            }
        }
    }
    for p in variants.iter() {
        stash("analyze_pcap", &std::fs::read(p).unwrap_or_default());
        let res = guard(|| {
            let (tx, rx) = std::sync::mpsc::channel();
            let mut a = huginn_net_tcp::HuginnNetTcp::new(None, 100).expect("tcp");
            let _ = a.analyze_pcap(p, tx, None);
            let n1 = rx.try_iter().count();
            let (tx, rx) = std::sync::mpsc::channel();
            let mut a = huginn_net_http::HuginnNetHttp::new(None, 100).expect("http");
            let _ = a.analyze_pcap(p, tx, None);
            let n2 = rx.try_iter().count();
            let (tx, rx) = std::sync::mpsc::channel();
            let mut a = huginn_net_tls::HuginnNetTls::new(100);
            let _ = a.analyze_pcap(p, tx, None);
            let n3 = rx.try_iter().count();
            let (tx, rx) = std::sync::mpsc::channel();
            let mut a = huginn_net::HuginnNet::new(None, 100, Some(huginn_net::AnalysisConfig { http_enabled: true, tcp_enabled: true, tls_enabled: true, matcher_enabled: false })).expect("unified");
            let _ = a.analyze_pcap(p, tx, None);
            let n4 = rx.try_iter().count();
            (n1, n2, n3, n4)
        });
        unstash();
        ctx.eval();
        match res {
            Ok(c) => ctx.class_n("analyze_pcap-results", (c.0 + c.1 + c.2 + c.3) as u64),
            Err(pn) => {
                ctx.judge(false, &[], "panic in analyze_pcap", || json!({"panic": pn, "file": p}));
            }
        }
    }
    for p in &variants {
        let _ = std::fs::remove_file(p);
    }
    ctx.bucket("entry/analyze_pcap");
    ctx.class_n("analyze_pcap-capture-variants", variants.len() as u64);
}

/// re-execute a stashed input alone (no watchdog): returns when the library returns
pub fn isolate(path: &str) -> i32 {
    let Some((target, data)) = read_stash(path) else { return 2 };
    crate::rt::install_panic_monitor();
    let mut ctx_r = Rng::new(1);
    let mut bank = Bank::fresh();
    println!("isolating target {target} with {} bytes", data.len());
    if target == "analyze_pcap" {
        let p = format!("{}/work/C01/isolate.pcap", crate::rt::verif_dir());
        let _ = std::fs::write(&p, &data);
        let (tx, _rx) = std::sync::mpsc::channel();
        let mut a = huginn_net_tcp::HuginnNetTcp::new(None, 100).expect("tcp");
        let _ = a.analyze_pcap(&p, tx, None);
        let (tx, _rx) = std::sync::mpsc::channel();
        let mut a = huginn_net_http::HuginnNetHttp::new(None, 100).expect("http");
        let _ = a.analyze_pcap(&p, tx, None);
        let (tx, _rx) = std::sync::mpsc::channel();
        let mut a = huginn_net_tls::HuginnNetTls::new(100);
        let _ = a.analyze_pcap(&p, tx, None);
        let (tx, _rx) = std::sync::mpsc::channel();
        let mut a = huginn_net::HuginnNet::new(None, 100, Some(huginn_net::AnalysisConfig { http_enabled: true, tcp_enabled: true, tls_enabled: true, matcher_enabled: false })).expect("unified");
        let _ = a.analyze_pcap(&p, tx, None);
        let _ = std::fs::remove_file(&p);
    } else if target.contains("from_str") || target.contains("vocabulary") {
        let mut ctx = dummy_ctx();
        text_targets(&mut ctx, &String::from_utf8_lossy(&data));
    } else if bank.runners.iter().any(|(n, _)| *n == target) || target == "pool-dispatch" {
        let _ = bank.feed(&data);
    } else {
        let mut ctx = dummy_ctx();
        stream_targets(&mut ctx, &mut ctx_r, &data);
    }
    0
}

fn dummy_ctx() -> Ctx {
    Ctx {
        id: "C01",
        tier: crate::rt::Tier::Quick,
        seed: 1,
        shard: 0,
        nshards: 1,
        rep: Default::default(),
        kf: Default::default(),
        start: Instant::now(),
        replay: None,
    }
}

/// thorough tier only: sanitizer / interpreter stages, run once in the parent
fn sanitizers(ctx: &mut Ctx) {
    if !ctx.thorough() {
        return;
    }
    crate::rt::miri_stage(ctx, "", 3000);
}

pub fn spec() -> PropSpec {
    PropSpec {
        id: "C01",
        run,
        shards: super::shards_16,
        rule: "hostile inputs for every public analysis entry point: every truncation and single-bit corruption (quick: every 7th bit) of every packet of the four bundled captures and of synthesised connections; every (kind,length,position) encoding of one TCP option; IHL x total-length x data-offset and IPv6 next-header x payload-length grids in three framings; seeded structural mutation of frames, TLS records, HTTP/1 and HTTP/2 streams (every truncation, length-field attacks, frame header grid) and of signature-database text (lines and whole files); frames go to the TCP, HTTP, TLS and unified analyzers with and without a filter, to the three worker pools and to analyze_pcap; streams go to the ClientHello parser and incremental reader, the HTTP processors and parsers, the Akamai extractors and the hash functions; text goes to Database::from_str and every FromStr of the vocabulary; monitors: panic hook (overflow checks on), child death, 20 s per-call watchdog, and a probe connection every 64 hostile frames whose canonical results must equal a fresh instance's; a bucket is an input family",
        assumptions: &[
            "timestamp pairs arrive on an advancing virtual clock (hook H1); database text that loads is used for analysis (mutated whole-database texts; texts with signature-less labels)",
            "non-termination is restated as bounded progress: a call that exceeds 20 s makes the shard exit; the stashed input is re-run alone with a 60 s budget and only a second timeout is a violation (otherwise inconclusive)",
            "probe connections use the reserved blocks 203.0.113.0/24 and 198.18.0.0/24, which no hostile generator emits; an analyzer bank older than 4 s is replaced and its probe is inconclusive (TTL caches use real time)",
            "memory-safety reach is that of the executed paths; the thorough tier adds a Miri stage on reduced workloads",
        ],
        parent_stage: Some(sanitizers),
    }
}
