//! C20 — the unified analyzer equals the union of the protocol analyzers; configuration only masks.
//!
//! Differential, packet by packet, with the same virtual clock: `HuginnNet::analyze_tcp` against
//! the TCP analyzer, the HTTP analyzer (each with its own state, fed the same trace) and the
//! stateless TLS analysis.  Then the 16 switch combinations x {database, no database}: each must
//! equal the all-enabled result masked accordingly.

use crate::canon;
use crate::pkt::{self, flags, Ip, Link, Tcp, V4};
use crate::rt::{guard, hex, Ctx, PropSpec, Rng};
use crate::scenario::{self, Kind, Mix, TFrame};
use huginn_net::output::FingerprintResult;
use huginn_net::{AnalysisConfig, HuginnNet};
use serde_json::json;

/// One comparable field: (name, raw part, match-dependent part)
#[derive(Clone, Debug, PartialEq)]
pub struct Field {
    pub name: &'static str,
    pub proto: char, // 't', 'h', 'l'
    pub raw: String,
    pub matched: String,
}

fn ep(a: &std::net::IpAddr, ap: u16, b: &std::net::IpAddr, bp: u16) -> String {
    format!("{a}:{ap}>{b}:{bp}")
}

fn fields_tcp(r: &huginn_net_tcp::TcpAnalysisResult) -> Vec<Field> {
    let mut v = Vec::new();
    if let Some(x) = &r.syn {
        v.push(Field { name: "syn", proto: 't', raw: format!("{} {}", ep(&x.source.ip, x.source.port, &x.destination.ip, x.destination.port), x.sig), matched: format!("{:?} {}", x.os_matched.os.as_ref().map(|o| (&o.name, &o.family, &o.variant, o.kind.to_string())), canon::quality(&x.os_matched.quality)) });
    }
    if let Some(x) = &r.syn_ack {
        v.push(Field { name: "syn_ack", proto: 't', raw: format!("{} {}", ep(&x.source.ip, x.source.port, &x.destination.ip, x.destination.port), x.sig), matched: format!("{:?} {}", x.os_matched.os.as_ref().map(|o| (&o.name, &o.family, &o.variant, o.kind.to_string())), canon::quality(&x.os_matched.quality)) });
    }
    if let Some(x) = &r.mtu {
        v.push(Field { name: "mtu", proto: 't', raw: format!("{} {}", ep(&x.source.ip, x.source.port, &x.destination.ip, x.destination.port), x.mtu), matched: format!("{:?} {}", x.link.link, canon::quality(&x.link.quality)) });
    }
    if let Some(x) = &r.client_uptime {
        v.push(Field { name: "client_uptime", proto: 't', raw: canon::uptime(x), matched: String::new() });
    }
    if let Some(x) = &r.server_uptime {
        v.push(Field { name: "server_uptime", proto: 't', raw: canon::uptime(x), matched: String::new() });
    }
    v
}

fn fields_http(r: &huginn_net_http::HttpAnalysisResult) -> Vec<Field> {
    let mut v = Vec::new();
    if let Some(x) = &r.http_request {
        v.push(Field {
            name: "http_request",
            proto: 'h',
            raw: format!("{} lang={:?} {}", ep(&x.source.ip, x.source.port, &x.destination.ip, x.destination.port), x.lang, canon::http_req_sig(&x.sig)),
            matched: format!("{:?} {} diag={}", x.browser_matched.browser.as_ref().map(|o| (&o.name, &o.family, &o.variant, o.kind.to_string())), canon::quality(&x.browser_matched.quality), x.diagnosis),
        });
    }
    if let Some(x) = &r.http_response {
        v.push(Field {
            name: "http_response",
            proto: 'h',
            raw: format!("{} {}", ep(&x.source.ip, x.source.port, &x.destination.ip, x.destination.port), canon::http_res_sig(&x.sig)),
            matched: format!("{:?} {} diag={}", x.web_server_matched.web_server.as_ref().map(|o| (&o.name, &o.family, &o.variant, o.kind.to_string())), canon::quality(&x.web_server_matched.quality), x.diagnosis),
        });
    }
    v
}

fn fields_unified(r: &FingerprintResult) -> Vec<Field> {
    let t = huginn_net_tcp::TcpAnalysisResult { syn: None, syn_ack: None, mtu: None, client_uptime: None, server_uptime: None };
    let _ = t;
    let mut v = Vec::new();
    // reuse the per-crate renderers through temporary views
    if let Some(x) = &r.tcp_syn {
        v.push(Field { name: "syn", proto: 't', raw: format!("{} {}", ep(&x.source.ip, x.source.port, &x.destination.ip, x.destination.port), x.sig), matched: format!("{:?} {}", x.os_matched.os.as_ref().map(|o| (&o.name, &o.family, &o.variant, o.kind.to_string())), canon::quality(&x.os_matched.quality)) });
    }
    if let Some(x) = &r.tcp_syn_ack {
        v.push(Field { name: "syn_ack", proto: 't', raw: format!("{} {}", ep(&x.source.ip, x.source.port, &x.destination.ip, x.destination.port), x.sig), matched: format!("{:?} {}", x.os_matched.os.as_ref().map(|o| (&o.name, &o.family, &o.variant, o.kind.to_string())), canon::quality(&x.os_matched.quality)) });
    }
    if let Some(x) = &r.tcp_mtu {
        v.push(Field { name: "mtu", proto: 't', raw: format!("{} {}", ep(&x.source.ip, x.source.port, &x.destination.ip, x.destination.port), x.mtu), matched: format!("{:?} {}", x.link.link, canon::quality(&x.link.quality)) });
    }
    if let Some(x) = &r.tcp_client_uptime {
        v.push(Field { name: "client_uptime", proto: 't', raw: canon::uptime(x), matched: String::new() });
    }
    if let Some(x) = &r.tcp_server_uptime {
        v.push(Field { name: "server_uptime", proto: 't', raw: canon::uptime(x), matched: String::new() });
    }
    if let Some(x) = &r.http_request {
        v.push(Field {
            name: "http_request",
            proto: 'h',
            raw: format!("{} lang={:?} {}", ep(&x.source.ip, x.source.port, &x.destination.ip, x.destination.port), x.lang, canon::http_req_sig(&x.sig)),
            matched: format!("{:?} {} diag={}", x.browser_matched.browser.as_ref().map(|o| (&o.name, &o.family, &o.variant, o.kind.to_string())), canon::quality(&x.browser_matched.quality), x.diagnosis),
        });
    }
    if let Some(x) = &r.http_response {
        v.push(Field {
            name: "http_response",
            proto: 'h',
            raw: format!("{} {}", ep(&x.source.ip, x.source.port, &x.destination.ip, x.destination.port), canon::http_res_sig(&x.sig)),
            matched: format!("{:?} {} diag={}", x.web_server_matched.web_server.as_ref().map(|o| (&o.name, &o.family, &o.variant, o.kind.to_string())), canon::quality(&x.web_server_matched.quality), x.diagnosis),
        });
    }
    if let Some(x) = &r.tls_client {
        v.push(Field { name: "tls_client", proto: 'l', raw: format!("{} {}", ep(&x.source.ip, x.source.port, &x.destination.ip, x.destination.port), canon::tls_sig(&x.sig)), matched: String::new() });
    }
    v
}

/// stateless TLS analysis of one frame: Ok(Some(field)) / Ok(None) / Err (not accepted)
fn tls_stateless(frame: &[u8]) -> Result<Option<Field>, ()> {
    use huginn_net_tls::packet_parser::{parse_packet, IpPacket};
    use pnet::packet::tcp::TcpPacket;
    use pnet::packet::Packet;
    match parse_packet(frame) {
        IpPacket::Ipv4(ip) => {
            let r = huginn_net_tls::process_tls_ipv4(&ip).map_err(|_| ())?;
            Ok(r.tls_client.and_then(|s| {
                let t = TcpPacket::new(ip.payload())?;
                Some(Field { name: "tls_client", proto: 'l', raw: format!("{}:{}>{}:{} {}", ip.get_source(), t.get_source(), ip.get_destination(), t.get_destination(), canon::tls_sig(&s)), matched: String::new() })
            }))
        }
        IpPacket::Ipv6(ip) => {
            let r = huginn_net_tls::process_tls_ipv6(&ip).map_err(|_| ())?;
            Ok(r.tls_client.and_then(|s| {
                let t = TcpPacket::new(ip.payload())?;
                Some(Field { name: "tls_client", proto: 'l', raw: format!("{}:{}>{}:{} {}", ip.get_source(), t.get_source(), ip.get_destination(), t.get_destination(), canon::tls_sig(&s)), matched: String::new() })
            }))
        }
        IpPacket::None => Err(()),
    }
}

fn hostile_frames(r: &mut Rng, n: usize) -> Vec<Vec<u8>> {
    let mut v = Vec::new();
    for _ in 0..n {
        let f = match r.below(7) {
            5 | 6 => {
                // TCP Fast Open (RFC 7413): a SYN (or the SYN+ACK) that already carries data -- a
                // one-segment ClientHello or the beginning of an HTTP request
                let payload = if r.chance(2, 3) { scenario::client_hello(r, 20, 0) } else { b"GET /tfo HTTP/1.1\r\nHost: tfo.example\r\n\r\n".to_vec() };
                let mut o = pkt::opt_mss(1460);
                o.extend(pkt::opt_unknown(34, &[0x11, 0x22, 0x33, 0x44, 0x55, 0x66, 0x77, 0x88]));
                let tcp = Tcp { sport: 40000 + r.below(1000) as u16, dport: 443, seq: r.u32(), flags: if r.chance(3, 4) { flags::SYN } else { flags::SYN | flags::ACK }, ack: 0, options: o, payload, ..Default::default() };
                let ip = if r.chance(3, 4) { Ip::V4(V4::default()) } else { Ip::V6(pkt::V6::default()) };
                pkt::build(if r.chance(1, 4) { Link::RawIp } else { Link::Ethernet }, &ip, &tcp)
            }
            0 => { let n = r.usize(80); r.bytes(n) },
            1 => {
                // invalid flag combination
                let tcp = Tcp { flags: flags::SYN | flags::FIN, ..Default::default() };
                pkt::build(Link::Ethernet, &Ip::V4(V4::default()), &tcp)
            }
            2 => {
                // non-TCP
                let ip = V4 { proto: 17, ..Default::default() };
                pkt::frame(Link::Ethernet, &ip.bytes(&[0u8; 16]), true)
            }
            3 => {
                let tcp = Tcp { options: pkt::opt_mss(1460), ..Default::default() };
                let mut f = pkt::build(Link::Ethernet, &Ip::V4(V4::default()), &tcp);
                let cut = r.usize(f.len());
                f.truncate(cut);
                f
            }
            _ => {
                // fragment
                let ip = V4 { flags: 0b001, ..Default::default() };
                pkt::frame(Link::RawIp, &ip.bytes(&Tcp::default().bytes()), true)
            }
        };
        v.push(f);
    }
    v
}

struct PerPacket {
    /// accepted by the (HTTP, TCP, TLS) reference analyzers
    accepted: (bool, bool, bool),
    fields: Vec<Field>,
}

pub fn run(ctx: &mut Ctx) {
    let n = ctx.scale(40_000, 600_000, 3);
    let db = scenario::db_static();
    let combos: Vec<(bool, bool, bool, bool)> = (0..16).map(|i| (i & 1 != 0, i & 2 != 0, i & 4 != 0, i & 8 != 0)).collect();
    for t in 0..n {
        if !ctx.mine(t) {
            continue;
        }
        let mut r = ctx.rng_global(20, t);
        let kinds = [Kind::TcpHandshake, Kind::Tls, Kind::Http1, Kind::Http1, Kind::Http2, Kind::Garbage, Kind::Truncated];
        let nconn = 1 + r.usize(6);
        let conns: Vec<_> = (0..nconn).map(|i| { let k = *r.pick(&kinds); scenario::gen_conn(&mut r, t * 16 + i as u64, k, scenario::T0) }).collect();
        let mut trace: Vec<TFrame> = scenario::interleave(&mut r, &conns, Mix::Riffle);
        for (i, f) in hostile_frames(&mut r, 4).into_iter().enumerate() {
            let pos = r.usize(trace.len() + 1);
            trace.insert(pos, TFrame { at_ms: scenario::T0 + i as u64, conn: usize::MAX, frame: f });
        }
        // a sixth of the traces come from a trunk or mirror port: (some of) their Ethernet frames
        // carry an 802.1Q / 802.1ad tag in front of the EtherType.  Whatever the analyzers make
        // of such frames, the unified one must make the same of them as the protocol analyzers.
        let vlan_mode = match t % 6 {
            1 => 1 + r.below(3),
            _ => 0,
        };
        if vlan_mode > 0 {
            for f in trace.iter_mut() {
                let b = &mut f.frame;
                let is_eth_ip = b.len() > 14 && ((b[12] == 0x08 && b[13] == 0x00) || (b[12] == 0x86 && b[13] == 0xdd));
                if !is_eth_ip || (vlan_mode == 2 && r.chance(1, 2)) {
                    continue;
                }
                let tpid: [u8; 2] = if vlan_mode == 3 { [0x88, 0xa8] } else { [0x81, 0x00] };
                let tci = [(r.u8() & 0xef), r.u8()];
                let mut tag = vec![tpid[0], tpid[1], tci[0], tci[1]];
                if vlan_mode == 3 {
                    // 802.1ad outer tag followed by an 802.1Q inner tag
                    tag.extend_from_slice(&[0x81, 0x00, 0x00, 1 + r.u8() % 200]);
                }
                let tail = b.split_off(12);
                b.extend_from_slice(&tag);
                b.extend_from_slice(&tail);
            }
        }
        if vlan_mode > 0 {
            ctx.bucket(&format!("vlan-tagged-trace/mode{vlan_mode}"));
        }
        let started = std::time::Instant::now();

        // ---- reference: the three protocol analyzers, packet by packet
        // connection capacity: generous, or (a third of the traces) exactly the number of
        // connections in the trace; the TCP analyzer's uptime tracker is sized the way its own
        // capture loop sizes it for that capacity
        let cap = if t % 3 == 0 { nconn } else { 256 };
        let tcp_a = huginn_net_tcp::HuginnNetTcp::new(Some(scenario::db()), cap).expect("tcp");
        let mut tracker = ttl_cache::TtlCache::new(huginn_net_tcp::uptime::tracker_capacity(cap));
        let mut http_a = huginn_net_http::HuginnNetHttp::new(Some(scenario::db()), cap).expect("http");
        let mut reference: Vec<PerPacket> = Vec::new();
        let mut panicked = false;
        for f in &trace {
            huginn_net_tcp::verif_hooks::clock::set_ms(f.at_ms);
            let res = guard(|| {
                let h = http_a.verif_process_packet(&f.frame);
                // the unified analyzer runs TCP analysis only when HTTP analysis accepted the packet
                let tr = if h.is_ok() { Some(tcp_a.verif_process_packet(&f.frame, &mut tracker)) } else { None };
                let l = tls_stateless(&f.frame);
                (h, tr, l)
            });
            match res {
                Err(p) => {
                    ctx.judge(false, &[], "panic in a protocol analyzer", || json!({"panic": p, "frame_hex": hex(&f.frame)}));
                    panicked = true;
                    break;
                }
                Ok((h, tr, l)) => {
                    let accepted = (h.is_ok(), matches!(&tr, Some(Ok(_))), l.is_ok());
                    let mut fields = Vec::new();
                    if let Some(Ok(tr)) = &tr {
                        fields.extend(fields_tcp(tr));
                    }
                    if let Ok(h) = &h {
                        fields.extend(fields_http(h));
                    }
                    if let Ok(Some(lf)) = l {
                        fields.push(lf);
                    }
                    reference.push(PerPacket { accepted, fields });
                }
            }
        }
        if panicked {
            continue;
        }

        // ---- every configuration of the unified analyzer
        for (tcp_on, http_on, tls_on, m_on) in &combos {
            for with_db in [true, false] {
                if !with_db && *m_on && (*tcp_on || *http_on) {
                    // constructor must refuse: database required
                    let cfg = AnalysisConfig { tcp_enabled: *tcp_on, http_enabled: *http_on, tls_enabled: *tls_on, matcher_enabled: *m_on };
                    let refused = HuginnNet::new(None, 256, Some(cfg)).is_err();
                    ctx.judge(refused, &[], "unified analyzer accepted matcher-enabled configuration without a database", || json!({"config": format!("{tcp_on},{http_on},{tls_on},{m_on}")}));
                    continue;
                }
                // quick tier: all-enabled always, the other configurations rotate over traces
                let all = *tcp_on && *http_on && *tls_on && *m_on && with_db;
                if ctx.quick() && !all && (t as usize + (*tcp_on as usize) + 2 * (*http_on as usize) + 4 * (*tls_on as usize) + 8 * (*m_on as usize) + with_db as usize) % 2 != 0 {
                    continue;
                }
                let cfg = AnalysisConfig { tcp_enabled: *tcp_on, http_enabled: *http_on, tls_enabled: *tls_on, matcher_enabled: *m_on };
                let mut u = match HuginnNet::new(if with_db { Some(db) } else { None }, cap, Some(cfg)) {
                    Ok(u) => u,
                    Err(e) => {
                        ctx.judge(false, &[], "unified analyzer refused a valid configuration", || json!({"error": e.to_string()}));
                        continue;
                    }
                };
                let matching = *m_on && with_db;
                for (i, f) in trace.iter().enumerate() {
                    huginn_net_tcp::verif_hooks::clock::set_ms(f.at_ms);
                    let got = match guard(|| u.analyze_tcp(&f.frame)) {
                        Ok(g) => fields_unified(&g),
                        Err(p) => {
                            ctx.judge(false, &[], "panic in the unified analyzer", || json!({"panic": p, "frame_hex": hex(&f.frame)}));
                            break;
                        }
                    };
                    let rp = &reference[i];
                    // the property speaks about packets every ENABLED analyzer accepts (a packet
                    // only the TCP analyzer rejects is still judged when TCP analysis is off)
                    let (h_ok, t_ok, l_ok) = rp.accepted;
                    if (*http_on && !h_ok) || (*tcp_on && !t_ok) || (*tls_on && !l_ok) {
                        continue;
                    }
                    if started.elapsed().as_secs() >= 5 {
                        ctx.inconclusive("trace exceeded 5 s of wall time (TTL caches could have expired)");
                        break;
                    }
                    // expected = reference masked by the configuration
                    let mut problems: Vec<String> = Vec::new();
                    let want: Vec<&Field> = rp.fields.iter().filter(|x| match x.proto { 't' => *tcp_on, 'h' => *http_on, _ => *tls_on }).collect();
                    if want.len() != got.len() || want.iter().zip(got.iter()).any(|(a, b)| a.name != b.name) {
                        problems.push(format!("fields present: expected {:?}, got {:?}", want.iter().map(|x| x.name).collect::<Vec<_>>(), got.iter().map(|x| x.name).collect::<Vec<_>>()));
                    } else {
                        for (a, b) in want.iter().zip(got.iter()) {
                            if a.raw != b.raw {
                                problems.push(format!("{}: raw part differs: expected {} got {}", a.name, a.raw, b.raw));
                            }
                            if matching {
                                if a.matched != b.matched {
                                    problems.push(format!("{}: match part differs: expected {} got {}", a.name, a.matched, b.matched));
                                }
                            } else if !a.matched.is_empty() && !(b.matched.contains("disabled") && b.matched.starts_with("None")) {
                                problems.push(format!("{}: matching disabled but match part is {}", a.name, b.matched));
                            }
                        }
                    }
                    let ok = problems.is_empty();
                    ctx.judge(ok, &[], "unified analyzer result differs from the protocol analyzers' (masked by configuration)", || {
                        json!({"trace": t, "packet": i, "connections": nconn, "capacity": cap, "config": format!("tcp={tcp_on} http={http_on} tls={tls_on} matcher={m_on} db={with_db}"), "frame_hex": hex(&f.frame), "problems": problems})
                    });
                    if !want.is_empty() {
                        ctx.bucket(&format!("{}{}t{}h{}l{}m{}d{}/{}", if vlan_mode > 0 { "vlan/" } else { "" }, if cap == nconn { "tight/" } else { "" }, *tcp_on as u8, *http_on as u8, *tls_on as u8, *m_on as u8, with_db as u8, want.iter().map(|x| x.name).collect::<Vec<_>>().join("+")));
                    }
                }
            }
        }
        if ctx.want_sample() {
            ctx.sample(json!({"trace": t, "frames": trace.len(), "accepted": reference.iter().filter(|p| p.accepted == (true, true, true)).count(), "example_fields": reference.iter().flat_map(|p| p.fields.iter()).take(2).map(|f| format!("{}: {}", f.name, f.raw)).collect::<Vec<_>>()}));
        }
    }
    huginn_net_tcp::verif_hooks::clock::clear();
}

pub fn spec() -> PropSpec {
    PropSpec {
        id: "C20",
        run,
        shards: super::shards_16,
        rule: "seeded traces (handshakes with timestamps, HTTP/1.x and HTTP/2 exchanges, ClientHellos, garbage/truncated connections, plus injected frames: random bytes, invalid flags, non-TCP, truncated, fragments, Fast Open SYNs carrying a ClientHello or a request; connection capacity 256 or exactly the number of connections) are fed packet by packet, with identical virtual arrival times, to the TCP and HTTP analyzers (own state) and the stateless TLS analysis, and to the unified analyzer in each of the 16 switch combinations with and without database; for every packet all reference analyzers accept, the unified result must contain exactly the enabled protocols' fields with identical raw parts, identical labels/qualities when matching is on and 'disabled' qualities without labels when it is off; a bucket is a distinct (configuration, set of fields present) pair",
        assumptions: &[
            "a sixth of the traces carry 802.1Q / 802.1ad tags on all or half of their Ethernet frames; whatever the protocol analyzers make of a tagged frame is the expectation for the unified one",
            "packets that some protocol analyzer rejects are not compared (the property is conditioned on acceptance); the HTTP diagnosis field is not judged when matching is disabled",
            "the unified analyzer applies HTTP, then TCP, then TLS analysis and stops at the first error; the reference feeds the TCP tracker only when HTTP analysis accepted the packet, mirroring that order",
            "traces are far shorter than the TTLs; slower ones are discarded as inconclusive",
        ],
        parent_stage: None,
    }
}
