//! C13 — every bundled signature is reachable by the traffic it describes.
//!
//! For each TCP and HTTP signature of a database (the bundled one, and a small generated one to show
//! the check is not specific to it) the harness synthesises conforming traffic under the p0f field
//! definitions, pushes it through the packet-level analyzers and requires the best match to be the
//! signature's own label or an earlier entry the traffic conforms to equally (spec-level
//! conformance predicate below).  Dead signatures of the unchanged tree are known findings keyed on
//! the exact `table|label|signature|variant-class` item.

use crate::pkt::{self, flags, Endpoints, Ip, Link, Script, Tcp, V4, V6};
use crate::rt::{guard, hex, Ctx, PropSpec, Rng};
use crate::scenario;
use huginn_net_db::http::{Header, Signature as HSig, Version};
use huginn_net_db::tcp::{IpVersion, PayloadSize, Quirk, Signature as TSig, TcpOption, Ttl, WindowSize};
use huginn_net_db::{Database, Label};
use serde_json::json;
use std::collections::BTreeMap;

pub const F_DEAD: &str = "C13-dead-signatures";

fn label_text(l: &Label) -> String {
    format!("{}:{}:{}:{}", if l.ty == huginn_net_db::Type::Specified { "s" } else { "g" }, l.class.clone().unwrap_or_else(|| "!".into()), l.name, l.flavor.clone().unwrap_or_default())
}

// ------------------------------------------------------------------------------------------------
// TCP: synthesis of a conforming segment from a signature, and spec-level conformance
// ------------------------------------------------------------------------------------------------

#[derive(Clone, Debug)]
pub struct TcpModel {
    pub v4: bool,
    pub ttl: u8,
    pub olen: u8,
    pub mss: Option<u16>,
    pub ws: Option<u8>,
    pub window: u16,
    pub layout: Vec<TcpOption>,
    pub quirks: Vec<Quirk>,
    pub payload: bool,
    pub has_ts: bool,
}

pub struct Built {
    pub frame: Vec<u8>,
    pub model: TcpModel,
}

fn has(q: &[Quirk], x: &Quirk) -> bool {
    q.contains(x)
}

/// window value realising the signature's window form for the given MSS (None = impossible here)
fn realise_window(ws: &WindowSize, mss: Option<u16>, r: &mut Rng, v4: bool, has_ts: bool, total_hdr: u16) -> Option<u16> {
    use crate::tcpref::ref_window;
    let check = |w: u16, want: &str| ref_window(w, mss, has_ts, v4, total_hdr) == want;
    match ws {
        WindowSize::Any => Some(*r.pick(&[5840u16, 65535, 8192, 29200, 1, 0])),
        WindowSize::Value(v) => Some(*v),
        WindowSize::Mss(k) => {
            let m = mss? as u32;
            let w = m * (*k as u32);
            if w <= 65535 { Some(w as u16) } else { None }
        }
        WindowSize::Mtu(k) => {
            for base in [1500u32, mss? as u32 + total_hdr as u32] {
                let w = base * (*k as u32);
                if w <= 65535 && check(w as u16, &format!("mtu*{k}")) {
                    return Some(w as u16);
                }
            }
            None
        }
        WindowSize::Mod(n) => {
            if *n == 0 {
                return None;
            }
            for mult in [1u32, 3, 5, 7, 9, 11, 13] {
                let w = *n as u32 * mult;
                if w <= 65535 && check(w as u16, &format!("%{n}")) {
                    return Some(w as u16);
                }
            }
            let w = *n as u32;
            if w <= 65535 { Some(w as u16) } else { None }
        }
    }
}

/// Build a segment conforming to `sig` (SYN for requests, SYN+ACK for responses).
pub fn build_tcp(sig: &TSig, request: bool, v4: bool, hops: u8, r: &mut Rng, ep: &Endpoints) -> Option<Built> {
    let q = &sig.quirks;
    // initial TTL and hop count
    let ttl: u8 = match sig.ittl {
        Ttl::Value(n) => n.checked_sub(hops)?,
        Ttl::Distance(t, _) => t,
        Ttl::Guess(n) => n.checked_sub(hops)?,
        Ttl::Bad(n) => 1 + r.below(n.max(1) as u64) as u8, // random TTL not above the maximum
    };
    if ttl == 0 {
        return None;
    }
    // option bytes from the layout
    // a wildcard MSS takes common values; for `mss*N` windows also small legal ones (below 100 the
    // analyzer keeps the window as a raw value and compares it with N x the observed MSS)
    let small_mss = matches!(sig.wsize, WindowSize::Mss(_)) && r.chance(1, 5);
    let free_mss = if small_mss { *r.pick(&[64u16, 88, 99, 100, 48]) } else { *r.pick(&[1460u16, 1400, 1380, 536, 1452]) };
    let mss = if sig.olayout.contains(&TcpOption::Mss) { Some(sig.mss.unwrap_or(free_mss)) } else { None };
    // a wildcard scale admits every shift count the quirk list allows: 0..=14 without `exws`,
    // 15..=255 with it (the bounds themselves are drawn often)
    let ws = if sig.olayout.contains(&TcpOption::Ws) {
        Some(sig.wscale.unwrap_or_else(|| {
            if has(q, &Quirk::ExcessiveWindowScaling) {
                *r.pick(&[15u8, 16, 64, 255, 15])
            } else {
                match r.below(4) {
                    0 => 14,
                    1 => 0,
                    _ => r.below(15) as u8,
                }
            }
        }))
    } else {
        None
    };
    if sig.mss.is_some() && mss.is_none() && sig.mss != Some(0) {
        return None; // signature fixes an MSS but has no MSS option
    }
    let mut o: Vec<u8> = Vec::new();
    let has_ts = sig.olayout.contains(&TcpOption::TS);
    for (i, opt) in sig.olayout.iter().enumerate() {
        match opt {
            TcpOption::Eol(n) => {
                o.push(0);
                let fill = if has(q, &Quirk::TrailinigNonZero) { 0x01 } else { 0x00 };
                for _ in 0..*n {
                    o.push(fill);
                }
                if i + 1 != sig.olayout.len() {
                    return None;
                }
            }
            TcpOption::Nop => o.push(1),
            TcpOption::Mss => o.extend(pkt::opt_mss(mss?)),
            TcpOption::Ws => o.extend(pkt::opt_ws(ws?)),
            TcpOption::Sok => o.extend(pkt::opt_sok()),
            TcpOption::Sack => o.extend(pkt::opt_sack(1)),
            TcpOption::TS => {
                let tsval = if has(q, &Quirk::OwnTimestampZero) { 0 } else { 1 + r.u32() % 100000 };
                let tsecr = if has(q, &Quirk::PeerTimestampNonZero) { 7 } else if request { 0 } else { 5 };
                o.extend(pkt::opt_ts(tsval, tsecr));
            }
            TcpOption::Unknown(k) => o.extend(pkt::opt_unknown(*k, &[])),
        }
    }
    if o.len() % 4 != 0 || o.len() > 40 {
        return None; // layout cannot be put on the wire without extra padding
    }
    if has(q, &Quirk::ExcessiveWindowScaling) != ws.map(|w| w > 14).unwrap_or(false) {
        return None;
    }
    let ip_hdr: u16 = if v4 { 20 + sig.olen as u16 } else { 40 };
    let total_hdr = ip_hdr + 20 + o.len() as u16;
    let window = realise_window(&sig.wsize, mss, r, v4, has_ts, total_hdr)?;
    let payload = match sig.pclass {
        PayloadSize::Zero => false,
        PayloadSize::NonZero => true,
        PayloadSize::Any => r.chance(1, 4),
    };
    let fl = if request { flags::SYN } else { flags::SYN | flags::ACK }
        | if has(q, &Quirk::Push) { flags::PSH } else { 0 }
        | if has(q, &Quirk::Urg) { flags::URG } else { 0 };
    let ecn_ip = has(q, &Quirk::Ecn);
    let tcp = Tcp {
        sport: if request { ep.cport } else { ep.sport },
        dport: if request { ep.sport } else { ep.cport },
        seq: if has(q, &Quirk::SeqNumZero) { 0 } else { 1 + r.u32() % 0x7fff_ffff },
        ack: if request {
            if has(q, &Quirk::AckNumNonZero) { 99 } else { 0 }
        } else if has(q, &Quirk::AckNumZero) {
            0
        } else {
            1 + r.u32() % 0x7fff_ffff
        },
        flags: fl,
        window,
        urg: if has(q, &Quirk::NonZeroURG) { 5 } else { 0 },
        options: o,
        payload: if payload { b"x".to_vec() } else { vec![] },
        ..Default::default()
    };
    let ip = if v4 {
        if has(q, &Quirk::FlowID) {
            return None;
        }
        if sig.olen % 4 != 0 || sig.olen > 40 {
            return None;
        }
        let df = has(q, &Quirk::Df);
        let id = if df {
            if has(q, &Quirk::NonZeroID) { 0x1234 } else { 0 }
        } else if has(q, &Quirk::ZeroID) {
            0
        } else {
            0x4321
        };
        if !df && has(q, &Quirk::NonZeroID) {
            return None;
        }
        if df && has(q, &Quirk::ZeroID) {
            return None;
        }
        let (src, dst) = match (ep.ip_hdr(request, 64), ()) {
            (Ip::V4(h), _) => (h.src, h.dst),
            _ => return None,
        };
        Ip::V4(V4 {
            src,
            dst,
            ttl,
            // the DiffServ code point is no part of any signature: AF11, AF21, AF41, EF, CS1, any
            tos: (*r.pick(&[0u8, 0, 0, 0x0a, 0x12, 0x22, 0x2e, 0x08, 0x3f, 0x01]) << 2) | if ecn_ip { 0x02 } else { 0 },
            id,
            flags: if df { 0b010 } else { 0 } | if has(q, &Quirk::MustBeZero) { 0b100 } else { 0 },
            options: vec![1; sig.olen as usize],
            ..Default::default()
        })
    } else {
        if sig.olen != 0 || has(q, &Quirk::MustBeZero) {
            return None;
        }
        // df / id+ / id- are ignored for IPv6 by definition: a signature listing them cannot be
        // produced by an IPv6 packet under exact quirk comparison, so it is not an IPv6 instance
        if has(q, &Quirk::Df) || has(q, &Quirk::NonZeroID) || has(q, &Quirk::ZeroID) {
            return None;
        }
        Ip::V6(V6 {
            src: "2001:db8::10".parse().unwrap(),
            dst: "2001:db8::20".parse().unwrap(),
            hop: ttl,
            tclass: (*r.pick(&[0u8, 0, 0, 0x0a, 0x12, 0x22, 0x2e, 0x08, 0x3f, 0x01]) << 2) | if ecn_ip { 0x02 } else { 0 },
            flow: if has(q, &Quirk::FlowID) { 0x12345 } else { 0 },
            ..Default::default()
        })
    };
    if has(q, &Quirk::OptBad) {
        return None;
    }
    let frame = pkt::build(Link::Ethernet, &ip, &tcp);
    Some(Built {
        frame,
        model: TcpModel { v4, ttl, olen: sig.olen, mss, ws, window, layout: sig.olayout.clone(), quirks: sig.quirks.clone(), payload, has_ts },
    })
}

/// p0f-level conformance of a generated packet model to a signature (used for earlier entries).
pub fn conforms_tcp(m: &TcpModel, s: &TSig) -> bool {
    let ver_ok = match s.version {
        IpVersion::Any => true,
        IpVersion::V4 => m.v4,
        IpVersion::V6 => !m.v4,
    };
    let ttl_ok = match s.ittl {
        Ttl::Value(n) | Ttl::Guess(n) => m.ttl <= n && n - m.ttl <= 35,
        Ttl::Distance(t, _) => m.ttl == t,
        Ttl::Bad(n) => m.ttl <= n,
    };
    let mss_ok = s.mss.is_none() || s.mss == m.mss || (s.mss == Some(0) && m.mss.is_none());
    let ws_ok = s.wscale.is_none() || s.wscale == m.ws;
    let win_ok = match s.wsize {
        WindowSize::Any => true,
        WindowSize::Value(v) => v == m.window,
        WindowSize::Mss(k) => m.mss.map(|x| x as u32 * k as u32 == m.window as u32).unwrap_or(false),
        WindowSize::Mtu(k) => k != 0 && m.window as u32 % k as u32 == 0 && {
            let b = m.window as u32 / k as u32;
            b == 1500 || m.mss.map(|x| b >= x as u32 + 40 && b <= x as u32 + 100).unwrap_or(false)
        },
        WindowSize::Mod(n) => n != 0 && m.window % n == 0,
    };
    let mut a = s.quirks.iter().map(|q| q.to_string()).collect::<Vec<_>>();
    let mut b = m.quirks.iter().map(|q| q.to_string()).collect::<Vec<_>>();
    a.sort();
    b.sort();
    let pc_ok = match s.pclass {
        PayloadSize::Any => true,
        PayloadSize::Zero => !m.payload,
        PayloadSize::NonZero => m.payload,
    };
    ver_ok && ttl_ok && s.olen == m.olen && mss_ok && ws_ok && win_ok && s.olayout == m.layout && a == b && pc_ok
}

// ------------------------------------------------------------------------------------------------
// HTTP
// ------------------------------------------------------------------------------------------------

#[derive(Clone, Debug)]
pub struct HttpModel {
    pub v11: bool,
    pub headers: Vec<(String, String)>,
    pub sw: String,
}

fn filler_value(name: &str, sig_value: Option<&str>, superstring: bool, sw: &str, request: bool) -> String {
    match sig_value {
        Some(v) if !superstring => v.to_string(),
        Some(v) => {
            // a realistic value containing the listed substring
            if v.starts_with(',') || v.starts_with(';') {
                format!("text/html{v}0.8")
            } else {
                format!("{v};x=1")
            }
        }
        None => match name {
            "Host" => "www.example.org".to_string(),
            "User-Agent" if request => sw.to_string(),
            "Server" if !request => sw.to_string(),
            "Date" => "Tue, 14 Nov 2023 22:13:20 GMT".to_string(),
            "Content-Type" => "text/html".to_string(),
            "Content-Length" => "0".to_string(),
            "Accept-Language" => "en-US".to_string(),
            _ => "v".to_string(),
        },
    }
}

pub fn build_http(sig: &HSig, request: bool, v11: bool, include_optional: bool, superstring: bool, full_sw: bool) -> (Vec<u8>, HttpModel) {
    build_http_with(sig, request, v11, include_optional, superstring, full_sw, 0)
}

/// `alt` varies what no p0f HTTP signature constrains: the request method / the response status.
pub fn build_http_with(sig: &HSig, request: bool, v11: bool, include_optional: bool, superstring: bool, full_sw: bool, alt: u64) -> (Vec<u8>, HttpModel) {
    let sw = if full_sw && !sig.expsw.is_empty() { format!("Mozilla/5.0 (X11) {} like", sig.expsw) } else if sig.expsw.is_empty() { "Thing/1.0".to_string() } else { sig.expsw.clone() };
    let method = ["GET", "HEAD", "POST", "OPTIONS"][(alt % 4) as usize];
    let status = ["200 OK", "404 Not Found", "301 Moved Permanently", "500 Internal Server Error"][(alt % 4) as usize];
    let mut s = if request { format!("{method} /index.html HTTP/1.{}\r\n", if v11 { 1 } else { 0 }) } else { format!("HTTP/1.{} {status}\r\n", if v11 { 1 } else { 0 }) };
    let mut headers = Vec::new();
    let sw_header = if request { "User-Agent" } else { "Server" };
    let mut has_sw = false;
    for h in &sig.horder {
        if h.optional && !include_optional {
            continue;
        }
        if h.name.is_empty() {
            continue;
        }
        let v = filler_value(&h.name, h.value.as_deref(), superstring, &sw, request);
        if h.name == sw_header {
            has_sw = true;
        }
        s.push_str(&format!("{}: {}\r\n", h.name, v));
        headers.push((h.name.clone(), v));
    }
    let _ = has_sw;
    s.push_str("\r\n");
    // line ends: CRLF, or (a third of the variants) the bare LF some clients and servers send
    // and the analyzer accepts -- p0f signatures say nothing about line ends
    if (alt / 4) % 3 == 2 {
        s = s.replace("\r\n", "\n");
    }
    (s.into_bytes(), HttpModel { v11, headers, sw })
}

/// p0f-level conformance of a generated message to a signature
pub fn conforms_http(m: &HttpModel, s: &HSig, request: bool) -> bool {
    let ver_ok = match s.version {
        Version::Any => true,
        Version::V10 => !m.v11,
        Version::V11 => m.v11,
        _ => false,
    };
    if !ver_ok {
        return false;
    }
    // Cookie / Referer are lifted out of the request header list by the analyzer
    let obs: Vec<&(String, String)> = m.headers.iter().filter(|(n, _)| !(request && (n.eq_ignore_ascii_case("cookie") || n.eq_ignore_ascii_case("referer")))).collect();
    let mut i = 0usize;
    for h in &s.horder {
        if h.name.is_empty() {
            continue;
        }
        if request && (h.name.eq_ignore_ascii_case("cookie") || h.name.eq_ignore_ascii_case("referer")) {
            if h.optional {
                continue;
            }
            return false;
        }
        if i < obs.len() && obs[i].0 == h.name {
            if let Some(v) = &h.value {
                if !obs[i].1.contains(v.as_str()) {
                    return false;
                }
            }
            i += 1;
        } else if !h.optional {
            return false;
        }
    }
    if i != obs.len() {
        return false;
    }
    for a in &s.habsent {
        if m.headers.iter().any(|(n, _)| n.eq_ignore_ascii_case(&a.name)) {
            return false;
        }
    }
    s.expsw.is_empty() || m.sw.contains(&s.expsw)
}

// ------------------------------------------------------------------------------------------------
// the check
// ------------------------------------------------------------------------------------------------

struct Outcome {
    ok: u64,
    tried: u64,
    witness: Option<serde_json::Value>,
}

fn finding_items() -> Vec<String> {
    // items are listed in known_findings.json under the finding's "items" array
    let path = format!("{}/known_findings.json", crate::rt::verif_dir());
    let Ok(text) = std::fs::read_to_string(path) else { return vec![] };
    let Ok(v) = serde_json::from_str::<serde_json::Value>(&text) else { return vec![] };
    let mut out = Vec::new();
    if let Some(list) = v.get("findings").and_then(|f| f.as_array()) {
        for e in list {
            if e.get("id").and_then(|x| x.as_str()) == Some(F_DEAD) && e.get("status").and_then(|x| x.as_str()) == Some("open") {
                if let Some(items) = e.get("items").and_then(|x| x.as_array()) {
                    for i in items {
                        if let Some(s) = i.as_str() {
                            out.push(s.to_string());
                        }
                    }
                }
            }
        }
    }
    out
}

pub fn check_db(ctx: &mut Ctx, db: &'static Database, db_name: &str, items: &[String]) {
    let variants = ctx.scale(2_000, 12_000, 2);
    let tcp_a = huginn_net_tcp::HuginnNetTcp::new(Some(std::sync::Arc::new(clone_db(db))), 64).expect("tcp analyzer");
    let mut idx = 0u64;
    // ---------------- TCP tables
    for (table, request, entries) in [("tcp:request", true, &db.tcp_request.entries), ("tcp:response", false, &db.tcp_response.entries)] {
        let flat: Vec<(usize, &Label, &TSig)> = entries.iter().enumerate().flat_map(|(li, (l, sigs))| sigs.iter().map(move |s| (li, l, s))).collect();
        for (pos, (_li, label, sig)) in flat.iter().enumerate() {
            idx += 1;
            if !ctx.mine(idx) {
                continue;
            }
            let mut r = ctx.rng_global(13, idx);
            let mut by_class: BTreeMap<String, Outcome> = BTreeMap::new();
            for v in 0..variants {
                let v4 = match sig.version {
                    IpVersion::V4 => true,
                    IpVersion::V6 => false,
                    IpVersion::Any => v % 2 == 0,
                };
                let hops = if v % 3 == 0 { 0 } else { 1 + r.below(30) as u8 };
                let ep = Endpoints::v4([10, 3, (idx >> 8) as u8, idx as u8], 1025 + ((v * 13) % 60000) as u16, [198, 51, 100, 7], 80);
                let Some(b) = build_tcp(sig, request, v4, hops, &mut r, &ep) else { continue };
                let class = format!("{},{}", if v4 { "ipv4" } else { "ipv6" }, if hops == 0 { "hops=0" } else { "hops>0" });
                let mut tracker = ttl_cache::TtlCache::new(16);
                let res = guard(|| tcp_a.verif_process_packet(&b.frame, &mut tracker));
                let matched: Option<String> = match &res {
                    Ok(Ok(t)) => {
                        let os = if request { t.syn.as_ref().map(|s| &s.os_matched) } else { t.syn_ack.as_ref().map(|s| &s.os_matched) };
                        os.and_then(|o| o.os.as_ref()).map(|o| format!("{}|{:?}|{:?}", o.name, o.family, o.variant))
                    }
                    _ => None,
                };
                let own = format!("{}|{:?}|{:?}", label.name, label.class, label.flavor);
                // acceptable: own label, or the label of an earlier entry the packet conforms to
                let mut acceptable = matched.as_deref() == Some(own.as_str());
                if !acceptable {
                    if let Some(mt) = &matched {
                        acceptable = flat[..pos].iter().any(|(_, l2, s2)| &format!("{}|{:?}|{:?}", l2.name, l2.class, l2.flavor) == mt && conforms_tcp(&b.model, s2));
                    }
                }
                let o = by_class.entry(class).or_insert(Outcome { ok: 0, tried: 0, witness: None });
                o.tried += 1;
                if acceptable {
                    o.ok += 1;
                } else if o.witness.is_none() {
                    o.witness = Some(json!({"frame_hex": hex(&b.frame), "best_match": matched, "model": format!("{:?}", b.model)}));
                }
            }
            report(ctx, db_name, table, label, &sig.to_string(), by_class, items);
        }
    }
    // ---------------- HTTP tables
    // "the analyzer" is also the parallel one: two variants per signature are replayed, frame by
    // frame (each awaited at the worker's processed point), through an HTTP worker pool loaded
    // with the same database, on connections whose client and server share one address (a host
    // talking to itself, a loopback capture) -- "any address and port choice".  The pool has to do
    // as well as the sequential analyzer did on the same message.
    let pool_lane: Option<crate::pool::Handle> = if ctx.miri() || db_name != "bundled" {
        None
    } else {
        crate::pool::install_hooks();
        crate::pool::reset_log(0, 0);
        let cfg = crate::pool::PoolCfg { workers: 4, queue: 64, batch: 4, timeout_ms: 1, max_conn: 64, with_db: true };
        crate::pool::Handle::new(crate::pool::PoolKind::Http, &cfg, crate::pool::Filters::none()).ok()
    };
    let mut pool_queued: u64 = 0;
    for (table, request, entries) in [("http:request", true, &db.http_request.entries), ("http:response", false, &db.http_response.entries)] {
        let flat: Vec<(&Label, &HSig)> = entries.iter().flat_map(|(l, sigs)| sigs.iter().map(move |s| (l, s))).collect();
        for (pos, (label, sig)) in flat.iter().enumerate() {
            idx += 1;
            if !ctx.mine(idx) {
                continue;
            }
            let mut r = ctx.rng_global(1313, idx);
            let mut by_class: BTreeMap<String, Outcome> = BTreeMap::new();
            for v in 0..16u64 {
                let v11 = match sig.version {
                    Version::V10 => false,
                    Version::V11 => true,
                    _ => v % 2 == 0,
                };
                let include_optional = v & 2 != 0;
                let superstring = v & 4 != 0;
                let full_sw = v & 8 != 0;
                // method / status rotate over the variants (signatures do not constrain them)
                let (bytes, model) = build_http_with(sig, request, v11, include_optional, superstring, full_sw, (v >> 1) + idx);
                let class = format!("{},{}", if superstring { "values-as-substrings" } else { "values-exact" }, if full_sw { "software-token-inside-longer-string" } else { "software-string-exact" });
                // packet level: scripted connection
                let ep = Endpoints::v4([10, 4, (idx >> 8) as u8, idx as u8], 2000 + v as u16, [198, 51, 100, 9], 80);
                let mut s = Script::new(ep, Link::Ethernet, r.u32(), r.u32());
                s.handshake();
                if request {
                    s.c_data(&bytes);
                } else {
                    // what the client did before the response is no part of the response's
                    // conformance: an ordinary request, no visible request at all (one-directional
                    // tap), a request with a method outside the analyzer's list, or a request
                    // that only arrives after the response
                    match (v + idx) % 4 {
                        0 => {
                            s.c_data(b"GET / HTTP/1.1\r\nHost: a\r\n\r\n");
                            s.s_data(&bytes);
                        }
                        1 => {
                            s.s_data(&bytes);
                        }
                        2 => {
                            s.c_data(b"PURGE /cached HTTP/1.1\r\nHost: a\r\n\r\n");
                            s.s_data(&bytes);
                        }
                        _ => {
                            s.s_data(&bytes);
                            s.c_data(b"GET / HTTP/1.1\r\nHost: a\r\n\r\n");
                        }
                    }
                }
                let mut a = huginn_net_http::HuginnNetHttp::new(Some(scenario::db()), 16).expect("http analyzer");
                let mut matched: Option<String> = None;
                let mut reported = false;
                for f in &s.frames {
                    if let Ok(Ok(res)) = guard(|| a.verif_process_packet(f)) {
                        if request {
                            if let Some(q) = res.http_request {
                                reported = true;
                                matched = q.browser_matched.browser.map(|b| format!("{}|{:?}|{:?}", b.name, b.family, b.variant));
                            }
                        } else if let Some(q) = res.http_response {
                            reported = true;
                            matched = q.web_server_matched.web_server.map(|b| format!("{}|{:?}|{:?}", b.name, b.family, b.variant));
                        }
                    }
                }
                let own = format!("{}|{:?}|{:?}", label.name, label.class, label.flavor);
                let mut acceptable = matched.as_deref() == Some(own.as_str());
                if !acceptable {
                    if let Some(mt) = &matched {
                        acceptable = flat[..pos].iter().any(|(l2, s2)| &format!("{}|{:?}|{:?}", l2.name, l2.class, l2.flavor) == mt && conforms_http(&model, s2, request));
                    }
                }
                let o = by_class.entry(class).or_insert(Outcome { ok: 0, tried: 0, witness: None });
                o.tried += 1;
                if acceptable {
                    o.ok += 1;
                } else if o.witness.is_none() {
                    o.witness = Some(json!({"message": String::from_utf8_lossy(&bytes), "reported": reported, "best_match": matched}));
                }
                // ---- pool lane (only where the sequential analyzer was right: differential)
                if let (Some(h), true, true) = (pool_lane.as_ref(), acceptable, v == 3 || v == 12) {
                    let addr = if v == 3 { [127, 0, 0, 1] } else { [10, 4, (idx >> 8) as u8, idx as u8] };
                    let cport = 1025 + ((idx * 977 + v * 131) % 60000) as u16;
                    let ep = Endpoints::v4(addr, cport, addr, 80);
                    let mut s2 = Script::new(ep, Link::Ethernet, r.u32(), r.u32());
                    s2.handshake();
                    if request {
                        s2.c_data(&bytes);
                    } else {
                        s2.c_data(b"GET / HTTP/1.1\r\nHost: a\r\n\r\n");
                        s2.s_data(&bytes);
                    }
                    let mut lost = 0u32;
                    for f in &s2.frames {
                        if !h.dispatch(f.clone()) {
                            lost += 1;
                            continue;
                        }
                        pool_queued += 1;
                        if h.wait_drain(pool_queued, std::time::Duration::from_secs(30)) != crate::pool::Drain::Complete {
                            pool_queued = crate::pool::log().processed.load(std::sync::atomic::Ordering::SeqCst);
                            lost += 1;
                        }
                    }
                    let mut pm: Option<String> = None;
                    let mut preported = false;
                    if let crate::pool::Handle::Http(_, rx) = h {
                        for res in rx.try_iter() {
                            if request {
                                if let Some(q) = res.http_request {
                                    preported = true;
                                    pm = q.browser_matched.browser.map(|b| format!("{}|{:?}|{:?}", b.name, b.family, b.variant));
                                }
                            } else if let Some(q) = res.http_response {
                                preported = true;
                                pm = q.web_server_matched.web_server.map(|b| format!("{}|{:?}|{:?}", b.name, b.family, b.variant));
                            }
                        }
                    }
                    let o = by_class.entry("parallel analyzer (4 workers), client and server on one address".to_string()).or_insert(Outcome { ok: 0, tried: 0, witness: None });
                    o.tried += 1;
                    if pm == matched {
                        o.ok += 1;
                    } else if o.witness.is_none() {
                        o.witness = Some(json!({"message": String::from_utf8_lossy(&bytes), "endpoints": format!("{}:{} <-> {}:80", std::net::Ipv4Addr::from(addr), cport, std::net::Ipv4Addr::from(addr)),
                                                "reported_by_pool": preported, "best_match_pool": pm, "best_match_sequential": matched, "frames_not_processed": lost}));
                    }
                }
            }
            report(ctx, db_name, table, label, &sig.to_string(), by_class, items);
        }
    }
    if let Some(h) = pool_lane {
        h.shutdown();
        let _ = crate::pool::take_events();
    }
}

fn report(ctx: &mut Ctx, db_name: &str, table: &str, label: &Label, sig: &str, by_class: BTreeMap<String, Outcome>, items: &[String]) {
    if by_class.is_empty() {
        // no conforming traffic could be constructed at all (e.g. layout not 4-byte aligned)
        let item = format!("{table}|{}|{sig}|unconstructible", label_text(label));
        let listed = items.contains(&item);
        ctx.judge_explained(if listed { Some(vec![F_DEAD]) } else { None }, "no conforming traffic can be constructed for a bundled signature", || json!({"database": db_name, "item": item}));
        return;
    }
    for (class, o) in by_class {
        let item = format!("{table}|{}|{sig}|{class}", label_text(label));
        let all_ok = o.ok == o.tried;
        ctx.evals(o.tried.saturating_sub(1));
        if !all_ok {
            if let Ok(path) = std::env::var("HV_C13_DUMP") {
                use std::io::Write;
                if let Ok(mut f) = std::fs::OpenOptions::new().create(true).append(true).open(format!("{path}.{}", ctx.shard)) {
                    let _ = writeln!(f, "{}", json!({"item": item, "tried": o.tried, "ok": o.ok, "witness": o.witness}));
                }
            }
        }
        let listed = db_name == "bundled" && items.contains(&item);
        let explained = if all_ok { Some(vec![]) } else if listed { Some(vec![F_DEAD]) } else { None };
        ctx.judge_explained(explained, "conforming traffic is not matched to the signature's label (nor to an earlier entry it conforms to)", || {
            json!({"database": db_name, "item": item, "variants_tried": o.tried, "variants_matched": o.ok, "witness": o.witness})
        });
        if all_ok && listed {
            ctx.note(&format!("listed as dead but reachable now: {item}"));
        }
        ctx.bucket(&format!("{db_name}/{table}/{}/{}", label.name, class));
        ctx.class(&format!("{db_name}/{table}/{}", if all_ok { "reachable" } else { "dead" }));
    }
}

/// The database text with every `sig` line of 1..3 seeded labels per signature section commented
/// out (the labels stay, without signatures; never only the last label of a section).  Returns
/// the text and the stripped labels.
pub fn strip_label_signatures(text: &str, r: &mut Rng) -> (String, Vec<String>) {
    let mut section = String::new();
    let mut counts: BTreeMap<String, usize> = BTreeMap::new();
    for l in text.lines() {
        let t = l.trim();
        if t.starts_with('[') {
            section = t.to_string();
        } else if t.starts_with("label") && (section.starts_with("[tcp:") || section.starts_with("[http:")) {
            *counts.entry(section.clone()).or_insert(0) += 1;
        }
    }
    let mut victims: BTreeMap<String, Vec<usize>> = BTreeMap::new();
    for (sec, n) in &counts {
        let k = 1 + r.usize(3);
        // never the last label only: the labels after a stripped one are the interesting ones
        victims.insert(sec.clone(), (0..k).map(|_| r.usize((*n).max(2) - 1)).collect());
    }
    let mut out = String::with_capacity(text.len() + 4096);
    let mut ord: isize = -1;
    let mut stripped_labels: Vec<String> = Vec::new();
    section.clear();
    for l in text.lines() {
        let t = l.trim();
        if t.starts_with('[') {
            section = t.to_string();
            ord = -1;
        }
        let in_sig_section = section.starts_with("[tcp:") || section.starts_with("[http:");
        if in_sig_section && t.starts_with("label") {
            ord += 1;
            if victims.get(&section).map(|v| v.contains(&(ord as usize))).unwrap_or(false) {
                stripped_labels.push(format!("{section} {t}"));
            }
        }
        let victim = in_sig_section && ord >= 0 && victims.get(&section).map(|v| v.contains(&(ord as usize))).unwrap_or(false);
        if victim && t.starts_with("sig") {
            out.push_str("; ");
        }
        out.push_str(l);
        out.push('\n');
    }
    (out, stripped_labels)
}

/// "Any database in the same format": databases derived from the bundled text by commenting out
/// every `sig` line of a few seeded labels (the labels stay, without signatures).  Removing other
/// labels' signatures only removes competitors, so traffic that the bundled database matches to
/// its signature's OWN label must be matched to that label by the derived database too.
fn derived_dbs(ctx: &mut Ctx) {
    if ctx.miri() {
        return;
    }
    let Ok(text) = std::fs::read_to_string("/repo/huginn-net-db/config/p0f.fp") else {
        ctx.inconclusive("bundled p0f.fp not readable");
        return;
    };
    let bundled = scenario::db();
    let rounds = ctx.scale(1, 8, 0);
    for round in 0..rounds {
        let mut r = ctx.rng(1390 + round);
        let (out, stripped_labels) = strip_label_signatures(&text, &mut r);
        let derived = match guard(|| out.parse::<Database>()) {
            Ok(Ok(d)) => std::sync::Arc::new(d),
            other => {
                ctx.inconclusive("a database derived from the bundled text (labels without signatures) does not load: C06 matter");
                ctx.note(&format!("derived database {round}: {:?}", other.map(|r| r.map(|_| ()).map_err(|e| e.to_string()))));
                continue;
            }
        };
        let tcp_b = huginn_net_tcp::HuginnNetTcp::new(Some(bundled.clone()), 64).expect("tcp analyzer");
        let tcp_d = huginn_net_tcp::HuginnNetTcp::new(Some(derived.clone()), 64).expect("tcp analyzer");
        let lab = |l: &Label| format!("{}|{:?}|{:?}", l.name, l.class, l.flavor);
        let mut idx = 0u64;
        let (mut kept, mut compared) = (0u64, 0u64);
        for (table, request, entries) in [("tcp:request", true, &derived.tcp_request.entries), ("tcp:response", false, &derived.tcp_response.entries)] {
            for (label, sigs) in entries.iter() {
                for sig in sigs {
                    idx += 1;
                    for v in 0..ctx.scale(4, 12, 0) {
                        let v4 = match sig.version {
                            IpVersion::V4 => true,
                            IpVersion::V6 => false,
                            IpVersion::Any => v % 2 == 0,
                        };
                        let hops = if v % 3 == 0 { 0 } else { 1 + r.below(30) as u8 };
                        let ep = Endpoints::v4([10, 5, (idx >> 8) as u8, idx as u8], 1025 + ((v * 13) % 60000) as u16, [198, 51, 100, 7], 80);
                        let Some(b) = build_tcp(sig, request, v4, hops, &mut r, &ep) else { continue };
                        let run = |a: &huginn_net_tcp::HuginnNetTcp| -> Result<Option<String>, String> {
                            let mut tracker = ttl_cache::TtlCache::new(16);
                            guard(|| a.verif_process_packet(&b.frame, &mut tracker)).map(|res| match res {
                                Ok(t) => {
                                    let os = if request { t.syn.as_ref().map(|s| &s.os_matched) } else { t.syn_ack.as_ref().map(|s| &s.os_matched) };
                                    os.and_then(|o| o.os.as_ref()).map(|o| format!("{}|{:?}|{:?}", o.name, o.family, o.variant))
                                }
                                Err(_) => None,
                            })
                        };
                        let own = lab(label);
                        compared += 1;
                        if run(&tcp_b) != Ok(Some(own.clone())) {
                            continue; // not matched to its own label by the bundled database: judged by the main stage
                        }
                        kept += 1;
                        let got = run(&tcp_d);
                        ctx.judge(got == Ok(Some(own.clone())), &[], "a database derived from the bundled one (other labels' signatures removed) no longer matches conforming traffic to its label", || {
                            json!({"table": table, "label": label_text(label), "signature": sig.to_string(), "bundled_match": own, "derived_match": format!("{got:?}"),
                                   "labels_without_signatures": stripped_labels, "frame_hex": hex(&b.frame)})
                        });
                    }
                }
            }
        }
        for (table, request, entries) in [("http:request", true, &derived.http_request.entries), ("http:response", false, &derived.http_response.entries)] {
            for (label, sigs) in entries.iter() {
                for sig in sigs {
                    idx += 1;
                    for v in [0u64, 6, 9, 15] {
                        let v11 = match sig.version {
                            Version::V10 => false,
                            Version::V11 => true,
                            _ => v % 2 == 0,
                        };
                        let (bytes, _model) = build_http(sig, request, v11, v & 2 != 0, v & 4 != 0, v & 8 != 0);
                        let ep = Endpoints::v4([10, 6, (idx >> 8) as u8, idx as u8], 2000 + v as u16, [198, 51, 100, 9], 80);
                        let mut s = Script::new(ep, Link::Ethernet, r.u32(), r.u32());
                        s.handshake();
                        if request {
                            s.c_data(&bytes);
                        } else {
                            s.c_data(b"GET / HTTP/1.1\r\nHost: a\r\n\r\n");
                            s.s_data(&bytes);
                        }
                        let run = |db: std::sync::Arc<Database>| -> Result<Option<String>, String> {
                            let mut a = huginn_net_http::HuginnNetHttp::new(Some(db), 16).expect("http analyzer");
                            let mut matched: Option<String> = None;
                            for f in &s.frames {
                                let res = guard(|| a.verif_process_packet(f))?;
                                if let Ok(res) = res {
                                    if request {
                                        if let Some(q) = res.http_request {
                                            matched = q.browser_matched.browser.map(|b| format!("{}|{:?}|{:?}", b.name, b.family, b.variant));
                                        }
                                    } else if let Some(q) = res.http_response {
                                        matched = q.web_server_matched.web_server.map(|b| format!("{}|{:?}|{:?}", b.name, b.family, b.variant));
                                    }
                                }
                            }
                            Ok(matched)
                        };
                        let own = lab(label);
                        compared += 1;
                        if run(bundled.clone()) != Ok(Some(own.clone())) {
                            continue;
                        }
                        kept += 1;
                        let got = run(derived.clone());
                        ctx.judge(got == Ok(Some(own.clone())), &[], "a database derived from the bundled one (other labels' signatures removed) no longer matches conforming traffic to its label", || {
                            json!({"table": table, "label": label_text(label), "signature": sig.to_string(), "bundled_match": own, "derived_match": format!("{got:?}"),
                                   "labels_without_signatures": stripped_labels, "message": String::from_utf8_lossy(&bytes)})
                        });
                    }
                }
            }
        }
        ctx.class_n("derived-db/traffic-compared", compared);
        ctx.class_n("derived-db/own-label-in-bundled(judged)", kept);
        ctx.bucket(&format!("derived-db/labels-stripped={}", stripped_labels.len().min(12)));
        ctx.stage_add("derived_databases", 1);
    }
}

fn clone_db(db: &Database) -> Database {
    // Database is not Clone: rebuild from the same text
    let _ = db;
    Database::load_default().expect("bundled database loads")
}

pub fn run(ctx: &mut Ctx) {
    huginn_net_tcp::verif_hooks::clock::set_ms(scenario::T0);
    let items = finding_items();
    check_db(ctx, scenario::db_static(), "bundled", &items);
    derived_dbs(ctx);
    huginn_net_tcp::verif_hooks::clock::clear();
}

pub fn spec() -> PropSpec {
    PropSpec {
        id: "C13",
        run,
        shards: super::shards_16,
        rule: "for each of the TCP request/response and HTTP request/response signatures of the bundled database, conforming traffic is synthesised (TCP: IPv4/IPv6, hop counts 0..30, admissible MSS/scale values, windows realising the window form, option bytes realising the layout, header bits realising exactly the listed quirks; HTTP: listed headers in order with optional headers in/out, values exact or as substrings of longer values, software string exact or inside a longer string) and analysed at packet level; the best match must be the signature's own label or the label of an earlier entry the traffic conforms to under a p0f-level predicate; a bucket is a distinct (table, label, variant class)",
        assumptions: &[
            "pool lane: two variants per HTTP signature through a 4-worker HTTP pool with the database on connections whose ends share one address; judged differentially (only where the sequential analyzer matched acceptably), class 'parallel analyzer (4 workers), client and server on one address'",
            "variant classes: TCP (IP version, hop count 0 / 1..30); HTTP (values exact / as substrings, software string exact / inside a longer string)",
            "signatures whose layout cannot be put on the wire without extra padding, or whose quirks contradict their own fields, are reported as 'unconstructible'",
            "derived databases: the bundled text with every sig line of 1..3 seeded labels per section commented out; judged there is the traffic that the bundled database matches to its signature's own label (removing other labels' signatures only removes competitors)",
            "dead signatures of the unchanged tree are listed item by item in known_findings.json (C13-dead-signatures.items); any item not listed is a violation, and a listed item that became reachable is only noted",
        ],
        parent_stage: None,
    }
}
