//! C05 — HTTP/1.x heads are reported faithfully and independently of the body.
//!
//! Two oracles on every execution:
//!  (a) metamorphic, no reference: Canon(parse(head ‖ body)) == Canon(parse(head)) for a family of
//!      bodies (text with every line-end style, header-like lines, binary, invalid / cut UTF-8, NUL,
//!      64 KiB), through `HttpProcessors`, through `Http1Parser` and through the packet path of
//!      `HuginnNetHttp` (head and body in one segment, in several segments, head itself cut);
//!  (b) `h1ref::ref_request/ref_response` (RFC 7230/7231/6265 + p0f README) against every reported
//!      field and the p0f signature, compared on the structured `matching` value and on the text.

use crate::canon;
use crate::h1ref::{self, ExpH, Judged, Lists, RefHead};
use crate::pkt::{Endpoints, Link, Script};
use crate::rt::{self, hex, Ctx, PropSpec, Rng};
use huginn_net_db::http as dbhttp;
use huginn_net_http::http1_parser::Http1Parser;
use huginn_net_http::http_common::{HeaderSource, HttpHeader};
use huginn_net_http::{HttpProcessors, HuginnNetHttp, ObservableHttpRequest, ObservableHttpResponse};
use serde_json::{json, Value};

const WHAT_REF: &str = "HTTP/1.x head reported differently from ref_http1";
const WHAT_BODY: &str = "result depends on the bytes after the blank line";
const WHAT_PKT: &str = "packet path reports a different result / at a different segment than the head alone";
const WHAT_PANIC: &str = "panic inside the HTTP/1.x parser";

fn req_lists() -> Lists {
    Lists {
        optional: dbhttp::request_optional_headers(),
        skip_value: dbhttp::request_skip_value_headers(),
        common: dbhttp::request_common_headers(),
    }
}
fn res_lists() -> Lists {
    Lists {
        optional: dbhttp::response_optional_headers(),
        skip_value: dbhttp::response_skip_value_headers(),
        common: dbhttp::response_common_headers(),
    }
}

fn show(b: &[u8]) -> Value {
    if b.len() <= 6000 {
        json!({"len": b.len(), "hex": hex(b), "text": String::from_utf8_lossy(b)})
    } else {
        json!({"len": b.len(), "hex_prefix": hex(&b[..3000]), "hex_suffix": hex(&b[b.len()-64..])})
    }
}

// ---------------------------------------------------------------------------------- comparison

fn render_sig(minor: u8, horder: &[ExpH], habsent: &[String], expsw: &str) -> Option<String> {
    let mut s = format!("{}:", minor);
    for (i, h) in horder.iter().enumerate() {
        if i > 0 {
            s.push(',');
        }
        match h {
            ExpH::Exact { optional, name, value } => {
                if *optional {
                    s.push('?');
                }
                s.push_str(name);
                if let Some(v) = value {
                    s.push_str(&format!("=[{v}]"));
                }
            }
            ExpH::NameOnly { .. } => return None,
        }
    }
    s.push(':');
    s.push_str(&habsent.join(","));
    s.push(':');
    s.push_str(expsw);
    Some(s)
}

fn cmp_headers(got: &[HttpHeader], exp: &[h1ref::RefHeader]) -> Option<String> {
    if got.len() != exp.len() {
        return Some(format!(
            "headers: expected {} fields {:?}, got {} {:?}",
            exp.len(),
            exp.iter().map(|h| &h.name).collect::<Vec<_>>(),
            got.len(),
            got.iter().map(|h| &h.name).collect::<Vec<_>>()
        ));
    }
    for (i, (g, e)) in got.iter().zip(exp.iter()).enumerate() {
        if g.name != e.name || g.value.as_deref() != Some(e.value.as_str()) || g.position != e.position {
            return Some(format!(
                "headers[{i}]: expected ({:?}, {:?}, position {}), got ({:?}, {:?}, position {})",
                e.name, e.value, e.position, g.name, g.value, g.position
            ));
        }
        if g.source != HeaderSource::Http1Line {
            return Some(format!("headers[{i}]: source {:?}", g.source));
        }
    }
    None
}

fn cmp_matching(
    version: dbhttp::Version,
    horder: &[dbhttp::Header],
    habsent: &[dbhttp::Header],
    expsw: &str,
    text: &str,
    r: &RefHead,
) -> Option<String> {
    let want_v = if r.minor == 0 { dbhttp::Version::V10 } else { dbhttp::Version::V11 };
    if version != want_v {
        return Some(format!("version: expected {want_v:?}, got {version:?}"));
    }
    if horder.len() != r.horder.len() {
        return Some(format!("horder: expected {} entries, got {}: {:?}", r.horder.len(), horder.len(), horder));
    }
    for (i, (g, e)) in horder.iter().zip(r.horder.iter()).enumerate() {
        let ok = match e {
            ExpH::Exact { optional, name, value } => g.optional == *optional && &g.name == name && &g.value == value,
            ExpH::NameOnly { name, value } => &g.name == name && (g.value.is_none() || g.value.as_deref() == Some(value.as_str())),
        };
        if !ok {
            return Some(format!("horder[{i}]: expected {e:?}, got {g:?}"));
        }
    }
    let got_abs: Vec<&str> = habsent.iter().map(|h| h.name.as_str()).collect();
    let want_abs: Vec<&str> = r.habsent.iter().map(|s| s.as_str()).collect();
    if got_abs != want_abs || habsent.iter().any(|h| h.optional || h.value.is_some()) {
        return Some(format!("habsent: expected {want_abs:?}, got {habsent:?}"));
    }
    if expsw != r.expsw {
        return Some(format!("expsw: expected {:?}, got {:?}", r.expsw, expsw));
    }
    if let Some(want) = render_sig(r.minor, &r.horder, &r.habsent, &r.expsw) {
        if want != text {
            return Some(format!("signature text: expected {want:?}, got {text:?}"));
        }
    }
    None
}

fn cmp_request(o: &ObservableHttpRequest, r: &RefHead) -> Option<String> {
    if o.method.as_deref() != Some(r.method.as_str()) {
        return Some(format!("method: expected {:?}, got {:?}", r.method, o.method));
    }
    if o.uri.as_deref() != Some(r.target.as_str()) {
        return Some(format!("target: expected {:?}, got {:?}", r.target, o.uri));
    }
    if let Some(d) = cmp_headers(&o.headers, &r.headers) {
        return Some(d);
    }
    if let Judged::Is(c) = &r.cookies {
        let got: Vec<(String, Option<String>, usize)> =
            o.cookies.iter().map(|c| (c.name.clone(), c.value.clone(), c.position)).collect();
        let want: Vec<(String, Option<String>, usize)> =
            c.iter().enumerate().map(|(i, (n, v))| (n.clone(), v.clone(), i)).collect();
        if got != want {
            return Some(format!("cookies: expected {want:?}, got {got:?}"));
        }
    }
    if let Judged::Is(x) = &r.referer {
        if &o.referer != x {
            return Some(format!("referer: expected {x:?}, got {:?}", o.referer));
        }
    }
    if o.user_agent != r.software {
        return Some(format!("user_agent: expected {:?}, got {:?}", r.software, o.user_agent));
    }
    if let Judged::Is(l) = &r.lang {
        if &o.lang != l {
            return Some(format!("lang: expected {l:?}, got {:?}", o.lang));
        }
    }
    cmp_matching(o.matching.version, &o.matching.horder, &o.matching.habsent, &o.matching.expsw, &o.to_string(), r)
}

fn cmp_response(o: &ObservableHttpResponse, r: &RefHead) -> Option<String> {
    if o.status_code != Some(r.status) {
        return Some(format!("status: expected {}, got {:?}", r.status, o.status_code));
    }
    if let Some(d) = cmp_headers(&o.headers, &r.headers) {
        return Some(d);
    }
    cmp_matching(o.matching.version, &o.matching.horder, &o.matching.habsent, &o.matching.expsw, &o.to_string(), r)
}

// ------------------------------------------------------------------------------------ generator

const REQ_EXTRA: [&str; 18] = [
    "Accept", "Accept-Encoding", "Accept-Charset", "Connection", "Keep-Alive", "Content-Type", "Content-Length",
    "Upgrade-Insecure-Requests", "DNT", "Pragma", "TE", "Expect", "If-Match", "X-Requested-With", "Sec-Fetch-Mode",
    "UA-CPU", "X-OperaMini-Phone-UA", "Transfer-Encoding",
];
const RES_EXTRA: [&str; 16] = [
    "Accept-Ranges", "Connection", "Keep-Alive", "Transfer-Encoding", "Content-Encoding", "X-Powered-By", "Via", "Age",
    "X-Cache", "Strict-Transport-Security", "X-Frame-Options", "P3P", "Allow", "WWW-Authenticate", "Server", "Date",
];
const REAL_VALUES: [&str; 30] = [
    "gzip, deflate", "keep-alive", "close", "text/html; charset=utf-8", "*/*", "example.com", "example.com:8080",
    "[::1]:80", "Mon, 01 Jan 2024 00:00:00 GMT", "max-age=0", "W/\"abc\"", "bytes=0-99", "1", "0", "300",
    "text/html,application/xhtml+xml,application/xml;q=0.9,*/*;q=0.8", "no-cache", "chunked", "identity",
    "Basic dXNlcjpwYXNz", "http://example.com/a?b=c#d", "utf-8;q=0.7,*;q=0.7", "timeout=5, max=100", "nosniff",
    "a]b", "x=[y]", "k:v", "?q", "1.1 proxy (squid/3.5)", "Apache/2.4.41 (Ubuntu)",
];
const UA_VALUES: [&str; 8] = [
    "Mozilla/5.0 (X11; Linux x86_64) AppleWebKit/537.36 (KHTML, like Gecko) Chrome/120.0.0.0 Safari/537.36",
    "Mozilla/5.0 (Windows NT 10.0; Win64; x64; rv:121.0) Gecko/20100101 Firefox/121.0",
    "curl/8.4.0", "Wget/1.21", "python-requests/2.31.0", "Opera/9.80 (J2ME/MIDP; Opera Mini/5.0)", "a", "Mozilla/4.0 (compatible; MSIE 6.0)",
];
const SERVER_VALUES: [&str; 7] = ["nginx", "nginx/1.18.0", "Apache", "Apache/2.2.22 (Debian)", "Microsoft-IIS/10.0", "gws", "lighttpd/1.4.59"];
const UTF8_VALUES: [&str; 8] = ["café", "日本語", "Ünïcödé ✓", "naïve—dash", "x 😀 y", "Ελληνικά", "a\u{a0}b", "ß"];
const TARGETS: [&str; 12] = [
    "/", "/index.html", "/a/b/c?x=1&y=2", "*", "http://example.com/path?q=%20z", "example.com:443", "/%E2%82%AC", "/;p=1?q#f",
    "/a:b,c]d[e=f", "//double", "/?", "/very/long",
];

fn flip_case(r: &mut Rng, s: &str) -> String {
    match r.below(3) {
        0 => s.to_ascii_lowercase(),
        1 => s.to_ascii_uppercase(),
        _ => s
            .chars()
            .map(|c| if r.chance(1, 2) { c.to_ascii_uppercase() } else { c.to_ascii_lowercase() })
            .collect(),
    }
}

fn token(r: &mut Rng) -> String {
    // a fifth of the free names embed the name of a common header: as a suffix
    // (Proxy-Connection, X-Forwarded-Host), as a prefix (Accept-Patch, Hostname), or in the middle
    if r.chance(1, 5) {
        const COMMON: [&str; 14] = ["Host", "Connection", "Accept", "Accept-Encoding", "Accept-Language", "Accept-Charset", "Keep-Alive", "User-Agent", "Date", "Server", "Content-Type", "Content-Length", "Cookie", "Referer"];
        const PRE: [&str; 7] = ["Proxy-", "X-Forwarded-", "X-Cache-", "X-Original-", "Not", "X", "Last-"];
        const POST: [&str; 5] = ["-Patch", "name", "-Id", "2", "-Options"];
        let c = *r.pick(&COMMON);
        return match r.below(3) {
            0 => format!("{}{c}", r.pick(&PRE)),
            1 => format!("{c}{}", r.pick(&POST)),
            _ => format!("{}{c}{}", r.pick(&PRE), r.pick(&POST)),
        };
    }
    const T: &[u8] = b"abcdefghijklmnopqrstuvwxyzABCDEFGHIJKLMNOPQRSTUVWXYZ0123456789-_.!#$%&'*+^`|~";
    let n = 1 + r.usize(14);
    let mut s = String::from("X-");
    for _ in 0..n {
        let lim = if r.chance(4, 5) { 63 } else { T.len() };
        s.push(T[r.usize(lim)] as char);
    }
    s
}

fn ascii_value(r: &mut Rng) -> String {
    let n = 1 + r.usize(60);
    let mut s = String::new();
    for i in 0..n {
        let edge = i == 0 || i == n - 1;
        let c = if !edge && r.chance(1, 8) {
            if r.chance(1, 4) { '\t' } else { ' ' }
        } else {
            (0x21 + r.below(0x7e - 0x21 + 1) as u8) as char
        };
        s.push(c);
    }
    s
}

/// Accept-Language value; mostly inside the judged grammar, sometimes deliberately outside.
fn lang_value(r: &mut Rng) -> String {
    const QS: [&str; 16] = ["1", "1.0", "1.000", "0.9", "0.8", "0.7", "0.5", "0.50", "0.500", "0.3", "0.1", "0.01", "0.001", "0.999", "0", "0.0"];
    const SEMI: [&str; 6] = [";q=", "; q=", " ;q=", " ; q=", ";\tq=", "\t;  q="];
    const COMMA: [&str; 5] = [",", ", ", " , ", ",\t", " ,"];
    const REGION: [&str; 6] = ["", "", "-US", "-gb", "-Hans-CN", "-419"];
    let lim = if r.chance(1, 6) { 9 } else { 4 };
    let n = 1 + r.usize(lim);
    let comma = *r.pick(&COMMA);
    let mut s = String::new();
    for i in 0..n {
        if i > 0 {
            s.push_str(if r.chance(3, 4) { comma } else { *r.pick(&COMMA) });
        }
        let tag = if r.chance(1, 5) { r.pick(&h1ref::UNKNOWN_TAGS).to_string() } else { r.pick(&h1ref::LANGS).0.to_string() };
        s.push_str(&tag);
        if tag != "*" {
            s.push_str(*r.pick(&REGION));
        }
        if r.chance(2, 3) {
            s.push_str(*r.pick(&SEMI));
            s.push_str(*r.pick(&QS));
        }
        if r.chance(1, 60) {
            // outside the judged grammar (reference answers Open)
            s.push_str(*r.pick(&[";q=abc", ";Q=0.5", ";level=1;q=0.2", ",EN", ",sv;q=0.95", ";q=1.5", ";q=.5", ",,"]));
        }
    }
    s
}

fn cookie_value(r: &mut Rng) -> String {
    let n = 1 + r.usize(5);
    let sep = *r.pick(&["; ", ";", " ;  ", ";\t"]);
    let mut v = Vec::new();
    for i in 0..n {
        v.push(match r.below(6) {
            0 => format!("flag{i}"),
            1 => format!("k{i}="),
            2 => format!("k{i}=a=b=c"),
            3 => format!("session{i}=0123456789abcdef"),
            _ => format!("n{i}={}", ascii_value(r).replace([';', ' ', '\t'], "_")),
        });
    }
    let mut s = v.join(sep);
    if r.chance(1, 40) {
        s.push(';');
    }
    s
}

struct Field {
    name: String,
    value: String,
    pre: &'static str,
    post: &'static str,
}

fn ows(r: &mut Rng) -> (&'static str, &'static str) {
    const STYLES: [(&str, &str); 7] = [(" ", ""), (" ", ""), ("", ""), (" ", " "), ("\t", "\t"), ("  \t ", " \t  "), ("", "   ")];
    *r.pick(&STYLES)
}

fn generic_value(r: &mut Rng) -> String {
    match r.below(20) {
        0..=9 => r.pick(&REAL_VALUES).to_string(),
        10..=13 => ascii_value(r),
        14..=16 => r.pick(&UTF8_VALUES).to_string(),
        17 => String::new(),
        18 => {
            let lim = if r.chance(1, 8) { 7000 } else { 300 };
            "v".repeat(1 + r.usize(lim))
        }
        _ => format!("{} {}", r.pick(&UTF8_VALUES), ascii_value(r)),
    }
}

fn field_count(r: &mut Rng) -> usize {
    match r.below(40) {
        0 => 0,
        1 => 1,
        2 => 100,
        3 => 99,
        4..=6 => 13 + r.usize(60),
        _ => 2 + r.usize(11),
    }
}

fn gen_fields(r: &mut Rng, is_req: bool, n: usize) -> Vec<Field> {
    let lists = if is_req { req_lists() } else { res_lists() };
    let other = if is_req { res_lists() } else { req_lists() };
    let mut listed: Vec<&'static str> = Vec::new();
    listed.extend(lists.optional.iter());
    listed.extend(lists.skip_value.iter());
    listed.extend(lists.common.iter());
    let sw_name = if is_req { "User-Agent" } else { "Server" };
    let mut out: Vec<Field> = Vec::new();
    for _ in 0..n {
        let (pre, post) = ows(r);
        let (name, value): (String, String) = if !out.is_empty() && r.chance(1, 8) {
            // duplicate of an earlier field name (same or different value)
            let k = r.usize(out.len());
            let nm = out[k].name.clone();
            let v = if r.chance(1, 2) { out[k].value.clone() } else { generic_value(r) };
            (nm, v)
        } else {
            match r.below(100) {
                0..=27 => {
                    let nm = r.pick(&listed).to_string();
                    let v = match nm.as_str() {
                        "User-Agent" => r.pick(&UA_VALUES).to_string(),
                        "Server" => r.pick(&SERVER_VALUES).to_string(),
                        "Accept-Language" => lang_value(r),
                        "Cookie" => cookie_value(r),
                        _ => generic_value(r),
                    };
                    (nm, v)
                }
                28..=37 => (sw_name.to_string(), if is_req { r.pick(&UA_VALUES).to_string() } else { r.pick(&SERVER_VALUES).to_string() }),
                38..=47 if is_req => ("Accept-Language".to_string(), lang_value(r)),
                48..=55 if is_req => ("Cookie".to_string(), cookie_value(r)),
                56..=61 if is_req => ("Referer".to_string(), r.pick(&["http://example.com/", "https://a.b/c?d=e", "about:blank", ""]).to_string()),
                62..=73 => {
                    // case variant of a listed / lifted name
                    let base = match r.below(6) {
                        0 => sw_name,
                        1 if is_req => "Cookie",
                        2 if is_req => "Referer",
                        3 if is_req => "Accept-Language",
                        _ => *r.pick(&listed),
                    };
                    let nm = flip_case(r, base);
                    let v = match base {
                        "Accept-Language" => lang_value(r),
                        "Cookie" => cookie_value(r),
                        "User-Agent" => r.pick(&UA_VALUES).to_string(),
                        _ => generic_value(r),
                    };
                    (nm, v)
                }
                74..=81 => (token(r), generic_value(r)),
                82..=87 => {
                    // names from the other direction's lists
                    let mut o: Vec<&'static str> = Vec::new();
                    o.extend(other.optional.iter());
                    o.extend(other.skip_value.iter());
                    o.extend(other.common.iter());
                    (r.pick(&o).to_string(), generic_value(r))
                }
                _ => (if is_req { r.pick(&REQ_EXTRA).to_string() } else { r.pick(&RES_EXTRA).to_string() }, generic_value(r)),
            }
        };
        // keep most heads inside the judged domain: repeated Cookie / Referer / Accept-Language fields
        // (whose meaning the specifications leave open) only now and then
        let ln = name.to_ascii_lowercase();
        let name = if matches!(ln.as_str(), "cookie" | "referer" | "accept-language")
            && out.iter().any(|f: &Field| f.name.to_ascii_lowercase() == ln)
            && !r.chance(1, 12)
        {
            token(r)
        } else {
            name
        };
        out.push(Field { name, value, pre, post });
    }
    out
}

fn render_fields(b: &mut Vec<u8>, fields: &[Field]) {
    for f in fields {
        b.extend_from_slice(f.name.as_bytes());
        b.push(b':');
        b.extend_from_slice(f.pre.as_bytes());
        b.extend_from_slice(f.value.as_bytes());
        b.extend_from_slice(f.post.as_bytes());
        b.extend_from_slice(b"\r\n");
    }
    b.extend_from_slice(b"\r\n");
}

fn gen_target(r: &mut Rng) -> String {
    let t = *r.pick(&TARGETS);
    if t == "/very/long" {
        // up to the judged line limit (the request line stays below 8000 octets)
        let n = if r.chance(1, 2) { 1 + r.usize(2000) } else { 2000 + r.usize(5800) };
        format!("/{}?q={}", "p".repeat(n / 2), "v".repeat(n - n / 2))
    } else if r.chance(1, 5) {
        format!("{t}{}", ascii_value(r).replace([' ', '\t'], "+"))
    } else {
        t.to_string()
    }
}

fn gen_request_with(r: &mut Rng, method: &str, minor: u8, fields: &[Field]) -> Vec<u8> {
    let mut b = format!("{method} {} HTTP/1.{minor}\r\n", gen_target(r)).into_bytes();
    render_fields(&mut b, fields);
    b
}

fn gen_request(r: &mut Rng) -> Vec<u8> {
    let method = *r.pick(&h1ref::METHODS);
    let minor = r.below(2) as u8;
    let n = field_count(r);
    let fields = gen_fields(r, true, n);
    gen_request_with(r, method, minor, &fields)
}

const REASONS: [&str; 8] = ["OK", "Not Found", "Moved Permanently", "", "Internal Server Error", "I'm a teapot", "OK, fine: yes", "Ünknown"];

fn status_line(r: &mut Rng, minor: u8, status: u16) -> String {
    match r.below(8) {
        0 => format!("HTTP/1.{minor} {status:03}\r\n"),
        1 => format!("HTTP/1.{minor} {status:03} \r\n"),
        _ => format!("HTTP/1.{minor} {status:03} {}\r\n", r.pick(&REASONS)),
    }
}

fn gen_response(r: &mut Rng) -> Vec<u8> {
    let minor = r.below(2) as u8;
    let status = match r.below(6) {
        0 => *r.pick(&[100u16, 101, 199, 200, 204, 299, 300, 301, 304, 399, 400, 404, 499, 500, 503, 599]),
        1 => r.below(1000) as u16,
        _ => 100 + r.below(500) as u16,
    };
    let mut b = status_line(r, minor, status).into_bytes();
    let n = field_count(r);
    let fields = gen_fields(r, false, n);
    render_fields(&mut b, &fields);
    b
}

/// Heads outside the judged domain (crash-only for oracle (b)); all of them keep CRLF line ends and
/// contain no bare LF, so the head/body boundary stays well defined for oracle (a) — except the
/// LF-only variant, which reports `false` (no body-independence judgement).
fn gen_odd(r: &mut Rng, is_req: bool) -> (Vec<u8>, bool, &'static str) {
    let n = field_count(r).min(30);
    let mut fields = gen_fields(r, is_req, n);
    let start = |r: &mut Rng| -> String {
        if is_req {
            format!("{} {} HTTP/1.{}\r\n", r.pick(&h1ref::METHODS), gen_target(r), r.below(2))
        } else {
            let m = r.below(2) as u8;
            let st = 100 + r.below(500) as u16;
            status_line(r, m, st)
        }
    };
    let kind = r.below(16);
    let mut first = start(r);
    let tag: &'static str;
    let at = if fields.is_empty() { 0 } else { r.usize(fields.len() + 1) };
    let mk = |name: &str, value: &str| Field { name: name.to_string(), value: value.to_string(), pre: " ", post: "" };
    match kind {
        0 => {
            tag = "line-without-colon";
            fields.insert(at, Field { name: "garbage line without colon".into(), value: String::new(), pre: "", post: "" });
            // rendered below as "name:" — replace by raw rendering
        }
        1 => {
            tag = "empty-name";
            fields.insert(at, mk("", "orphan"));
        }
        2 => {
            tag = "obs-fold";
            fields.insert(at, mk(" folded", "continuation"));
        }
        3 => {
            tag = "space-in-target-or-status";
            first = if is_req { "GET /a b HTTP/1.1\r\n".to_string() } else { "HTTP/1.1  200 OK\r\n".to_string() };
        }
        4 => {
            tag = "space-before-colon";
            fields.insert(at, mk("Host ", "example.com"));
        }
        5 => {
            tag = "ctl-in-value";
            fields.insert(at, mk("X-Ctl", *r.pick(&["a\rb", "a\0b", "\u{7f}x", "a\u{b}b"])));
        }
        6 => {
            tag = "non-utf8-in-head";
            fields.insert(at, mk("X-Latin1", "caf"));
        }
        7 => {
            tag = "too-many-fields";
            let extra = *r.pick(&[101usize, 102, 150, 300]);
            fields = gen_fields(r, is_req, extra);
        }
        8 => {
            tag = "field-line-over-8k";
            fields.insert(at, mk("X-Long", &"L".repeat(8100 + r.usize(3000))));
        }
        9 => {
            tag = "bad-start-line";
            first = if is_req {
                r.pick(&[
                    "BREW /pot HTTP/1.1\r\n", "get / HTTP/1.1\r\n", "GET / HTTP/1.2\r\n", "GET / HTTP/2.0\r\n", "GET / HTTP/0.9\r\n",
                    "GET /\r\n", "GET  / HTTP/1.1\r\n", "GET / http/1.1\r\n", "MKCALENDAR /c HTTP/1.1\r\n", "REPORT /c HTTP/1.1\r\n", "\r\nGET / HTTP/1.1\r\n",
                ])
                .to_string()
            } else {
                r.pick(&[
                    "HTTP/1.1 99 Low\r\n", "HTTP/1.1 1000 High\r\n", "HTTP/1.1 2xx OK\r\n", "HTTP/1.1 600 Out\r\n", "HTTP/1.1 999 Out\r\n",
                    "HTTP/1.2 200 OK\r\n", "HTTP/2 200\r\n", "HTTP/1.1 +20 OK\r\n", "HTTP/1.1\r\n", "http/1.1 200 OK\r\n", "HTTP/1.1 000 Zero\r\n",
                ])
                .to_string()
            };
        }
        10 => {
            tag = "unicode-whitespace-edge";
            fields.insert(at, mk("X-Nbsp", *r.pick(&["\u{a0}padded\u{a0}", "\u{3000}wide", "tail\u{2003}", "\u{85}nel"])));
        }
        11 => {
            tag = "tiny-head";
            return (if is_req { b"GET /\r\n\r\n".to_vec() } else { b"HTTP/1.1\r\n\r\n".to_vec() }, true, tag);
        }
        12 => {
            tag = "lf-only-head";
            let mut b = first.replace("\r\n", "\n").into_bytes();
            for f in &fields {
                b.extend_from_slice(format!("{}: {}\n", f.name, f.value).as_bytes());
            }
            b.push(b'\n');
            return (b, false, tag);
        }
        13 => {
            tag = "cookie-referer-repeated";
            if is_req {
                fields.insert(at, mk("Cookie", "a=1; b=2"));
                fields.push(mk("Cookie", "c=3"));
                fields.push(mk("Referer", "http://one/"));
                fields.push(mk("referer", "http://two/"));
            }
        }
        14 => {
            tag = "colon-only-and-odd-names";
            fields.insert(at, mk("Na(me)", "paren"));
            fields.insert(at, mk("Bad\"Name", "quote"));
        }
        _ => {
            tag = "whitespace-only-line";
            fields.insert(at, Field { name: "   ".into(), value: String::new(), pre: "", post: "" });
        }
    }
    let mut b = first.into_bytes();
    for f in &fields {
        if kind == 0 && f.name == "garbage line without colon" {
            b.extend_from_slice(b"garbage line without colon\r\n");
            continue;
        }
        if kind == 15 && f.name == "   " {
            b.extend_from_slice(b"   \r\n");
            continue;
        }
        b.extend_from_slice(f.name.as_bytes());
        b.push(b':');
        b.extend_from_slice(f.pre.as_bytes());
        b.extend_from_slice(f.value.as_bytes());
        if kind == 6 && f.name == "X-Latin1" {
            b.extend_from_slice(&[0xe9, b' ', 0xff]);
        }
        b.extend_from_slice(f.post.as_bytes());
        b.extend_from_slice(b"\r\n");
    }
    b.extend_from_slice(b"\r\n");
    (b, true, tag)
}

// --------------------------------------------------------------------------------------- bodies

fn bodies(r: &mut Rng, with_big: bool) -> Vec<(&'static str, Vec<u8>)> {
    let mut v: Vec<(&'static str, Vec<u8>)> = vec![
        ("ascii-no-newline", b"hello world".to_vec()),
        ("crlf-text", b"line one\r\nline two\r\nline three\r\n".to_vec()),
        ("lf-text", b"alpha\nbeta\ngamma\n".to_vec()),
        ("lflf-inside", b"para one\n\npara two\n\n\npara three".to_vec()),
        ("crlfcrlf-inside", b"part one\r\n\r\npart two\r\n\r\n".to_vec()),
        ("starts-with-lf", b"\nx".to_vec()),
        ("starts-with-crlf", b"\r\n\r\nx".to_vec()),
        ("single-cr", b"\r".to_vec()),
        ("header-like", b"X-Injected: 1\r\nUser-Agent: evil/1.0\r\nServer: evil\r\nCookie: stolen=1\r\nAccept-Language: ru\r\nHost: evil\r\n\r\n".to_vec()),
        ("second-request", b"GET /second HTTP/1.0\r\nHost: second\r\nUser-Agent: second\r\n\r\n".to_vec()),
        ("second-response", b"HTTP/1.0 500 Second\r\nServer: second\r\n\r\n".to_vec()),
        ("invalid-utf8-fffe", vec![0xff, 0xfe]),
        ("png-magic", vec![0x89, 0x50, 0x4e, 0x47, 0x0d, 0x0a, 0x1a, 0x0a, 0xff, 0xfe]),
        ("lone-continuation", vec![b'a', 0x80, 0xbf, b'b']),
        ("overlong", vec![0xc0, 0xaf, 0xe0, 0x80, 0xaf]),
        ("cut-2byte", b"caf\xc3".to_vec()),
        ("cut-3byte", b"price \xe2\x82".to_vec()),
        ("cut-4byte", b"smile \xf0\x9f\x98".to_vec()),
        ("nul-bytes", vec![0, 0, 0, b'x', 0]),
        ("gzip-magic", vec![0x1f, 0x8b, 0x08, 0x00, 0x00, 0x00, 0x00, 0x00, 0x00, 0x03, 0xcb, 0x48, 0xcd, 0xc9, 0xc9, 0x07, 0x00]),
        ("utf8-text", "žluťoučký kůň — 日本語\n".as_bytes().to_vec()),
        ("h2-preface", b"PRI * HTTP/2.0\r\n\r\nSM\r\n\r\n".to_vec()),
    ];
    let n = 1 + r.usize(2000);
    v.push(("random-binary", r.bytes(n)));
    let n = 1 + r.usize(64);
    v.push(("random-binary-short", r.bytes(n)));
    if with_big {
        let mut big = r.bytes(4096);
        while big.len() < 65536 {
            let chunk = big[..4096].to_vec();
            big.extend_from_slice(&chunk);
        }
        v.push(("64k-binary", big));
        v.push(("64k-newlines", vec![b'\n'; 65536]));
        let mut t = Vec::new();
        while t.len() < 65536 {
            t.extend_from_slice(b"Field-Like: value value value\r\n");
        }
        v.push(("64k-header-like", t));
    }
    v
}

// ------------------------------------------------------------------------------------- drivers

struct Engines {
    procs: HttpProcessors,
    h1: Http1Parser,
    reql: Lists,
    resl: Lists,
}

fn lang_class(r: &RefHead) -> &'static str {
    let has = r.headers.iter().any(|h| h.name.eq_ignore_ascii_case("accept-language"));
    match (&r.lang, has) {
        (_, false) => "no-al",
        (Judged::Is(None), _) => "al-none",
        (Judged::Is(Some(_)), _) => "al-some",
        (Judged::Open(_), _) => "al-open",
    }
}

fn bucket_of(r: &RefHead) -> String {
    let nb = match r.all.len() {
        0 => "0",
        1 => "1",
        2..=12 => "2-12",
        13..=98 => "13-98",
        99 => "99",
        _ => "100",
    };
    let sw = if r.is_request { "user-agent" } else { "server" };
    let swn = r.headers.iter().filter(|h| h.name.eq_ignore_ascii_case(sw)).count().min(2);
    let ck = r.all.iter().filter(|h| h.name.eq_ignore_ascii_case("cookie")).count().min(2);
    let rf = r.all.iter().filter(|h| h.name.eq_ignore_ascii_case("referer")).count().min(2);
    let mut kinds = [false; 4];
    for h in &r.horder {
        match h {
            ExpH::Exact { optional: true, .. } => kinds[0] = true,
            ExpH::Exact { value: None, .. } => kinds[1] = true,
            ExpH::Exact { .. } => kinds[2] = true,
            ExpH::NameOnly { .. } => kinds[3] = true,
        }
    }
    let mut names: Vec<String> = r.all.iter().map(|h| h.name.to_ascii_lowercase()).collect();
    let total = names.len();
    names.sort();
    names.dedup();
    let dup = names.len() != total;
    let utf8 = r.all.iter().any(|h| !h.value.is_ascii());
    let start = if r.is_request { r.method.clone() } else { format!("{}xx", r.status / 100) };
    format!(
        "{}/{}/1.{}/n{}/sw{}ck{}rf{}/{}/h{}{}{}{}/{}{}/abs{}",
        if r.is_request { "req" } else { "res" },
        start,
        r.minor,
        nb,
        swn,
        ck,
        rf,
        lang_class(r),
        kinds[0] as u8,
        kinds[1] as u8,
        kinds[2] as u8,
        kinds[3] as u8,
        if dup { "dup" } else { "uniq" },
        if utf8 { "+utf8" } else { "" },
        r.habsent.len()
    )
}

/// canonical rendering of the raw Http1Parser results (timing excluded, map sorted)
fn canon_h1_req(x: &Result<Option<huginn_net_http::http1_parser::Http1Request>, huginn_net_http::http1_parser::Http1ParseError>) -> String {
    match x {
        Err(e) => format!("Err({e})"),
        Ok(None) => "None".to_string(),
        Ok(Some(q)) => {
            let mut cv: Vec<(String, Vec<String>)> = q.parsing_metadata.case_variations.iter().map(|(k, v)| (k.clone(), v.clone())).collect();
            cv.sort();
            format!(
                "m={} u={} v={:?} h={} c={:?} r={:?} cl={:?} te={:?} conn={:?} host={:?} ua={:?} al={:?} raw={:?} meta=({},{:?},{:?},{},{},{})",
                q.method, q.uri, q.version, canon::headers(&q.headers),
                q.cookies.iter().map(|c| (c.name.clone(), c.value.clone(), c.position)).collect::<Vec<_>>(),
                q.referer, q.content_length, q.transfer_encoding, q.connection, q.host, q.user_agent, q.accept_language,
                q.raw_request_line, q.parsing_metadata.header_count, q.parsing_metadata.duplicate_headers, cv,
                q.parsing_metadata.has_malformed_headers, q.parsing_metadata.request_line_length, q.parsing_metadata.total_headers_length
            )
        }
    }
}

fn canon_h1_res(x: &Result<Option<huginn_net_http::http1_parser::Http1Response>, huginn_net_http::http1_parser::Http1ParseError>) -> String {
    match x {
        Err(e) => format!("Err({e})"),
        Ok(None) => "None".to_string(),
        Ok(Some(q)) => {
            let mut cv: Vec<(String, Vec<String>)> = q.parsing_metadata.case_variations.iter().map(|(k, v)| (k.clone(), v.clone())).collect();
            cv.sort();
            format!(
                "v={:?} s={} reason={:?} h={} cl={:?} te={:?} server={:?} ct={:?} raw={:?} meta=({},{:?},{:?},{},{})",
                q.version, q.status_code, q.reason_phrase, canon::headers(&q.headers), q.content_length, q.transfer_encoding,
                q.server, q.content_type, q.raw_status_line, q.parsing_metadata.header_count, q.parsing_metadata.duplicate_headers,
                cv, q.parsing_metadata.has_malformed_headers, q.parsing_metadata.total_headers_length
            )
        }
    }
}

/// Direct (buffer) path for one head: oracle (b) if `judged`, oracle (a) over the body family.
/// Returns the canonical result of the head alone (None = no result).
fn drive_direct(
    ctx: &mut Ctx,
    e: &Engines,
    r: &mut Rng,
    head: &[u8],
    is_req: bool,
    judged: bool,
    independent: bool,
    tag: &str,
    with_big: bool,
    with_h1: bool,
) -> Option<String> {
    let parse = |data: &[u8]| -> Result<Option<String>, String> {
        if is_req {
            rt::guard(|| e.procs.parse_request(data).map(|o| canon::http_req_sig(&o)))
        } else {
            rt::guard(|| e.procs.parse_response(data).map(|o| canon::http_res_sig(&o)))
        }
    };
    // ---- oracle (b)
    if judged {
        let reference = if is_req { h1ref::ref_request(head, &e.reql) } else { h1ref::ref_response(head, &e.resl) };
        match reference {
            None => ctx.inconclusive("generator produced a head outside the reference domain"),
            Some(rf) => {
                let verdict: Result<Option<String>, String> = if is_req {
                    rt::guard(|| match e.procs.parse_request(head) {
                        None => Some("no result (None) for a well-formed head".to_string()),
                        Some(o) => cmp_request(&o, &rf),
                    })
                } else {
                    rt::guard(|| match e.procs.parse_response(head) {
                        None => Some("no result (None) for a well-formed head".to_string()),
                        Some(o) => cmp_response(&o, &rf),
                    })
                };
                match verdict {
                    Err(p) => {
                        ctx.judge(false, &[], WHAT_PANIC, || json!({"input": show(head), "panic": p}));
                    }
                    Ok(diff) => {
                        ctx.judge(diff.is_none(), &[], WHAT_REF, || {
                            json!({"entry": "HttpProcessors", "kind": if is_req {"request"} else {"response"},
                                   "difference": diff, "input": show(head),
                                   "actual": parse(head).ok().flatten()})
                        });
                    }
                }
                ctx.bucket(&bucket_of(&rf));
                match &rf.lang {
                    Judged::Open(why) if rf.is_request => ctx.class(&format!("lang-unjudged:{why}")),
                    _ => {}
                }
                if let Judged::Open(why) = &rf.cookies {
                    ctx.class(&format!("cookies-unjudged:{why}"));
                }
                if ctx.want_sample() && rf.all.len() >= 3 && rf.all.len() < 9 {
                    ctx.sample(json!({"head": String::from_utf8_lossy(head), "reported": parse(head).ok().flatten()}));
                }
                // raw parser entry on the same head
                if with_h1 {
                    let diff: Result<Option<String>, String> = if is_req {
                        rt::guard(|| match e.h1.parse_request(head) {
                            Ok(Some(q)) => {
                                let want_v = if rf.minor == 0 { dbhttp::Version::V10 } else { dbhttp::Version::V11 };
                                if q.method != rf.method || q.uri != rf.target || q.version != want_v {
                                    Some(format!("start line: got {} {} {:?}", q.method, q.uri, q.version))
                                } else if let Some(d) = cmp_headers(&q.headers, &rf.headers) {
                                    Some(d)
                                } else if q.user_agent != rf.software {
                                    Some(format!("user_agent: expected {:?}, got {:?}", rf.software, q.user_agent))
                                } else if q.host != rf.host {
                                    Some(format!("host: expected {:?}, got {:?}", rf.host, q.host))
                                } else if matches!(&rf.referer, Judged::Is(x) if x != &q.referer) {
                                    Some(format!("referer: got {:?}", q.referer))
                                } else if matches!(&rf.cookies, Judged::Is(c) if c.iter().enumerate().map(|(i,(n,v))| (n.clone(), v.clone(), i)).collect::<Vec<_>>() != q.cookies.iter().map(|c| (c.name.clone(), c.value.clone(), c.position)).collect::<Vec<_>>()) {
                                    Some(format!("cookies: got {:?}", q.cookies))
                                } else {
                                    let first_al = rf.headers.iter().find(|h| h.name.eq_ignore_ascii_case("accept-language")).map(|h| h.value.clone());
                                    if q.accept_language != first_al {
                                        Some(format!("accept_language: expected {:?}, got {:?}", first_al, q.accept_language))
                                    } else {
                                        None
                                    }
                                }
                            }
                            other => Some(format!("Http1Parser::parse_request: {}", canon_h1_req(&other))),
                        })
                    } else {
                        rt::guard(|| match e.h1.parse_response(head) {
                            Ok(Some(q)) => {
                                let want_v = if rf.minor == 0 { dbhttp::Version::V10 } else { dbhttp::Version::V11 };
                                if q.status_code != rf.status || q.version != want_v {
                                    Some(format!("status line: got {:?} {}", q.version, q.status_code))
                                } else if q.reason_phrase != rf.reason {
                                    Some(format!("reason: expected {:?}, got {:?}", rf.reason, q.reason_phrase))
                                } else if let Some(d) = cmp_headers(&q.headers, &rf.headers) {
                                    Some(d)
                                } else if q.server != rf.software {
                                    Some(format!("server: expected {:?}, got {:?}", rf.software, q.server))
                                } else {
                                    None
                                }
                            }
                            other => Some(format!("Http1Parser::parse_response: {}", canon_h1_res(&other))),
                        })
                    };
                    match diff {
                        Err(p) => {
                            ctx.judge(false, &[], WHAT_PANIC, || json!({"input": show(head), "panic": p}));
                        }
                        Ok(d) => {
                            ctx.judge(d.is_none(), &[], WHAT_REF, || {
                                json!({"entry": "Http1Parser", "kind": if is_req {"request"} else {"response"}, "difference": d, "input": show(head)})
                            });
                        }
                    }
                }
            }
        }
    } else {
        ctx.class(&format!("unjudged-head:{tag}"));
        ctx.bucket(&format!("odd/{}/{tag}", if is_req { "req" } else { "res" }));
    }

    // ---- oracle (a)
    let base = match parse(head) {
        Ok(b) => b,
        Err(p) => {
            ctx.judge(false, &[], WHAT_PANIC, || json!({"input": show(head), "panic": p}));
            return None;
        }
    };
    let base_h1 = if with_h1 {
        Some(if is_req { canon_h1_req(&e.h1.parse_request(head)) } else { canon_h1_res(&e.h1.parse_response(head)) })
    } else {
        None
    };
    for (kind, body) in bodies(r, with_big) {
        let mut data = head.to_vec();
        data.extend_from_slice(&body);
        match parse(&data) {
            Err(p) => {
                ctx.judge(false, &[], WHAT_PANIC, || json!({"head": show(head), "body_kind": kind, "body": show(&body), "panic": p}));
            }
            Ok(with_body) => {
                if independent {
                    ctx.judge(with_body == base, &[], WHAT_BODY, || {
                        json!({"entry": "HttpProcessors", "kind": if is_req {"request"} else {"response"}, "head": show(head),
                               "body_kind": kind, "body": show(&body), "head_alone": base, "head_with_body": with_body})
                    });
                    ctx.bucket(&format!("body/{kind}/{}/{}", if is_req { "req" } else { "res" }, if base.is_some() { "reported" } else { "none" }));
                } else {
                    ctx.class("crash-only:lf-only-head-with-body");
                }
            }
        }
        if let Some(bh) = &base_h1 {
            let got = rt::guard(|| if is_req { canon_h1_req(&e.h1.parse_request(&data)) } else { canon_h1_res(&e.h1.parse_response(&data)) });
            match got {
                Err(p) => {
                    ctx.judge(false, &[], WHAT_PANIC, || json!({"head": show(head), "body_kind": kind, "panic": p}));
                }
                Ok(g) => {
                    if independent {
                        ctx.judge(&g == bh, &[], WHAT_BODY, || {
                            json!({"entry": "Http1Parser", "head": show(head), "body_kind": kind, "body": show(&body), "head_alone": bh, "head_with_body": g})
                        });
                    }
                }
            }
        }
    }
    base
}

struct PktEngine {
    an: HuginnNetHttp,
    used: usize,
    serial: u32,
}

impl PktEngine {
    fn new() -> PktEngine {
        PktEngine { an: HuginnNetHttp::new(None, 1000).expect("HuginnNetHttp::new"), used: 0, serial: 0 }
    }
}

fn cuts_for(r: &mut Rng, head_len: usize, total: usize, mode: u64) -> (Vec<usize>, &'static str) {
    const SEG: usize = 8000;
    let mut cuts = Vec::new();
    let name;
    match mode {
        0 if total <= 60000 => {
            name = "one-segment";
        }
        0 | 1 => {
            name = "head|body-segments";
            cuts.push(head_len);
            let mut c = head_len + SEG;
            while c < total {
                cuts.push(c);
                c += SEG;
            }
        }
        2 => {
            name = "head-cut|body";
            let k = 1 + r.usize(3);
            for _ in 0..k {
                cuts.push(1 + r.usize(head_len.max(2) - 1));
            }
            cuts.push(head_len);
            let mut c = head_len + SEG;
            while c < total {
                cuts.push(c);
                c += SEG;
            }
        }
        3 => {
            name = "cut-inside-final-crlfcrlf";
            cuts.push(head_len - 1 - r.usize(3.min(head_len - 1)));
            let mut c = head_len + 1 + r.usize(40);
            while c < total {
                cuts.push(c);
                c += SEG;
            }
        }
        _ => {
            name = "head+some-body|rest";
            let mut c = head_len + 1 + r.usize(1400);
            while c < total {
                cuts.push(c);
                c += 1 + r.usize(SEG);
            }
        }
    }
    cuts.sort();
    cuts.dedup();
    cuts.retain(|c| *c > 0 && *c < total);
    // no segment longer than 60000 bytes
    let mut out = Vec::new();
    let mut prev = 0usize;
    for c in cuts.into_iter().chain(std::iter::once(total)) {
        while c - prev > 60000 {
            prev += 60000;
            out.push(prev);
        }
        if c < total {
            out.push(c);
        }
        prev = c;
    }
    (out, name)
}

/// Packet path: one scripted connection carrying req_head‖req_body from the client and
/// res_head‖res_body from the server.  Expected: exactly one request result, at the client segment
/// that completes the head, canonically equal to the direct result of the head alone (same for the
/// response); no result when the head alone yields none.
fn drive_packets(
    ctx: &mut Ctx,
    pe: &mut PktEngine,
    r: &mut Rng,
    req: (&[u8], &Option<String>),
    res: (&[u8], &Option<String>),
    req_body: (&'static str, &[u8]),
    res_body: (&'static str, &[u8]),
    head_ends: (usize, usize),
) {
    if pe.used >= 150 {
        *pe = PktEngine { serial: pe.serial, ..PktEngine::new() };
    }
    pe.used += 1;
    pe.serial = pe.serial.wrapping_add(1);
    let v6 = r.chance(1, 6);
    let cport = 1024 + (pe.serial % 60000) as u16;
    let sport = *r.pick(&[80u16, 8080, 8000, 3128, 443]);
    let ep = if v6 {
        Endpoints {
            client: "2001:db8::c1".parse().unwrap(),
            server: "2001:db8::5e".parse().unwrap(),
            cport,
            sport,
        }
    } else {
        Endpoints::v4([10, 0, (pe.serial >> 8) as u8, pe.serial as u8], cport, [192, 0, 2, 1 + r.below(200) as u8], sport)
    };
    // ISNs far from the 2^32 wrap: segment order by raw sequence number is then the stream order
    let c_isn = 1000 + r.below(1 << 30) as u32;
    let s_isn = 1000 + r.below(1 << 30) as u32;
    let mut sc = Script::new(ep.clone(), Link::Ethernet, c_isn, s_isn);
    sc.handshake();
    let mut cstream = req.0.to_vec();
    cstream.extend_from_slice(req_body.1);
    let mut sstream = res.0.to_vec();
    sstream.extend_from_slice(res_body.1);
    let (m1, m2) = (r.below(5), r.below(5));
    let (ccuts, cmode) = cuts_for(r, head_ends.0, cstream.len(), m1);
    let (scuts, smode) = cuts_for(r, head_ends.1, sstream.len(), m2);
    let first_c = sc.frames.len();
    sc.c_stream(&cstream, &ccuts);
    let first_s = sc.frames.len();
    sc.s_stream(&sstream, &scuts);
    // index of the frame that completes each head
    let completing = |cuts: &[usize], total: usize, head_len: usize| -> usize {
        let mut ends: Vec<usize> = cuts.to_vec();
        ends.push(total);
        ends.iter().position(|e| *e >= head_len).unwrap_or(ends.len() - 1)
    };
    let req_at = first_c + completing(&ccuts, cstream.len(), head_ends.0);
    let res_at = first_s + completing(&scuts, sstream.len(), head_ends.1);

    let mut req_seen: Vec<(usize, String)> = Vec::new();
    let mut res_seen: Vec<(usize, String)> = Vec::new();
    let mut extra: Option<String> = None;
    for (i, f) in sc.frames.iter().enumerate() {
        match rt::guard(|| pe.an.verif_process_packet(f)) {
            Err(p) => {
                ctx.judge(false, &[], WHAT_PANIC, || json!({"frame_index": i, "frame": show(f), "panic": p}));
                *pe = PktEngine { serial: pe.serial, ..PktEngine::new() };
                return;
            }
            Ok(Err(e)) => extra = Some(format!("frame {i}: Err({e})")),
            Ok(Ok(out)) => {
                if let Some(q) = &out.http_request {
                    let ends_ok = q.source.ip == ep.client && q.source.port == ep.cport && q.destination.ip == ep.server && q.destination.port == ep.sport && q.lang == q.sig.lang;
                    req_seen.push((i, format!("{}{}", if ends_ok { "" } else { "WRONG-ENDPOINTS-OR-LANG " }, canon::http_req_sig(&q.sig))));
                }
                if let Some(q) = &out.http_response {
                    let ends_ok = q.source.ip == ep.server && q.source.port == ep.sport && q.destination.ip == ep.client && q.destination.port == ep.cport;
                    res_seen.push((i, format!("{}{}", if ends_ok { "" } else { "WRONG-ENDPOINTS " }, canon::http_res_sig(&q.sig))));
                }
            }
        }
    }
    let want_req: Vec<(usize, String)> = req.1.iter().map(|c| (req_at, c.clone())).collect();
    let want_res: Vec<(usize, String)> = res.1.iter().map(|c| (res_at, c.clone())).collect();
    let ok = req_seen == want_req && res_seen == want_res && extra.is_none();
    ctx.judge(ok, &[], WHAT_PKT, || {
        json!({
            "client_stream": {"head": show(req.0), "body_kind": req_body.0, "body": show(req_body.1), "cuts": ccuts, "mode": cmode, "first_frame": first_c},
            "server_stream": {"head": show(res.0), "body_kind": res_body.0, "body": show(res_body.1), "cuts": scuts, "mode": smode, "first_frame": first_s},
            "ipv6": v6, "c_isn": c_isn, "s_isn": s_isn,
            "expected_request_results": want_req, "actual_request_results": req_seen,
            "expected_response_results": want_res, "actual_response_results": res_seen,
            "errors": extra,
        })
    });
    ctx.bucket(&format!("pkt/req:{cmode}/{}/{}", req_body.0, if req.1.is_some() { "reported" } else { "none" }));
    ctx.bucket(&format!("pkt/res:{smode}/{}/{}", res_body.0, if res.1.is_some() { "reported" } else { "none" }));
}

// ---------------------------------------------------------------------------- exhaustive parts

fn exhaustive_part(ctx: &mut Ctx, e: &Engines) {
    let mut r = ctx.rng(500);
    let mut idx: u64 = 0;
    let mut take = |ctx: &Ctx| -> bool {
        idx += 1;
        ctx.mine(idx)
    };
    // every method x version x {0, 1, 2 fields}
    for m in h1ref::METHODS {
        for minor in 0..2u8 {
            for fields in ["", "Host: example.com\r\n", "User-Agent: ua/1\r\nAccept-Language: fr;q=0.5, de\r\n"] {
                if !take(ctx) {
                    continue;
                }
                let head = format!("{m} /x HTTP/1.{minor}\r\n{fields}\r\n").into_bytes();
                drive_direct(ctx, e, &mut r, &head, true, true, true, "", false, true);
            }
        }
    }
    // every status 000..999 x version x reason form
    for status in 0..1000u16 {
        for minor in 0..2u8 {
            if !take(ctx) {
                continue;
            }
            let line = match status % 3 {
                0 => format!("HTTP/1.{minor} {status:03}\r\n"),
                1 => format!("HTTP/1.{minor} {status:03} \r\n"),
                _ => format!("HTTP/1.{minor} {status:03} Reason Phrase\r\n"),
            };
            let head = format!("{line}Server: s/{status}\r\nContent-Length: 0\r\n\r\n").into_bytes();
            drive_direct(ctx, e, &mut r, &head, false, true, true, "", false, status % 7 == 0);
        }
    }
    // every listed name of both directions, canonical + lower + upper, alone and after another field,
    // each with every OWS form
    let mut names: Vec<&'static str> = Vec::new();
    for l in [req_lists(), res_lists()] {
        names.extend(l.optional.iter());
        names.extend(l.skip_value.iter());
        names.extend(l.common.iter());
    }
    names.extend(["Cookie", "Referer", "Accept-Language", "Server", "User-Agent"]);
    names.sort();
    names.dedup();
    let ows_forms: [(&str, &str); 6] = [("", ""), (" ", ""), (" ", " "), ("\t", "\t"), (" \t ", "\t \t"), ("", "  ")];
    for nm in &names {
        for variant in 0..3 {
            let name = match variant {
                0 => nm.to_string(),
                1 => nm.to_ascii_lowercase(),
                _ => nm.to_ascii_uppercase(),
            };
            for (pre, post) in ows_forms {
                for is_req in [true, false] {
                    if !take(ctx) {
                        continue;
                    }
                    let value = match nm.to_ascii_lowercase().as_str() {
                        "cookie" => "a=1; b=2; flag",
                        "accept-language" => "es;q=0.3,ja ; q=0.8, xx",
                        _ => "some value, with: punctuation",
                    };
                    let start = if is_req { "GET / HTTP/1.1\r\n" } else { "HTTP/1.1 200 OK\r\n" };
                    let head = format!("{start}X-First: 1\r\n{name}:{pre}{value}{post}\r\nX-Last: z\r\n\r\n").into_bytes();
                    drive_direct(ctx, e, &mut r, &head, is_req, true, true, "", false, false);
                }
            }
        }
    }
    // Accept-Language: every ordered list of length <= 3 over 12 atoms x 4 whitespace styles
    let tags = ["en", "fr-CA", "xx"];
    let qs = [None, Some("0.9"), Some("0.5"), Some("1.0")];
    let mut atoms: Vec<(String, Option<&str>)> = Vec::new();
    for t in tags {
        for q in qs {
            atoms.push((t.to_string(), q));
        }
    }
    let styles: [(&str, &str); 4] = [(",", ";q="), (", ", ";q="), (", ", "; q="), (" , ", " ;\tq=")];
    let mut lists_: Vec<Vec<usize>> = Vec::new();
    for a in 0..atoms.len() {
        lists_.push(vec![a]);
        for b in 0..atoms.len() {
            lists_.push(vec![a, b]);
            for c in 0..atoms.len() {
                lists_.push(vec![a, b, c]);
            }
        }
    }
    for l in &lists_ {
        for (comma, semi) in styles {
            if !take(ctx) {
                continue;
            }
            let v: Vec<String> = l
                .iter()
                .map(|i| match atoms[*i].1 {
                    None => atoms[*i].0.clone(),
                    Some(q) => format!("{}{semi}{q}", atoms[*i].0),
                })
                .collect();
            let head = format!("GET / HTTP/1.1\r\nHost: h\r\nAccept-Language: {}\r\n\r\n", v.join(comma)).into_bytes();
            // reference only (the body family is exercised elsewhere)
            let Some(rf) = h1ref::ref_request(&head, &e.reql) else {
                ctx.inconclusive("generator produced a head outside the reference domain");
                continue;
            };
            let rf = Some(rf);
            let got = rt::guard(|| e.procs.parse_request(&head).map(|o| (o.lang.clone(), cmp_request(&o, rf.as_ref().unwrap()))));
            match (rf.as_ref(), got) {
                (Some(rf), Ok(Some((lang, diff)))) => {
                    ctx.judge(diff.is_none(), &[], WHAT_REF, || json!({"entry": "HttpProcessors", "difference": diff, "input": show(&head), "lang": lang}));
                    ctx.bucket(&format!("al-exhaustive/{}/{:?}", l.len(), rf.lang));
                }
                (_, Ok(None)) => {
                    ctx.judge(false, &[], WHAT_REF, || json!({"difference": "no result", "input": show(&head)}));
                }
                (_, Err(p)) => {
                    ctx.judge(false, &[], WHAT_PANIC, || json!({"input": show(&head), "panic": p}));
                }
                (None, _) => ctx.inconclusive("generator produced a head outside the reference domain"),
            }
        }
    }
    ctx.exhaustive("16 methods x 2 versions x 3 field sets; status 100..599 x 2 versions x 3 reason forms; every listed header name x 3 casings x 6 OWS forms x request/response; all Accept-Language lists of length <= 3 over {en, fr-CA, xx} x {no q, 0.9, 0.5, 1.0} x 4 whitespace styles");
}

/// Inputs on which the specification is silent or disputed: executed, recorded as notes, never judged.
fn probes(ctx: &mut Ctx, e: &Engines) {
    if ctx.shard != 0 {
        return;
    }
    let cases: [(&str, &[u8]); 5] = [
        ("upper-case Q= weight (RFC 5234: literals are case-insensitive)", b"GET / HTTP/1.1\r\nAccept-Language: en;Q=0.1, fr;Q=0.9\r\n\r\n"),
        ("upper-case language tag", b"GET / HTTP/1.1\r\nAccept-Language: EN-US\r\n\r\n"),
        ("value with U+00A0 at both edges", "GET / HTTP/1.1\r\nX-Pad: \u{a0}v\u{a0}\r\n\r\n".as_bytes()),
        ("all known languages have q=0", b"GET / HTTP/1.1\r\nAccept-Language: en;q=0, fr;q=0\r\n\r\n"),
        ("two Cookie fields", b"GET / HTTP/1.1\r\nCookie: a=1\r\nCookie: b=2\r\n\r\n"),
    ];
    for (what, input) in cases {
        let got = rt::guard(|| e.procs.parse_request(input).map(|o| canon::http_req_sig(&o)));
        match got {
            Ok(g) => ctx.note(&format!("unjudged probe — {what}: {:?}", g)),
            Err(p) => {
                ctx.judge(false, &[], WHAT_PANIC, || json!({"input": show(input), "panic": p}));
            }
        }
    }
}

pub fn run(ctx: &mut Ctx) {
    let e = Engines { procs: HttpProcessors::new(), h1: Http1Parser::new(), reql: req_lists(), resl: res_lists() };
    probes(ctx, &e);
    if !ctx.miri() {
        exhaustive_part(ctx, &e);
    }

    let per_shard = ctx.scale(24_000, 1_200_000, 40) / ctx.nshards as u64 + 1;
    let mut r = ctx.rng(5);
    let mut pe = PktEngine::new();
    for i in 0..per_shard {
        if i % 256 == 0 {
            rt::progress(ctx, &format!("C05 generated pair {i}/{per_shard}"));
        }
        let odd = r.chance(1, 6);
        let with_big = i % 8 == 3 && !ctx.miri();
        let with_h1 = i % 3 == 0;
        // a request head and a response head per iteration
        let (req, req_ind, req_tag, req_judged) = if odd {
            let (b, ind, tag) = gen_odd(&mut r, true);
            (b, ind, tag, false)
        } else {
            (gen_request(&mut r), true, "", true)
        };
        let (res, res_ind, res_tag, res_judged) = if odd && r.chance(1, 2) {
            let (b, ind, tag) = gen_odd(&mut r, false);
            (b, ind, tag, false)
        } else {
            (gen_response(&mut r), true, "", true)
        };
        let req_base = drive_direct(ctx, &e, &mut r, &req, true, req_judged, req_ind, req_tag, with_big, with_h1);
        let res_base = drive_direct(ctx, &e, &mut r, &res, false, res_judged, res_ind, res_tag, with_big, with_h1);

        // packet path (only where the head/body boundary is the CRLFCRLF)
        if req_ind && res_ind {
            let (Some(rq_end), Some(rs_end)) = (h1ref::head_end(&req), h1ref::head_end(&res)) else { continue };
            if rq_end != req.len() || rs_end != res.len() {
                continue;
            }
            let bs = bodies(&mut r, i % 16 == 5 && !ctx.miri());
            let reps = if ctx.quick() { 2 } else { 3 };
            for _ in 0..reps {
                let (bk1, b1) = { let x = r.pick(&bs); (x.0, x.1.clone()) };
                let (bk2, b2) = if r.chance(1, 5) { ("empty", Vec::new()) } else { let x = r.pick(&bs); (x.0, x.1.clone()) };
                let (bk1, b1) = if r.chance(1, 8) { ("empty", Vec::new()) } else { (bk1, b1) };
                drive_packets(ctx, &mut pe, &mut r, (&req, &req_base), (&res, &res_base), (bk1, &b1), (bk2, &b2), (rq_end, rs_end));
            }
        }
    }
}

pub fn spec() -> PropSpec {
    PropSpec {
        id: "C05",
        run,
        shards: super::shards_16,
        rule: "grammar-generated request and response heads (0..100 fields, duplicates, case variants, UTF-8, OWS forms, both versions, 16 methods, status 100..599) are (b) compared field by field and as p0f signature with an independent RFC 7230/7231/6265 + p0f reader, and (a) re-parsed with ~25 bodies each (all line-end styles, header-like text, binary, invalid and cut UTF-8, NUL, 64 KiB) through HttpProcessors, Http1Parser and scripted TCP connections (one segment, head|body, head cut, cut inside the final CRLFCRLF); small sub-domains are enumerated completely; a bucket is a distinct (direction, method/status class, version, field-count class, software/cookie/referer multiplicity, language outcome, horder entry kinds, duplicates, absent count) head class, a (body kind, direction, outcome) class or a (segmentation mode, body kind, outcome) class",
        assumptions: &[
            "judged heads: CRLF line ends, start line METHOD SP target SP HTTP/1.x or HTTP/1.x SP 3DIGIT [SP reason] with any status 000..999, field names are RFC 7230 tokens, values are UTF-8 without control characters whose first/last character after SP/HTAB trimming is not whitespace under any definition, at most 100 fields, lines below 8000 bytes",
            "heads with colon-less lines, empty names, obs-fold, whitespace before the colon, non-UTF-8 bytes, more than 100 fields or unknown methods/versions are not compared with the reference; body independence is still judged for them (their head ends at the first CRLFCRLF); LF-only heads are crash-only",
            "Cookie and Referer are lifted out of headers/horder as the task specification prescribes; cookies are judged when there is exactly one Cookie field in RFC 6265 form (no empty pieces, no whitespace around '='), referer when there is at most one Referer field",
            "optional mark / value elision are judged strictly for names spelled exactly as in the p0f lists; for case variants only name, order and (if printed) value are judged",
            "language: judged for Accept-Language values in the RFC 7231 grammar with lower-case q= weights and primary subtags from a fixed 12-entry dictionary plus the non-codes xx/qq/zz/*; a best known language with q=0 and repeated Accept-Language fields whose first-wins and combined readings differ are not judged",
            "packet path: in-order segments, initial sequence numbers below 2^30 (no wrap), one request and one response per connection",
        ],
        parent_stage: None,
    }
}
