//! C06 — signature text round-trips and the database loads losslessly.
//!
//! Oracles:
//!  (1) value -> to_string() -> parse() == value, over the whole p0f vocabulary (component level and
//!      embedded in full signatures);
//!  (2) canonical line -> parse() -> to_string() == line and parse(line) == the value the line denotes,
//!      for lines printed by the independent printers of `p0fref` and for every `sig` line of the
//!      bundled p0f.fp;
//!  (3) Database::from_str / load_default against the independent reader `p0fref::read_db`;
//!  (4) clearly invalid database texts must be rejected with Err.

use crate::p0fref::{self as pr, RHdr, RHttp, ROpt, RTcp, RTtl, RWin, RefDb};
use crate::rt::{self, Ctx, PropSpec, Rng};
use huginn_net_db::http as dh;
use huginn_net_db::tcp as dt;
use huginn_net_db::{Database, Type};
use serde_json::json;
use std::str::FromStr;

const BUNDLED: &str = "/repo/huginn-net-db/config/p0f.fp";

const F_UAOS: &str = "C06-UAOS-TRUNCATED";
const F_HORDER: &str = "C06-HTTP-EMPTY-HORDER";
const F_OPT: &str = "C06-UNKNOWN-OPT-OVERFLOW";
const F_SECT: &str = "C06-SECTION-TRAILING-JUNK";

const WHAT_RT: &str = "value -> print -> parse differs from the value";
const WHAT_LINE: &str = "canonical line -> parse -> print differs from the line (or parses to another value)";
const WHAT_DB: &str = "loaded database differs from what the text contains";
const WHAT_INVALID: &str = "invalid database text accepted";
const WHAT_PANIC: &str = "panic inside huginn-net-db";

// ------------------------------------------------------------------ building library values

fn lib_ttl(t: &RTtl) -> dt::Ttl {
    match t {
        RTtl::Value(v) => dt::Ttl::Value(*v),
        RTtl::Distance(v, d) => dt::Ttl::Distance(*v, *d),
        RTtl::Guess(v) => dt::Ttl::Guess(*v),
        RTtl::Bad(v) => dt::Ttl::Bad(*v),
    }
}
fn lib_win(w: &RWin) -> dt::WindowSize {
    match w {
        RWin::Mss(n) => dt::WindowSize::Mss(*n),
        RWin::Mtu(n) => dt::WindowSize::Mtu(*n),
        RWin::Value(n) => dt::WindowSize::Value(*n),
        RWin::Mod(n) => dt::WindowSize::Mod(*n),
        RWin::Any => dt::WindowSize::Any,
    }
}
fn lib_opt(o: &ROpt) -> dt::TcpOption {
    match o {
        ROpt::Eol(n) => dt::TcpOption::Eol(*n),
        ROpt::Nop => dt::TcpOption::Nop,
        ROpt::Mss => dt::TcpOption::Mss,
        ROpt::Ws => dt::TcpOption::Ws,
        ROpt::Sok => dt::TcpOption::Sok,
        ROpt::Sack => dt::TcpOption::Sack,
        ROpt::Ts => dt::TcpOption::TS,
        ROpt::Unknown(n) => dt::TcpOption::Unknown(*n),
    }
}
fn lib_quirk(i: usize) -> dt::Quirk {
    use dt::Quirk::*;
    // same order as p0fref::QUIRKS (p0f README)
    [
        Df, NonZeroID, ZeroID, Ecn, MustBeZero, FlowID, SeqNumZero, AckNumNonZero, AckNumZero, NonZeroURG, Urg, Push,
        OwnTimestampZero, PeerTimestampNonZero, TrailinigNonZero, ExcessiveWindowScaling, OptBad,
    ][i]
    .clone()
}
fn lib_tcp(s: &RTcp) -> dt::Signature {
    dt::Signature {
        version: match s.ver {
            '4' => dt::IpVersion::V4,
            '6' => dt::IpVersion::V6,
            _ => dt::IpVersion::Any,
        },
        ittl: lib_ttl(&s.ttl),
        olen: s.olen,
        mss: s.mss,
        wsize: lib_win(&s.win),
        wscale: s.scale,
        olayout: s.olayout.iter().map(lib_opt).collect(),
        quirks: s.quirks.iter().map(|q| lib_quirk(*q)).collect(),
        pclass: match s.pclass {
            '0' => dt::PayloadSize::Zero,
            '+' => dt::PayloadSize::NonZero,
            _ => dt::PayloadSize::Any,
        },
    }
}
fn lib_hdr(h: &RHdr) -> dh::Header {
    dh::Header { optional: h.optional, name: h.name.clone(), value: h.value.clone() }
}
fn lib_http(s: &RHttp) -> dh::Signature {
    dh::Signature {
        version: match s.ver {
            '0' => dh::Version::V10,
            '1' => dh::Version::V11,
            _ => dh::Version::Any,
        },
        horder: s.horder.iter().map(lib_hdr).collect(),
        habsent: s.habsent.iter().map(lib_hdr).collect(),
        expsw: s.expsw.clone(),
    }
}

// ------------------------------------------------------------------------------ basic checks

/// (1) and (2) for one value of a type with Display + FromStr + PartialEq.
fn check_component<T>(ctx: &mut Ctx, kind: &str, value: &T, canonical: &str)
where
    T: std::fmt::Display + std::fmt::Debug + PartialEq + FromStr,
    <T as FromStr>::Err: std::fmt::Debug,
{
    let r = rt::guard(|| {
        let printed = value.to_string();
        let back = printed.parse::<T>();
        let from_line = canonical.parse::<T>();
        let reprint = from_line.as_ref().ok().map(|v| v.to_string());
        (printed, back, from_line, reprint)
    });
    match r {
        Err(p) => {
            ctx.judge(false, &[], WHAT_PANIC, || json!({"type": kind, "value": format!("{value:?}"), "panic": p}));
        }
        Ok((printed, back, from_line, reprint)) => {
            let ok1 = matches!(&back, Ok(v) if v == value);
            ctx.judge(ok1, &[], WHAT_RT, || {
                json!({"type": kind, "value": format!("{value:?}"), "printed": printed, "parsed_back": format!("{back:?}")})
            });
            let ok2 = matches!(&from_line, Ok(v) if v == value) && reprint.as_deref() == Some(canonical);
            ctx.judge(ok2, &[], WHAT_LINE, || {
                json!({"type": kind, "line": canonical, "denotes": format!("{value:?}"), "parsed": format!("{from_line:?}"), "printed_again": reprint})
            });
        }
    }
}

fn check_tcp(ctx: &mut Ctx, s: &RTcp) {
    let v = lib_tcp(s);
    let line = pr::print_tcp(s);
    check_component(ctx, "tcp::Signature", &v, &line);
}

fn check_http(ctx: &mut Ctx, s: &RHttp) {
    let v = lib_http(s);
    let line = pr::print_http(s);
    if !s.horder.is_empty() {
        check_component(ctx, "http::Signature", &v, &line);
        return;
    }
    // empty header-order list: judged with the deviation model of C06-HTTP-EMPTY-HORDER
    let mut deviant = v.clone();
    deviant.horder = vec![dh::Header { optional: false, name: String::new(), value: None }];
    let r = rt::guard(|| (v.to_string(), v.to_string().parse::<dh::Signature>(), line.parse::<dh::Signature>()));
    match r {
        Err(p) => {
            ctx.judge(false, &[], WHAT_PANIC, || json!({"value": format!("{v:?}"), "panic": p}));
        }
        Ok((printed, back, from_line)) => {
            let ok = matches!(&back, Ok(x) if *x == v);
            let dev = matches!(&back, Ok(x) if *x == deviant);
            ctx.judge(ok, &[(F_HORDER, dev)], WHAT_RT, || {
                json!({"type": "http::Signature", "value": format!("{v:?}"), "printed": printed, "parsed_back": format!("{back:?}")})
            });
            let reprint = from_line.as_ref().ok().map(|x| x.to_string());
            let ok2 = matches!(&from_line, Ok(x) if *x == v) && reprint.as_deref() == Some(line.as_str());
            let dev2 = matches!(&from_line, Ok(x) if *x == deviant) && reprint.as_deref() == Some(line.as_str());
            ctx.judge(ok2, &[(F_HORDER, dev2)], WHAT_LINE, || {
                json!({"type": "http::Signature", "line": line, "denotes": format!("{v:?}"), "parsed": format!("{from_line:?}"), "printed_again": reprint})
            });
        }
    }
}

// --------------------------------------------------------------------------- value generators

const ALL_OPTS_SIMPLE: [ROpt; 6] = [ROpt::Nop, ROpt::Mss, ROpt::Ws, ROpt::Sok, ROpt::Sack, ROpt::Ts];

fn gen_opt(r: &mut Rng) -> ROpt {
    match r.below(10) {
        0 => ROpt::Eol(r.u8()),
        1 => ROpt::Unknown(r.u8()),
        2 => ROpt::Eol(*r.pick(&[0u8, 1, 2, 3, 255])),
        _ => r.pick(&ALL_OPTS_SIMPLE).clone(),
    }
}

fn b8(r: &mut Rng) -> u8 {
    match r.below(4) {
        0 => *r.pick(&[0u8, 1, 9, 10, 63, 64, 99, 100, 127, 128, 199, 200, 254, 255]),
        _ => r.u8(),
    }
}
fn b16(r: &mut Rng) -> u16 {
    match r.below(4) {
        0 => *r.pick(&[0u16, 1, 9, 10, 99, 100, 255, 256, 999, 1000, 1460, 8192, 9999, 10000, 32767, 32768, 65534, 65535]),
        _ => r.u16(),
    }
}

fn gen_tcp(r: &mut Rng) -> RTcp {
    let ttl = match r.below(4) {
        0 => RTtl::Value(b8(r)),
        1 => RTtl::Distance(b8(r), b8(r)),
        2 => RTtl::Guess(b8(r)),
        _ => RTtl::Bad(b8(r)),
    };
    let win = match r.below(5) {
        0 => RWin::Mss(b8(r)),
        1 => RWin::Mtu(b8(r)),
        2 => RWin::Value(b16(r)),
        3 => RWin::Mod(b16(r)),
        _ => RWin::Any,
    };
    let nl = match r.below(8) {
        0 => 0,
        1 => 40,
        2 => 1,
        _ => r.usize(11),
    };
    let nq = match r.below(6) {
        0 => 0,
        1 => 17,
        _ => r.usize(6),
    };
    let mut quirks: Vec<usize> = (0..17).collect();
    r.shuffle(&mut quirks);
    quirks.truncate(nq);
    if r.chance(1, 20) && !quirks.is_empty() {
        let q = quirks[0];
        quirks.push(q); // repeated token
    }
    RTcp {
        ver: *r.pick(&['4', '6', '*']),
        ttl,
        olen: b8(r),
        mss: if r.chance(1, 3) { None } else { Some(b16(r)) },
        win,
        scale: if r.chance(1, 3) { None } else { Some(b8(r)) },
        olayout: (0..nl).map(|_| gen_opt(r)).collect(),
        quirks,
        pclass: *r.pick(&['0', '+', '*']),
    }
}

const HDR_NAMES: [&str; 24] = [
    "Host", "User-Agent", "Accept", "Accept-Language", "Accept-Encoding", "Accept-Charset", "Keep-Alive", "Connection",
    "Referer", "Cookie", "DNT", "UA-CPU", "X-OperaMini-Phone-UA", "x-forwarded-for", "Server", "Date", "Content-Type",
    "Content-Length", "ETag", "Via", "Pragma", "Range", "A", "Z9-",
];
/// no ']' (terminator), ',' or ':' (separators of the enclosing syntax)
const SAFE: &[u8] = b"abcdefghijklmnopqrstuvwxyzABCDEFGHIJKLMNOPQRSTUVWXYZ0123456789 ./;=*()+_@-\"'!?<>[{}|~#$%^&";
/// the alphabet the bundled file itself uses inside brackets (adds ',')
const BUNDLED_ALPHA: &[u8] = b"abcdefghijklmnopqrstuvwxyzABCDEFGHIJKLMNOPQRSTUVWXYZ0123456789 ./;=*()+_@-,";

fn text_over(r: &mut Rng, alpha: &[u8], max: usize) -> String {
    let n = r.usize(max + 1);
    (0..n).map(|_| alpha[r.usize(alpha.len())] as char).collect()
}

fn gen_hname(r: &mut Rng) -> String {
    if r.chance(3, 4) {
        r.pick(&HDR_NAMES).to_string()
    } else {
        let a = b"abcdefghijklmnopqrstuvwxyzABCDEFGHIJKLMNOPQRSTUVWXYZ0123456789-";
        let n = 1 + r.usize(20);
        (0..n).map(|_| a[r.usize(a.len())] as char).collect()
    }
}

fn gen_hdr(r: &mut Rng) -> RHdr {
    let value = match r.below(6) {
        0 | 1 => None,
        2 => Some(String::new()),
        3 => Some(r.pick(&["keep-alive", "gzip, deflate", "*/*", ";q=0.", "utf-8;q=0.7,*;q=0.7", "en-us, en;q=0.7, *;q=0.01", "1"]).to_string()),
        4 => Some(text_over(r, BUNDLED_ALPHA, 30)),
        _ => Some(text_over(r, SAFE, 30)),
    };
    RHdr { optional: r.chance(1, 3), name: gen_hname(r), value }
}

fn gen_http(r: &mut Rng, allow_empty_horder: bool) -> RHttp {
    let nh = match r.below(10) {
        0 if allow_empty_horder => 0,
        0 | 1 => 1,
        2 => 30,
        _ => 1 + r.usize(12),
    };
    let na = match r.below(3) {
        0 => 0,
        _ => r.usize(6),
    };
    let expsw = match r.below(8) {
        0 => String::new(),
        1 => r.pick(&["Firefox/", " Chrom", "(compatible; MSIE", "KHTML, like Gecko)", "a:b", "x,y:z", ":", ",", "???", "Apache/2.x"]).to_string(),
        2 => text_over(r, SAFE, 20),
        3 => format!("{}:{}", text_over(r, SAFE, 8), text_over(r, BUNDLED_ALPHA, 8)),
        _ => r.pick(&["nginx", "Opera/", "Presto/", "Safari", "curl", "gws"]).to_string(),
    };
    RHttp {
        ver: *r.pick(&['0', '1', '*']),
        horder: (0..nh).map(|_| gen_hdr(r)).collect(),
        habsent: (0..na)
            .map(|_| {
                // absent entries are headers too: mostly bare names, sometimes marked or valued
                if r.chance(1, 3) {
                    gen_hdr(r)
                } else {
                    RHdr { optional: false, name: gen_hname(r), value: None }
                }
            })
            .collect(),
        expsw,
    }
}

// ------------------------------------------------------------------- part 1: the vocabulary

fn base_tcp() -> RTcp {
    RTcp {
        ver: '4',
        ttl: RTtl::Value(64),
        olen: 0,
        mss: Some(1460),
        win: RWin::Value(8192),
        scale: Some(0),
        olayout: vec![ROpt::Mss, ROpt::Nop, ROpt::Ws],
        quirks: vec![0, 1],
        pclass: '0',
    }
}

fn vocabulary(ctx: &mut Ctx) {
    let mut idx: u64 = 0;
    macro_rules! mine {
        () => {{
            idx += 1;
            // the Miri tier walks a 1-in-37 sample of the enumeration
            ctx.mine(idx) && (!ctx.miri() || idx % 37 == 0)
        }};
    }
    // TTL: four forms x 0..255; Distance(t, d) completely (65 536 values)
    for t in 0..=255u8 {
        if !mine!() {
            continue;
        }
        for (form, ttl) in [("value", RTtl::Value(t)), ("guess", RTtl::Guess(t)), ("bad", RTtl::Bad(t))] {
            check_component(ctx, "Ttl", &lib_ttl(&ttl), &pr::print_ttl(&ttl));
            let mut s = base_tcp();
            s.ttl = ttl;
            check_tcp(ctx, &s);
            ctx.bucket(&format!("ttl/{form}/{}", t / 32));
        }
        for d in 0..=255u8 {
            let ttl = RTtl::Distance(t, d);
            check_component(ctx, "Ttl", &lib_ttl(&ttl), &pr::print_ttl(&ttl));
            if d % 16 == t % 16 || d == 0 || d == 255 {
                let mut s = base_tcp();
                s.ttl = ttl;
                check_tcp(ctx, &s);
            }
        }
        ctx.bucket(&format!("ttl/distance/{}", t / 32));
    }
    // window forms
    for n in 0..=255u8 {
        if !mine!() {
            continue;
        }
        for w in [RWin::Mss(n), RWin::Mtu(n)] {
            check_component(ctx, "WindowSize", &lib_win(&w), &pr::print_win(&w));
            let mut s = base_tcp();
            s.win = w;
            check_tcp(ctx, &s);
        }
        // olen, wscale, option kinds carrying a number
        let mut s = base_tcp();
        s.olen = n;
        s.scale = Some(n);
        s.olayout = vec![ROpt::Eol(n), ROpt::Unknown(n)];
        check_tcp(ctx, &s);
        for o in [ROpt::Eol(n), ROpt::Unknown(n)] {
            check_component(ctx, "TcpOption", &lib_opt(&o), &pr::print_opt(&o));
        }
        ctx.bucket(&format!("num8/{}", n / 16));
    }
    let step: usize = if ctx.miri() { 51 } else { 1 };
    for hi in 0..=255u16 {
        if !mine!() {
            continue;
        }
        for lo in (0..=255u16).step_by(step) {
            let n = (hi << 8) | lo;
            for w in [RWin::Value(n), RWin::Mod(n)] {
                check_component(ctx, "WindowSize", &lib_win(&w), &pr::print_win(&w));
            }
            if lo % 32 == hi % 32 || n == 0 || n == 65535 {
                let mut s = base_tcp();
                s.win = RWin::Mod(n);
                s.mss = Some(n);
                check_tcp(ctx, &s);
                s.win = RWin::Value(n);
                check_tcp(ctx, &s);
            }
        }
        ctx.bucket(&format!("num16/{}", hi / 16));
    }
    if mine!() {
        check_component(ctx, "WindowSize", &dt::WindowSize::Any, "*");
        for (o, t) in [(ROpt::Nop, "nop"), (ROpt::Mss, "mss"), (ROpt::Ws, "ws"), (ROpt::Sok, "sok"), (ROpt::Sack, "sack"), (ROpt::Ts, "ts")] {
            check_component(ctx, "TcpOption", &lib_opt(&o), t);
            ctx.bucket(&format!("opt/{t}"));
        }
        for (v, t) in [(dt::IpVersion::V4, "4"), (dt::IpVersion::V6, "6"), (dt::IpVersion::Any, "*")] {
            check_component(ctx, "IpVersion", &v, t);
        }
        for (v, t) in [(dt::PayloadSize::Zero, "0"), (dt::PayloadSize::NonZero, "+"), (dt::PayloadSize::Any, "*")] {
            check_component(ctx, "PayloadSize", &v, t);
        }
        for (i, q) in pr::QUIRKS.iter().enumerate() {
            check_component(ctx, "Quirk", &lib_quirk(i), q);
            ctx.bucket(&format!("quirk/{q}"));
        }
        // wildcards / absent numbers, ip versions and payload classes in full signatures
        for ver in ['4', '6', '*'] {
            for pclass in ['0', '+', '*'] {
                for mss in [None, Some(0u16), Some(65535)] {
                    for scale in [None, Some(0u8), Some(255)] {
                        let mut s = base_tcp();
                        s.ver = ver;
                        s.pclass = pclass;
                        s.mss = mss;
                        s.scale = scale;
                        check_tcp(ctx, &s);
                        s.win = RWin::Any;
                        s.olayout.clear();
                        s.quirks.clear();
                        check_tcp(ctx, &s);
                        ctx.bucket(&format!("wild/{ver}{pclass}/{}{}", mss.is_some(), scale.is_some()));
                    }
                }
            }
        }
    }
    // every ordered pair of quirks, every single quirk, the full list in README order and reversed
    for a in 0..17usize {
        if !mine!() {
            continue;
        }
        let mut s = base_tcp();
        s.quirks = vec![a];
        check_tcp(ctx, &s);
        for b in 0..17usize {
            s.quirks = vec![a, b];
            check_tcp(ctx, &s);
            s.quirks = vec![b, a, b];
            check_tcp(ctx, &s);
        }
        s.quirks = (0..17).map(|i| (i + a) % 17).collect();
        check_tcp(ctx, &s);
        s.quirks.reverse();
        check_tcp(ctx, &s);
        ctx.bucket(&format!("quirk-lists/{}", pr::QUIRKS[a]));
    }
    // option layouts: every length 0..40, every single kind at every length class, all ordered pairs of kinds
    let kinds: Vec<ROpt> = vec![ROpt::Eol(0), ROpt::Eol(3), ROpt::Nop, ROpt::Mss, ROpt::Ws, ROpt::Sok, ROpt::Sack, ROpt::Ts, ROpt::Unknown(0), ROpt::Unknown(77), ROpt::Unknown(255)];
    let mut r = ctx.rng(61);
    for len in 0..=40usize {
        if !mine!() {
            continue;
        }
        for k in &kinds {
            let mut s = base_tcp();
            s.olayout = vec![k.clone(); len];
            check_tcp(ctx, &s);
        }
        for _ in 0..20 {
            let mut s = base_tcp();
            s.olayout = (0..len).map(|_| gen_opt(&mut r)).collect();
            check_tcp(ctx, &s);
        }
        ctx.bucket(&format!("olayout/len{len}"));
    }
    for a in &kinds {
        if !mine!() {
            continue;
        }
        for b in &kinds {
            let mut s = base_tcp();
            s.olayout = vec![a.clone(), b.clone()];
            check_tcp(ctx, &s);
            s.olayout = vec![b.clone(), a.clone(), ROpt::Ts, a.clone()];
            check_tcp(ctx, &s);
        }
    }
    ctx.exhaustive("Ttl: Value/Guess/Bad x 0..255 and Distance(t,d) x 0..255^2; WindowSize: Mss/Mtu x 0..255, Value/Mod x 0..65535, Any; TcpOption: eol+0..255, ?0..255 and the six named kinds; 17 quirks, all ordered pairs; IpVersion; PayloadSize; olen/wscale 0..255; option layouts of every length 0..40");

    // HTTP header component level + structured enumeration
    if mine!() {
        for optional in [false, true] {
            for name in HDR_NAMES {
                for value in [None, Some(""), Some("x"), Some("gzip, deflate"), Some(";q=0."), Some("a b=c")] {
                    let h = RHdr { optional, name: name.to_string(), value: value.map(|s| s.to_string()) };
                    check_component(ctx, "http::Header", &lib_hdr(&h), &pr::print_hdr(&h));
                }
            }
        }
        for ver in ['0', '1', '*'] {
            for nh in [0usize, 1, 2, 5] {
                for na in [0usize, 1, 3] {
                    for expsw in ["", "Firefox/", " Chrom", "a:b,c", ":", "???"] {
                        let s = RHttp {
                            ver,
                            horder: (0..nh).map(|i| RHdr { optional: i % 2 == 1, name: HDR_NAMES[i].to_string(), value: if i % 3 == 0 { None } else { Some(format!("v{i}")) } }).collect(),
                            habsent: (0..na).map(|i| RHdr { optional: (i + nh) % 3 == 1, name: HDR_NAMES[10 + i].to_string(), value: if (i + nh) % 4 == 2 { Some(format!("a{i}")) } else { None } }).collect(),
                            expsw: expsw.to_string(),
                        };
                        check_http(ctx, &s);
                        ctx.bucket(&format!("http/{ver}/h{nh}/a{na}/{}", if expsw.is_empty() { "nosw" } else { "sw" }));
                    }
                }
            }
        }
        // outside the p0f vocabulary: recorded, not judged
        for (what, text) in [("http version 2 text", "2:Host::"), ("http version 3 text", "3:Host::"), ("header name with '_'", "1:X_Y::"), ("value with ':'", "1:Host=[a:b]::")] {
            let got = rt::guard(|| text.parse::<dh::Signature>().map(|s| s.to_string()));
            ctx.note(&format!("unjudged probe — {what} {text:?}: {got:?}"));
        }
        let v20 = dh::Signature { version: dh::Version::V20, horder: vec![dh::Header::new("Host")], habsent: vec![], expsw: String::new() };
        let got = rt::guard(|| v20.to_string().parse::<dh::Signature>().is_ok());
        ctx.note(&format!("unjudged probe — Version::V20 prints {:?}, parses back: {got:?}", v20.to_string()));
    }
}

// ---------------------------------------------------------------- part 2: random signatures

fn random_values(ctx: &mut Ctx) {
    let n = ctx.scale(4_000_000, 200_000_000, 200) / ctx.nshards as u64 + 1;
    let mut r = ctx.rng(62);
    for i in 0..n {
        if i % 3 != 2 {
            let s = gen_tcp(&mut r);
            check_tcp(ctx, &s);
            let ttl = match s.ttl {
                RTtl::Value(_) => "v",
                RTtl::Distance(..) => "d",
                RTtl::Guess(_) => "g",
                RTtl::Bad(_) => "b",
            };
            let win = match s.win {
                RWin::Mss(_) => "mss",
                RWin::Mtu(_) => "mtu",
                RWin::Value(_) => "val",
                RWin::Mod(_) => "mod",
                RWin::Any => "any",
            };
            ctx.bucket(&format!(
                "tcp/{}{}/{ttl}/{win}/m{}s{}/l{}q{}",
                s.ver, s.pclass, s.mss.is_some() as u8, s.scale.is_some() as u8,
                match s.olayout.len() { 0 => "0", 1 => "1", 2..=10 => "2-10", _ => "40" },
                match s.quirks.len() { 0 => "0", 1..=5 => "1-5", _ => "17" }
            ));
        } else {
            let s = gen_http(&mut r, true);
            check_http(ctx, &s);
            ctx.bucket(&format!(
                "httpr/{}/h{}/a{}/opt{}val{}/sw{}",
                s.ver,
                match s.horder.len() { 0 => "0", 1 => "1", 2..=12 => "2-12", _ => "30" },
                s.habsent.len().min(3),
                s.horder.iter().any(|h| h.optional) as u8,
                s.horder.iter().any(|h| h.value.is_some()) as u8,
                if s.expsw.is_empty() { 0 } else if s.expsw.contains(':') || s.expsw.contains(',') { 2 } else { 1 }
            ));
        }
    }
}

// ------------------------------------------------------------------- part 3: database loading

fn lib_label_fields(l: &huginn_net_db::Label) -> (bool, Option<String>, String, Option<String>) {
    (matches!(l.ty, Type::Generic), l.class.clone(), l.name.clone(), l.flavor.clone())
}

/// what the library's restricted `ua_os` grammar keeps of one line (deviation model of C06-UAOS-TRUNCATED)
fn uaos_deviant(lines: &[Vec<(String, Option<String>)>]) -> Vec<(String, Option<String>)> {
    let mut out = Vec::new();
    for line in lines {
        for (name, sub) in line {
            let plain = sub.is_none() && name.bytes().all(|b| b.is_ascii_alphanumeric());
            if plain {
                out.push((name.clone(), None));
                continue;
            }
            let prefix: String = name.chars().take_while(|c| c.is_ascii_alphanumeric()).collect();
            if !prefix.is_empty() {
                out.push((prefix, None));
            }
            break;
        }
    }
    out
}

fn compare_db(ctx: &mut Ctx, origin: &str, text: &str, db: &Database, rf: &RefDb) {
    let excerpt = |t: &str| -> String {
        if t.len() <= 5000 {
            t.to_string()
        } else {
            format!("{}…[{} bytes]", &t[..t.char_indices().nth(3000).map(|x| x.0).unwrap_or(t.len())], t.len())
        }
    };
    ctx.judge(db.classes == rf.classes, &[], WHAT_DB, || {
        json!({"origin": origin, "component": "classes", "expected": rf.classes, "actual": db.classes, "text": excerpt(text)})
    });
    let dev = db.ua_os == uaos_deviant(&rf.ua_os_lines);
    ctx.judge(db.ua_os == rf.ua_os, &[(F_UAOS, dev)], WHAT_DB, || {
        json!({"origin": origin, "component": "ua_os", "expected": rf.ua_os, "actual": db.ua_os,
               "ua_os_lines": text.lines().filter(|l| l.trim_start().starts_with("ua_os")).collect::<Vec<_>>()})
    });
    let want_mtu: Vec<(String, Vec<Option<u16>>)> =
        rf.mtu.iter().map(|(l, v)| (l.clone(), v.iter().map(|s| s.parse::<u16>().ok()).collect())).collect();
    let got_mtu: Vec<(String, Vec<Option<u16>>)> = db.mtu.iter().map(|(l, v)| (l.clone(), v.iter().map(|x| Some(*x)).collect())).collect();
    ctx.judge(want_mtu == got_mtu, &[], WHAT_DB, || {
        json!({"origin": origin, "component": "mtu", "expected": format!("{want_mtu:?}"), "actual": format!("{got_mtu:?}"), "text": excerpt(text)})
    });
    type Entry = ((bool, Option<String>, String, Option<String>), Vec<String>);
    let tables: [Vec<Entry>; 4] = [
        db.tcp_request.entries.iter().map(|(l, s)| (lib_label_fields(l), s.iter().map(|x| x.to_string()).collect())).collect(),
        db.tcp_response.entries.iter().map(|(l, s)| (lib_label_fields(l), s.iter().map(|x| x.to_string()).collect())).collect(),
        db.http_request.entries.iter().map(|(l, s)| (lib_label_fields(l), s.iter().map(|x| x.to_string()).collect())).collect(),
        db.http_response.entries.iter().map(|(l, s)| (lib_label_fields(l), s.iter().map(|x| x.to_string()).collect())).collect(),
    ];
    for t in 0..4 {
        let want: Vec<Entry> = rf.tables[t]
            .iter()
            .map(|(l, s)| ((l.generic, l.class.clone(), l.name.clone(), l.flavor.clone()), s.clone()))
            .collect();
        let got = &tables[t];
        let ok = &want == got;
        ctx.judge(ok, &[], WHAT_DB, || {
            // first difference
            let mut first = format!("labels: expected {}, got {}", want.len(), got.len());
            for (i, (w, g)) in want.iter().zip(got.iter()).enumerate() {
                if w != g {
                    first = format!("entry {i}: expected {w:?}, got {g:?}");
                    break;
                }
            }
            json!({"origin": origin, "component": pr::TABLE_NAMES[t], "first_difference": first,
                   "expected_labels": want.len(), "actual_labels": got.len(),
                   "expected_signatures": want.iter().map(|e| e.1.len()).sum::<usize>(),
                   "actual_signatures": got.iter().map(|e| e.1.len()).sum::<usize>(), "text": excerpt(text)})
        });
    }
}

fn bundled(ctx: &mut Ctx) {
    if ctx.shard != 0 {
        return;
    }
    let Ok(text) = std::fs::read_to_string(BUNDLED) else {
        ctx.inconclusive("bundled p0f.fp not readable");
        return;
    };
    let rf = match pr::read_db(&text) {
        Ok(r) => r,
        Err(e) => {
            ctx.inconclusive("reference reader rejects the bundled p0f.fp");
            ctx.note(&format!("ref_p0f_db on bundled file: {e}"));
            return;
        }
    };
    // (2) every sig line of the bundled file
    let mut n = 0u64;
    for t in 0..4 {
        for (label, sigs) in &rf.tables[t] {
            for line in sigs {
                n += 1;
                let got = rt::guard(|| {
                    if t < 2 {
                        line.parse::<dt::Signature>().map(|s| s.to_string()).map_err(|e| e.to_string())
                    } else {
                        line.parse::<dh::Signature>().map(|s| s.to_string()).map_err(|e| e.to_string())
                    }
                });
                match got {
                    Err(p) => {
                        ctx.judge(false, &[], WHAT_PANIC, || json!({"line": line, "panic": p}));
                    }
                    Ok(g) => {
                        ctx.judge(g.as_deref() == Ok(line.as_str()), &[], WHAT_LINE, || {
                            json!({"origin": "bundled p0f.fp", "section": pr::TABLE_NAMES[t], "label": format!("{label:?}"), "line": line, "parsed_and_printed": format!("{g:?}")})
                        });
                    }
                }
                ctx.bucket(&format!("bundled/{}/{}", pr::TABLE_NAMES[t], label.name));
            }
        }
    }
    ctx.stage("bundled_sig_lines", json!(n));
    ctx.stage("bundled_mtu_values", json!(rf.mtu.iter().map(|g| g.1.len()).sum::<usize>()));
    // (3) load_default and from_str on the same text (too slow under Miri: generated texts cover it there)
    if ctx.miri() {
        return;
    }
    match rt::guard(Database::load_default) {
        Err(p) => {
            ctx.judge(false, &[], WHAT_PANIC, || json!({"call": "Database::load_default", "panic": p}));
        }
        Ok(Err(e)) => {
            ctx.judge(false, &[], WHAT_DB, || json!({"call": "Database::load_default", "error": e.to_string()}));
        }
        Ok(Ok(db)) => compare_db(ctx, "Database::load_default()", &text, &db, &rf),
    }
    match rt::guard(|| Database::from_str(&text)) {
        Err(p) => {
            ctx.judge(false, &[], WHAT_PANIC, || json!({"call": "Database::from_str(bundled)", "panic": p}));
        }
        Ok(Err(e)) => {
            ctx.judge(false, &[], WHAT_DB, || json!({"call": "Database::from_str(bundled)", "error": e.to_string()}));
        }
        Ok(Ok(db)) => compare_db(ctx, "Database::from_str(bundled p0f.fp)", &text, &db, &rf),
    }
    ctx.exhaustive("every sig line of the bundled p0f.fp (parse -> print == line) and the complete loaded database against ref_p0f_db");
}

// --- database text generator

struct Style {
    crlf: bool,
}

fn decorate(r: &mut Rng, key: &str, value: &str) -> String {
    let indent = *r.pick(&["", "", "", " ", "\t", "   "]);
    let eq = *r.pick(&[" = ", " = ", "   = ", "=", " =", "= ", "\t=\t"]);
    let trail = *r.pick(&["", "", "", " ", "\t", "  \t"]);
    format!("{indent}{key}{eq}{value}{trail}")
}

fn noise(r: &mut Rng, out: &mut Vec<String>) {
    for _ in 0..r.below(3) {
        out.push(match r.below(6) {
            0 => String::new(),
            1 => "   ".to_string(),
            2 => "; comment".to_string(),
            3 => "  ; indented comment with = and [brackets] and label = s:x:y:z".to_string(),
            4 => ";".to_string(),
            _ => "; sig = 4:64:0:*:*,*:::0  (commented out) — ünïcode".to_string(),
        });
    }
}

const CLASSES: [&str; 5] = ["win", "unix", "other", "cisco", "x9"];
const NAMES: [&str; 10] = ["Linux", "Windows", "Mac OS X", "FreeBSD", "NMap", "p0f-sendsyn", "Firefox", "MSIE", "Apache", "nginx"];
const FLAVORS: [&str; 10] = ["3.x", "2.6.x (loopback)", "10.x or newer", "SYN scan", "7 or 8", "a:b:c", "NT kernel 5.x", "größer", "=", "1.x; beta"];

struct GenDb {
    lines: Vec<String>,
    model: RefDb,
}

fn gen_label(r: &mut Rng) -> (String, pr::RefLabel) {
    let generic = r.chance(1, 4);
    let class = if r.chance(1, 4) { None } else { Some(r.pick(&CLASSES).to_string()) };
    let name = r.pick(&NAMES).to_string();
    let flavor = if r.chance(1, 25) { None } else { Some(r.pick(&FLAVORS).to_string()) };
    let text = format!(
        "{}:{}:{}:{}",
        if generic { "g" } else { "s" },
        class.clone().unwrap_or_else(|| "!".into()),
        name,
        flavor.clone().unwrap_or_default()
    );
    (text, pr::RefLabel { generic, class, name, flavor })
}

fn gen_sig_text(r: &mut Rng, table: usize, bundled_sigs: &[Vec<String>; 4]) -> String {
    if r.chance(1, 4) && !bundled_sigs[table].is_empty() {
        return r.pick(&bundled_sigs[table]).clone();
    }
    if table < 2 {
        pr::print_tcp(&gen_tcp(r))
    } else {
        let mut s = gen_http(r, false);
        // the loader trims the line: keep the software string free of trailing blanks
        while s.expsw.ends_with(' ') {
            s.expsw.pop();
        }
        pr::print_http(&s)
    }
}

fn gen_ua_os(r: &mut Rng) -> (String, Vec<(String, Option<String>)>) {
    let n = 1 + r.usize(6);
    let mut rules = Vec::new();
    let fancy = r.chance(1, 2);
    for _ in 0..n {
        let name = if fancy && r.chance(1, 3) {
            r.pick(&["Mac OS X", "OS/2", "Windows NT", "p0f-os", "Sun.OS", "iOS_x"]).to_string()
        } else {
            r.pick(&["Linux", "Windows", "iOS", "FreeBSD", "OpenBSD", "NetBSD", "Solaris", "Android", "X11"]).to_string()
        };
        let sub = if fancy && r.chance(1, 3) { Some(r.pick(&["iPad", "iPhone", "SunOS", "Win 9x", "a,b", ""]).to_string()) } else { None };
        rules.push((name, sub));
    }
    let text = rules
        .iter()
        .map(|(n, s)| match s {
            Some(s) => format!("{n}=[{s}]"),
            None => n.clone(),
        })
        .collect::<Vec<_>>()
        .join(",");
    (text, rules)
}

/// A valid database text together with the generator's own model of its content.
fn gen_db(r: &mut Rng, bundled_sigs: &[Vec<String>; 4]) -> GenDb {
    let mut g = GenDb { lines: Vec::new(), model: RefDb::default() };
    noise(r, &mut g.lines);
    if r.chance(9, 10) {
        let n = 1 + r.usize(CLASSES.len());
        let cl: Vec<String> = CLASSES[..n].iter().map(|s| s.to_string()).collect();
        g.lines.push(decorate(r, "classes", &cl.join(",")));
        g.model.classes.extend(cl);
    }
    let nsect = 1 + r.usize(8);
    for _ in 0..nsect {
        noise(r, &mut g.lines);
        let kind = r.usize(5);
        let header = if kind == 4 { "[mtu]".to_string() } else { format!("[{}]", pr::TABLE_NAMES[kind]) };
        let indent = *r.pick(&["", "", " ", "\t"]);
        let trail = *r.pick(&["", "", " ", "  \t"]);
        g.lines.push(format!("{indent}{header}{trail}"));
        noise(r, &mut g.lines);
        if kind == pr::HTTP_REQUEST && r.chance(1, 2) {
            let (t, rules) = gen_ua_os(r);
            g.lines.push(decorate(r, "ua_os", &t));
            g.model.ua_os.extend(rules.iter().cloned());
            g.model.ua_os_lines.push(rules);
        }
        let nlabels = r.usize(5);
        for _ in 0..nlabels {
            noise(r, &mut g.lines);
            let nsigs = match r.below(5) {
                0 => 0,
                1 => 1,
                _ => 1 + r.usize(5),
            };
            if kind == 4 {
                let label = r.pick(&["Ethernet or modem", "DSL", "generic tunnel or VPN", "IPSec or GRE", "AX.25 radio modem", "loopback", "x = y", "jumbo (9k)"]).to_string();
                g.lines.push(decorate(r, "label", &label));
                let mut vals = Vec::new();
                for _ in 0..nsigs {
                    let v = match r.below(4) {
                        0 => *r.pick(&[0u16, 1, 576, 1500, 9000, 65535]),
                        _ => r.u16(),
                    };
                    if r.chance(1, 6) {
                        noise(r, &mut g.lines);
                    }
                    g.lines.push(decorate(r, "sig", &v.to_string()));
                    vals.push(v.to_string());
                }
                g.model.mtu.push((label, vals));
            } else {
                let (lt, label) = gen_label(r);
                g.lines.push(decorate(r, "label", &lt));
                if label.generic || r.chance(1, 3) {
                    let sys = *r.pick(&["Linux", "Windows,@unix", "@unix,@win", "Mac OS X,iOS"]);
                    g.lines.push(decorate(r, "sys", sys));
                }
                let mut sigs = Vec::new();
                for _ in 0..nsigs {
                    if r.chance(1, 6) {
                        noise(r, &mut g.lines);
                    }
                    let s = gen_sig_text(r, kind, bundled_sigs);
                    g.lines.push(decorate(r, "sig", &s));
                    sigs.push(s);
                }
                g.model.tables[kind].push((label, sigs));
            }
        }
    }
    noise(r, &mut g.lines);
    g
}

fn render(r: &mut Rng, lines: &[String]) -> (String, Style) {
    let crlf = r.chance(1, 8);
    let nl = if crlf { "\r\n" } else { "\n" };
    let mut t = lines.join(nl);
    if r.chance(3, 4) {
        t.push_str(nl);
    }
    (t, Style { crlf })
}

fn bundled_sig_pool() -> [Vec<String>; 4] {
    let mut out: [Vec<String>; 4] = Default::default();
    if let Ok(text) = std::fs::read_to_string(BUNDLED) {
        if let Ok(rf) = pr::read_db(&text) {
            for t in 0..4 {
                for (_, sigs) in &rf.tables[t] {
                    out[t].extend(sigs.iter().cloned());
                }
            }
        }
    }
    out
}

fn generated_databases(ctx: &mut Ctx) {
    let pool = bundled_sig_pool();
    let n = ctx.scale(100_000, 5_000_000, 6) / ctx.nshards as u64 + 1;
    let mut r = ctx.rng(63);
    for i in 0..n {
        if i % 64 == 0 {
            rt::progress(ctx, &format!("C06 generated database {i}/{n}"));
        }
        let g = gen_db(&mut r, &pool);
        let (text, style) = render(&mut r, &g.lines);
        // the reference reads the text on its own; it must agree with the generator's model
        let rf = match pr::read_db(&text) {
            Ok(rf) if rf == g.model => rf,
            other => {
                ctx.inconclusive("ref_p0f_db disagrees with the generator's model");
                ctx.note(&format!("harness self-check failed: {:?} on {:?}", other.map(|_| "different content"), text.chars().take(400).collect::<String>()));
                continue;
            }
        };
        match rt::guard(|| Database::from_str(&text)) {
            Err(p) => {
                ctx.judge(false, &[], WHAT_PANIC, || json!({"text": text, "panic": p}));
            }
            Ok(Err(e)) => {
                ctx.judge(false, &[], WHAT_DB, || json!({"component": "whole text", "error": e.to_string(), "text": text}));
            }
            Ok(Ok(db)) => compare_db(ctx, "generated", &text, &db, &rf),
        }
        // the same text with a section the loader does not know ([tcp:rst], [http] without a
        // direction, [tls:request] ...) holding labels and signatures of its own, put in front of
        // one of the section headers or at the end: whatever the loader does with that section
        // (skip it, or refuse the text), the TCP, HTTP and MTU sections still hold exactly what
        // was written in them
        if i % 4 == 0 {
            let heads: Vec<usize> = g.lines.iter().enumerate().filter(|(_, l)| l.trim_start().starts_with('[')).map(|(k, _)| k).collect();
            let at = if heads.is_empty() || r.chance(1, 4) { g.lines.len() } else { *r.pick(&heads) };
            let t = r.usize(4);
            let mut block = vec![r.pick(&["[tcp:rst]", "[http]", "[tls:request]", "[udp:request]", "[tcp:ack]", "[http:push]"]).to_string()];
            for k in 0..1 + r.usize(2) {
                block.push(format!("label = s:unix:Ghost{k}:x"));
                block.push("sys = Linux".to_string());
                for _ in 0..1 + r.usize(2) {
                    block.push(format!("sig = {}", gen_sig_text(&mut r, t, &pool)));
                }
            }
            let mut lines2 = g.lines.clone();
            for (k, l) in block.into_iter().enumerate() {
                lines2.insert(at + k, l);
            }
            let (text2, _) = render(&mut r, &lines2);
            match rt::guard(|| Database::from_str(&text2)) {
                Err(p) => {
                    ctx.judge(false, &[], WHAT_PANIC, || json!({"text": text2, "panic": p}));
                }
                Ok(Err(_)) => {
                    ctx.eval();
                    ctx.class("unknown-section/refused");
                }
                Ok(Ok(db)) => {
                    compare_db(ctx, "generated+unknown-section", &text2, &db, &rf);
                    ctx.class("unknown-section/loaded");
                }
            }
        }
        let nsig: usize = rf.tables.iter().map(|t| t.iter().map(|e| e.1.len()).sum::<usize>()).sum();
        let empty_labels = rf.tables.iter().any(|t| t.iter().any(|e| e.1.is_empty()));
        ctx.bucket(&format!(
            "db/t{}{}{}{}m{}/ua{}/cls{}/sig{}/{}{}",
            rf.tables[0].len().min(3), rf.tables[1].len().min(3), rf.tables[2].len().min(3), rf.tables[3].len().min(3),
            rf.mtu.len().min(2), rf.ua_os_lines.len().min(2), rf.classes.len().min(2),
            match nsig { 0 => "0", 1..=5 => "1-5", 6..=20 => "6-20", _ => "21+" },
            if empty_labels { "E" } else { "-" }, if style.crlf { "crlf" } else { "lf" }
        ));
        if ctx.want_sample() && text.len() < 900 && nsig > 2 {
            ctx.sample(json!({"database_text": text, "labels": rf.tables.iter().map(|t| t.len()).collect::<Vec<_>>(), "signatures": nsig}));
        }
    }
}

// ---------------------------------------------------------------------- part 4: invalid texts

fn tcp_sig_faults(r: &mut Rng) -> (String, &'static str, bool) {
    // (signature text, fault class, matches the C06-UNKNOWN-OPT-OVERFLOW precondition)
    let s = gen_tcp(r);
    let good = pr::print_tcp(&s);
    let mut f: Vec<String> = good.split(':').map(|x| x.to_string()).collect();
    // fields: ver, ttl, olen, mss, wsize+scale, olayout, quirks, pclass
    let class: &'static str;
    let mut overflow = false;
    match r.below(12) {
        0 => {
            class = "tcp:bad-ip-version";
            f[0] = r.pick(&["5", "", "44", "v4", "4 "]).to_string();
        }
        1 => {
            class = "tcp:bad-ttl";
            f[1] = r.pick(&["256", "64+", "64+256", "-", "abc", "300-", "999+?", "6 4", "", "64+-1"]).to_string();
        }
        2 => {
            class = "tcp:bad-olen";
            f[2] = r.pick(&["256", "x", "", "-1", "1000"]).to_string();
        }
        3 => {
            class = "tcp:bad-mss";
            f[3] = r.pick(&["65536", "**", "", "mss", "99999", "1e3"]).to_string();
        }
        4 => {
            class = "tcp:bad-window";
            f[4] = r.pick(&["bogus,0", "mss*256,0", "mtu*,0", "%65536,0", "65536,0", "%,0", "mss*,0", "*", "1024", "1024,256", "1024,", ",0", "mss*4;0", "mod1024,0"]).to_string();
        }
        5 => {
            class = "tcp:bad-option-layout";
            f[5] = r.pick(&["mss,,ws", "mss,", ",mss", "foo", "eol", "eol+", "eol+256", "?", "?x", "MSS", "mss ws", "mss;ws", "nop,mss,wscale"]).to_string();
        }
        6 => {
            class = "tcp:bad-quirks";
            f[6] = r.pick(&["df,,id+", "df,", ",df", "foo", "DF", "id", "ts1", "df id+", "df;id+", "ecn,bogus"]).to_string();
        }
        7 => {
            class = "tcp:bad-payload-class";
            f[7] = r.pick(&["1", "", "x", "0+", "00", "-", "0 x"]).to_string();
        }
        8 => {
            class = "tcp:missing-field";
            let k = r.usize(f.len());
            f.remove(k);
        }
        9 => {
            class = "tcp:extra-field-or-trailing-junk";
            f.push(r.pick(&["0", "", "junk"]).to_string());
        }
        10 => {
            class = "tcp:unknown-option-above-255";
            f[5] = format!("mss,?{},nop", *r.pick(&[256u32, 257, 300, 999, 1000, 65536]));
            overflow = true;
        }
        _ => {
            class = "tcp:not-a-signature";
            return (r.pick(&["bogus", "", ":::::::", "4:64:0:*:bogus,0:mss::0", "hello world", "1:Host::"]).to_string(), class, false);
        }
    }
    (f.join(":"), class, overflow)
}

fn http_sig_faults(r: &mut Rng) -> (String, &'static str) {
    let mut s = gen_http(r, false);
    for h in &mut s.horder {
        // keep ':' out of values so that the field surgery below is exact
        if let Some(v) = &mut h.value {
            *v = v.replace(':', "");
        }
    }
    s.expsw = s.expsw.replace(':', "");
    let good = pr::print_http(&s);
    let mut f: Vec<String> = good.splitn(4, ':').map(|x| x.to_string()).collect();
    match r.below(5) {
        0 => {
            f[0] = r.pick(&["2", "x", "", "10", "1.1", "HTTP/1.1"]).to_string();
            (f.join(":"), "http:bad-version")
        }
        1 => (format!("{}:{}", f[0], f[1]), "http:missing-fields"),
        2 => (format!("{}:{}:{}", f[0], f[1], f[2]), "http:missing-software-field"),
        3 => {
            f[1] = format!("{},Host=[unterminated", f[1]);
            f[2] = f[2].replace(']', "");
            f[3] = f[3].replace(']', "");
            (f.join(":"), "http:unterminated-bracket")
        }
        _ => {
            f[1] = format!("Ho st,{}", f[1]);
            (f.join(":"), "http:blank-in-header-name")
        }
    }
}

fn invalid_texts(ctx: &mut Ctx) {
    let pool = bundled_sig_pool();
    let n = ctx.scale(100_000, 5_000_000, 10) / ctx.nshards as u64 + 1;
    let mut r = ctx.rng(64);
    for _ in 0..n {
        // a valid database as the carrier
        let g = gen_db(&mut r, &pool);
        let prelude: Vec<String> = g.lines.iter().take_while(|l| !l.trim().starts_with('[')).cloned().collect();
        let body: Vec<String> = g.lines.iter().skip(prelude.len()).cloned().collect();
        let mut lines: Vec<String> = Vec::new();
        let class: String;
        let mut dev_opt = false;
        let mut dev_sect = false;
        let table = r.usize(4);
        let good_sig = gen_sig_text(&mut r, table, &pool);
        let (label_text, _) = gen_label(&mut r);
        match r.below(9) {
            0 => {
                // signature before any label: the table's first and only section starts with a sig line
                class = format!("sig-before-label/{}", pr::TABLE_NAMES[table]);
                lines.extend(prelude.iter().cloned());
                lines.push(format!("[{}]", pr::TABLE_NAMES[table]));
                noise(&mut r, &mut lines);
                lines.push(decorate(&mut r, "sig", &good_sig));
                lines.push(decorate(&mut r, "label", &label_text));
                lines.push(decorate(&mut r, "sig", &good_sig));
                // other sections may follow, but none for the same table
                let mut skipping = false;
                for l in &body {
                    let t = l.trim();
                    if t.starts_with('[') {
                        skipping = t == format!("[{}]", pr::TABLE_NAMES[table]);
                    }
                    if !skipping {
                        lines.push(l.clone());
                    }
                }
            }
            1 => {
                class = "mtu-sig-before-label".to_string();
                lines.extend(prelude.iter().cloned());
                lines.push("[mtu]".to_string());
                noise(&mut r, &mut lines);
                lines.push(decorate(&mut r, "sig", "1500"));
                lines.push(decorate(&mut r, "label", "Ethernet"));
                let mut skipping = false;
                for l in &body {
                    let t = l.trim();
                    if t.starts_with('[') {
                        skipping = t == "[mtu]";
                    }
                    if !skipping {
                        lines.push(l.clone());
                    }
                }
            }
            2 => {
                class = "content-before-any-section".to_string();
                lines.extend(prelude.iter().cloned());
                lines.push(match r.below(3) {
                    0 => decorate(&mut r, "label", &label_text),
                    1 => decorate(&mut r, "sig", &good_sig),
                    _ => decorate(&mut r, "sig", "1500"),
                });
                lines.extend(body.iter().cloned());
            }
            3 => {
                let bad = *r.pick(&["[tcp:request", "tcp:request]", "[]", "[tcp:]", "[:request]", "[tcp request]", "[tcp:request", "[ tcp:request ]", "[tcp:re quest]", "[mtu"]);
                class = format!("malformed-section-header/{bad}");
                lines.extend(prelude.iter().cloned());
                if r.chance(1, 2) {
                    // inside an open section
                    lines.push("[tcp:response]".to_string());
                    lines.push(decorate(&mut r, "label", &label_text));
                }
                lines.push(bad.to_string());
                lines.push(decorate(&mut r, "label", &label_text));
                lines.extend(body.iter().cloned());
            }
            4 => {
                let bad = *r.pick(&["[tcp:request]]", "[tcp:request][mtu]", "[mtu]]", "[http:response] ]"]);
                class = "section-header-with-trailing-junk".to_string();
                dev_sect = true;
                lines.extend(prelude.iter().cloned());
                lines.push(bad.to_string());
                lines.push(decorate(&mut r, "label", if bad.starts_with("[mtu") { "Ethernet" } else { &label_text }));
                lines.extend(body.iter().cloned());
            }
            5 => {
                let bad = *r.pick(&["abc", "15o0", "", "-5", "70000", "65536", "1500 bytes", "0x5dc", "1,5", "1500;"]);
                class = format!("mtu-value/{bad}");
                lines.extend(g.lines.iter().cloned());
                lines.push("[mtu]".to_string());
                lines.push(decorate(&mut r, "label", "Ethernet"));
                lines.push(decorate(&mut r, "sig", "1500"));
                lines.push(format!("sig = {bad}"));
            }
            6 => {
                let bad = *r.pick(&["x:unix:Linux:3.x", "s:unix:Linux", "s", "S:unix:Linux:3.x", "unix:Linux:3.x", ":unix:Linux:3.x", "s;unix;Linux;3.x"]);
                class = format!("malformed-label/{bad}");
                lines.extend(g.lines.iter().cloned());
                lines.push(format!("[{}]", pr::TABLE_NAMES[table]));
                lines.push(format!("label = {bad}"));
                lines.push(decorate(&mut r, "sig", &good_sig));
            }
            _ => {
                // malformed signature value inside a known section, after a proper label
                let (bad, c, overflow) = if table < 2 {
                    tcp_sig_faults(&mut r)
                } else {
                    let (b, c) = http_sig_faults(&mut r);
                    (b, c, false)
                };
                class = c.to_string();
                dev_opt = overflow;
                lines.extend(g.lines.iter().cloned());
                lines.push(format!("[{}]", pr::TABLE_NAMES[table]));
                lines.push(decorate(&mut r, "label", &label_text));
                if r.chance(1, 2) {
                    lines.push(decorate(&mut r, "sig", &good_sig));
                }
                lines.push(format!("sig = {bad}"));
                if r.chance(1, 2) {
                    lines.push(decorate(&mut r, "sig", &good_sig));
                }
            }
        }
        let (text, _) = render(&mut r, &lines);
        // structural faults must be rejected by the reference reader as well (self-check of the carrier);
        // faults inside signature / MTU / label values are invisible to it by construction
        let structural = class.starts_with("sig-before") || class.starts_with("mtu-sig") || class.starts_with("content-before") || class.starts_with("malformed-section");
        if structural && pr::read_db(&text).is_ok() {
            ctx.inconclusive("fault injection produced a text the reference reader accepts");
            continue;
        }
        match rt::guard(|| Database::from_str(&text).map(|db| {
            (db.tcp_request.entries.len(), db.tcp_response.entries.len(), db.http_request.entries.len(), db.http_response.entries.len(), db.mtu.len(),
             db.tcp_request.entries.iter().chain(db.tcp_response.entries.iter()).flat_map(|e| e.1.iter()).any(|s| s.olayout.contains(&dt::TcpOption::Unknown(0))))
        })) {
            Err(p) => {
                ctx.judge(false, &[], WHAT_PANIC, || json!({"text": text, "panic": p}));
            }
            Ok(res) => {
                let accepted = res.is_ok();
                let opt_dev = dev_opt && matches!(&res, Ok(x) if x.5);
                ctx.judge(!accepted, &[(F_OPT, opt_dev), (F_SECT, dev_sect && accepted)], WHAT_INVALID, || {
                    json!({"fault": class, "text": text, "loaded_counts(tcp_req,tcp_res,http_req,http_res,mtu)": format!("{:?}", res.as_ref().ok().map(|x| (x.0, x.1, x.2, x.3, x.4)))})
                });
            }
        }
        let c = class.split('/').next().unwrap_or("").to_string();
        ctx.bucket(&format!("invalid/{}", if c.starts_with("sig-before") || c.contains(':') { class.clone() } else { c }));
    }
}

pub fn run(ctx: &mut Ctx) {
    let parts: [(&str, fn(&mut Ctx)); 5] = [
        ("bundled", bundled),
        ("vocabulary", vocabulary),
        ("random_values", random_values),
        ("generated_databases", generated_databases),
        ("invalid_texts", invalid_texts),
    ];
    for (name, f) in parts {
        let (t0, e0) = (ctx.elapsed(), ctx.rep.evaluations);
        f(ctx);
        if ctx.shard == 0 {
            let e = ctx.rep.evaluations - e0;
            ctx.stage(&format!("shard0_{name}"), json!(format!("{e} evaluations in {:.2}s", ctx.elapsed() - t0)));
        }
    }
}

pub fn spec() -> PropSpec {
    PropSpec {
        id: "C06",
        run,
        shards: super::shards_16,
        rule: "(1)+(2): every TTL form x 0..255 (Distance completely), every window form (Value/Mod 0..65535), eol+0..255, ?0..255, all quirks and ordered pairs, layouts of every length 0..40, wildcards, then seeded random TCP and HTTP signature values: value->print->parse == value, and the independently printed canonical line parses to that value and prints back identically; all sig lines of the bundled p0f.fp; (3) Database::load_default and from_str on generated texts (comments, blank lines, whitespace and CRLF variants, repeated sections, labels without signatures, sys/ua_os/classes lines) compared component by component with the independent reader ref_p0f_db; (4) texts with one injected fault must be rejected; a bucket is a distinct value class, bundled label, database shape or fault class",
        assumptions: &[
            "p0f vocabulary only: HTTP versions 0/1/*, header names over [A-Za-z0-9-], bracketed values without ']' and ':' (',' only as in the bundled file), absent lists of plain names; V20/V30, '_' in names and ':' in values are executed as unjudged probes",
            "Label values are not round-tripped through Display (the property speaks of signatures); labels are judged only through database loading",
            "generated database texts: classes before the first section, ua_os inside [http:request], sys lines only after labels, every sig preceded by a label in the same section occurrence, software strings without trailing blanks; an empty flavor field denotes no flavor",
            "invalid texts are restricted to: sig before any label of its table/MTU section, label or sig before any section header, malformed section headers, malformed label, malformed TCP/HTTP signature value after a proper label in a known section, non-numeric or out-of-range MTU value; trailing garbage after classes=/ua_os= values and unknown keys are not judged; a text with an unknown section may be refused or loaded, but if loaded its TCP/HTTP/MTU content must be exactly what those sections hold",
        ],
        parent_stage: None,
    }
}
