//! C02 — the best match equals the optimum of a full database scan (the index is transparent).
//!
//! Oracle (differential; the library's own distance function is the given): `full_scan` walks
//! `collection.entries` in file order, calls `calculate_distance` on every signature and keeps the
//! FIRST entry with the minimum distance.  `find_best_match` must return exactly that label and
//! that signature (pointer identity) with `get_quality_score(min)` (bit pattern), and `None`
//! exactly when no signature accepts the observation.
//!
//! Workload: the bundled database (all four collections) and generated databases that go through
//! the real loader in p0f text form (plus collections built directly with `FingerprintCollection::new`
//! to reach signature values the text form cannot spell, e.g. HTTP/2 and HTTP/3 versions).
//! Observations: every signature instantiated over all wildcard fillings (IPv4/IPv6, payload
//! class, HTTP 1.0/1.1/2/3), one-field perturbations of those, and random observations drawn from
//! the database's own pools.

use crate::rt::{self, Ctx, PropSpec, Rng};
use crate::siggen::{self, GenDb, HttpGen, HttpObs, TcpGen};
use huginn_net_db::db::{FingerprintCollection, Label};
use huginn_net_db::db_matching_trait::{DatabaseSignature, FingerprintDb, IndexKey, ObservedFingerprint};
use huginn_net_db::observable_signals::{HttpRequestObservation, HttpResponseObservation, TcpObservation};
use huginn_net_db::{http, tcp, Database};
use serde_json::{json, Value};
use std::fmt::Display;
use std::str::FromStr;

/// The reference selector: first minimum in database order.  Returns (label index, signature
/// index, minimum distance, number of accepting signatures, number of signatures at the minimum).
fn full_scan<OF, DS, K>(c: &FingerprintCollection<OF, DS, K>, obs: &OF) -> Option<(usize, usize, u32, usize, usize)>
where
    OF: ObservedFingerprint<Key = K>,
    DS: DatabaseSignature<OF>,
    K: IndexKey,
{
    let mut best: Option<(usize, usize, u32)> = None;
    let mut accepting = 0usize;
    let mut ties = 0usize;
    for (li, (_label, sigs)) in c.entries.iter().enumerate() {
        for (si, sig) in sigs.iter().enumerate() {
            if let Some(d) = sig.calculate_distance(obs) {
                accepting += 1;
                match best {
                    None => {
                        best = Some((li, si, d));
                        ties = 1;
                    }
                    Some((_, _, bd)) if d < bd => {
                        best = Some((li, si, d));
                        ties = 1;
                    }
                    Some((_, _, bd)) if d == bd => ties += 1,
                    _ => {}
                }
            }
        }
    }
    best.map(|(li, si, d)| (li, si, d, accepting, ties))
}

fn locate<OF, DS, K>(c: &FingerprintCollection<OF, DS, K>, label: &Label, sig: &DS) -> (Option<usize>, Option<usize>)
where
    OF: ObservedFingerprint<Key = K>,
    DS: DatabaseSignature<OF>,
    K: IndexKey,
{
    let mut li_found = None;
    let mut si_found = None;
    for (li, (l, sigs)) in c.entries.iter().enumerate() {
        if std::ptr::eq(l, label) {
            li_found = Some(li);
        }
        for (si, s) in sigs.iter().enumerate() {
            if std::ptr::eq(s, sig) {
                si_found = Some(si);
                if li_found != Some(li) {
                    // signature belongs to another label than the one returned
                    return (li_found, Some(si + 1_000_000 * (li + 1)));
                }
            }
        }
    }
    (li_found, si_found)
}

struct Case<'a> {
    coll: &'a str,
    db: &'a str,
    workload: &'a str,
    shape: &'a str,
}

fn check<OF, DS, K>(
    ctx: &mut Ctx,
    c: &FingerprintCollection<OF, DS, K>,
    obs: &OF,
    case: &Case,
    obs_text: &dyn Fn() -> String,
    db_dump: &dyn Fn() -> Value,
) where
    OF: ObservedFingerprint<Key = K>,
    DS: DatabaseSignature<OF> + Display,
    K: IndexKey,
{
    let expected = match rt::guard(|| full_scan(c, obs)) {
        Ok(e) => e,
        Err(p) => {
            ctx.judge(false, &[], "calculate_distance panicked during the full scan", || {
                json!({"collection": case.coll, "db": case.db, "observation": obs_text(), "panic": p})
            });
            return;
        }
    };
    let actual = rt::guard(|| c.find_best_match(obs));
    judge_answer(ctx, c, obs, case, obs_text, db_dump, expected, actual);
}

/// Compare one answer (of `find_best_match`, or of a matcher object that wraps it) with the
/// expectation of the full scan.
#[allow(clippy::too_many_arguments, clippy::type_complexity)]
fn judge_answer<'c, OF, DS, K>(
    ctx: &mut Ctx,
    c: &'c FingerprintCollection<OF, DS, K>,
    obs: &OF,
    case: &Case,
    obs_text: &dyn Fn() -> String,
    db_dump: &dyn Fn() -> Value,
    expected: Option<(usize, usize, u32, usize, usize)>,
    actual: Result<Option<(&'c Label, &'c DS, f32)>, String>,
) where
    OF: ObservedFingerprint<Key = K>,
    DS: DatabaseSignature<OF> + Display,
    K: IndexKey,
{
    let actual = match actual {
        Ok(a) => a,
        Err(p) => {
            ctx.judge(false, &[], "find_best_match panicked", || {
                json!({"collection": case.coll, "db": case.db, "observation": obs_text(), "panic": p})
            });
            return;
        }
    };
    let ok = match (&expected, &actual) {
        (None, None) => true,
        (Some((li, si, d, _, _)), Some((l, s, q))) => {
            let (el, esigs) = &c.entries[*li];
            let es = &esigs[*si];
            std::ptr::eq(el, *l) && std::ptr::eq(es, *s) && es.get_quality_score(*d).to_bits() == q.to_bits()
        }
        _ => false,
    };
    ctx.judge(ok, &[], "find_best_match differs from the first-minimum of a full database scan", || {
        let exp = expected.map(|(li, si, d, acc, ties)| {
            json!({
                "label_index": li, "sig_index": si, "distance": d,
                "label": c.entries[li].0.to_string(), "signature": c.entries[li].1[si].to_string(),
                "quality": c.entries[li].1[si].get_quality_score(d),
                "accepting_signatures": acc, "signatures_at_minimum": ties,
            })
        });
        let act = actual.map(|(l, s, q)| {
            let (li, si) = locate(c, l, s);
            json!({
                "label_index": li, "sig_index(+1e6*(label+1) if under another label)": si,
                "label": l.to_string(), "signature": s.to_string(), "quality": q,
                "distance_of_returned_signature": s.calculate_distance(obs),
            })
        });
        json!({
            "collection": case.coll, "db": case.db, "workload": case.workload,
            "observation": obs_text(), "expected_full_scan": exp, "actual_find_best_match": act,
            "database": db_dump(),
        })
    });
    // semantic class exercised
    let outcome = match &expected {
        None => "none".to_string(),
        Some((_, _, d, acc, ties)) => format!("d{}-acc{}-ties{}", (*d).min(12), (*acc).min(4), (*ties).min(3)),
    };
    ctx.bucket(&format!("{}/{}/{}/{}", case.coll, case.workload, case.shape, outcome));
    if let Some((_, _, _, _, ties)) = expected {
        if ties > 1 {
            ctx.class("tie-at-minimum");
        }
        ctx.class("expected-some");
    } else {
        ctx.class("expected-none");
    }
}

fn tcp_shape(sig: Option<&tcp::Signature>, o: &TcpObservation) -> String {
    let s = match sig {
        Some(s) => format!("sigv{}p{}", siggen::tcp_sig_text(s).chars().next().unwrap_or('?'), match s.pclass {
            tcp::PayloadSize::Any => '*',
            tcp::PayloadSize::Zero => '0',
            tcp::PayloadSize::NonZero => '+',
        }),
        None => "rand".to_string(),
    };
    // the observation forms that interact with wildcards of the index key; TTL / window forms only
    // as "analyzer-emittable or not"
    let ttl = match o.ittl {
        tcp::Ttl::Value(_) | tcp::Ttl::Distance(..) => 'e',
        tcp::Ttl::Guess(_) => 'g',
        tcp::Ttl::Bad(_) => 'b',
    };
    let w = match o.wsize {
        tcp::WindowSize::Any => '*',
        _ => 'c',
    };
    format!(
        "{s}-obs{}{}{ttl}{w}",
        if o.version == tcp::IpVersion::V4 { '4' } else { '6' },
        if o.pclass == tcp::PayloadSize::Zero { '0' } else { '+' }
    )
}

fn http_shape(sig: Option<&http::Signature>, o: &HttpObs) -> String {
    let s = match sig {
        Some(s) => format!("sigv{}", siggen::http_version_text(s.version)),
        None => "rand".to_string(),
    };
    format!("{s}-obsv{}", siggen::http_version_text(o.version))
}

type TcpColl = FingerprintCollection<TcpObservation, tcp::Signature, huginn_net_db::db::TcpIndexKey>;
type ReqColl = FingerprintCollection<HttpRequestObservation, http::Signature, huginn_net_db::db::HttpIndexKey>;
type RespColl = FingerprintCollection<HttpResponseObservation, http::Signature, huginn_net_db::db::HttpIndexKey>;

fn dump_tcp(c: &TcpColl) -> Value {
    json!(c
        .entries
        .iter()
        .map(|(l, s)| json!({"label": siggen::label_text(l), "sigs": s.iter().map(siggen::tcp_sig_text).collect::<Vec<_>>()}))
        .collect::<Vec<_>>())
}
fn dump_http(entries: &[(Label, Vec<http::Signature>)]) -> Value {
    json!(entries
        .iter()
        .map(|(l, s)| json!({"label": siggen::label_text(l), "sigs": s.iter().map(siggen::http_sig_text).collect::<Vec<_>>()}))
        .collect::<Vec<_>>())
}

/// All observations derived from one TCP signature: instances, and one-field perturbations.
fn drive_tcp_sig(
    ctx: &mut Ctx,
    c: &TcpColl,
    coll: &str,
    db: &str,
    sig: &tcp::Signature,
    r: &mut Rng,
    per_filling: usize,
    perturbs: usize,
    small: bool,
) {
    let dump = || if small { dump_tcp(c) } else { json!("bundled p0f.fp") };
    for inst in siggen::tcp_instances(sig, r, per_filling) {
        let shape = tcp_shape(Some(sig), &inst);
        check(ctx, c, &inst, &Case { coll, db, workload: "instance", shape: &shape }, &|| siggen::tcp_obs_text(&inst), &dump);
        for _ in 0..perturbs {
            let k = r.usize(siggen::TCP_PERTURBATIONS.len());
            let p = siggen::tcp_perturb(&inst, k, r);
            let wl = format!("perturb:{}", siggen::TCP_PERTURBATIONS[k]);
            let shape = tcp_shape(Some(sig), &p);
            check(ctx, c, &p, &Case { coll, db, workload: &wl, shape: &shape }, &|| siggen::tcp_obs_text(&p), &dump);
        }
    }
}

fn drive_http_sig(
    ctx: &mut Ctx,
    req: Option<&ReqColl>,
    resp: Option<&RespColl>,
    db: &str,
    sig: &http::Signature,
    r: &mut Rng,
    per_filling: usize,
    perturbs: usize,
    small: bool,
) {
    for inst in siggen::http_instances(sig, r, per_filling) {
        let mut all: Vec<(String, HttpObs)> = vec![("instance".to_string(), inst.clone())];
        for _ in 0..perturbs {
            let k = r.usize(siggen::HTTP_PERTURBATIONS.len());
            all.push((format!("perturb:{}", siggen::HTTP_PERTURBATIONS[k]), siggen::http_perturb(&inst, k, r)));
        }
        for (wl, o) in &all {
            let shape = http_shape(Some(sig), o);
            if let Some(c) = req {
                let obs = o.req();
                let dump = || if small { dump_http(&c.entries) } else { json!("bundled p0f.fp") };
                check(ctx, c, &obs, &Case { coll: "http_request", db, workload: wl, shape: &shape }, &|| o.text(), &dump);
            }
            if let Some(c) = resp {
                let obs = o.resp();
                let dump = || if small { dump_http(&c.entries) } else { json!("bundled p0f.fp") };
                check(ctx, c, &obs, &Case { coll: "http_response", db, workload: wl, shape: &shape }, &|| o.text(), &dump);
            }
        }
    }
}

fn bundled(ctx: &mut Ctx) {
    let db = match rt::guard(Database::load_default) {
        Ok(Ok(db)) => db,
        other => {
            ctx.judge(false, &[], "bundled database does not load", || json!({"result": format!("{:?}", other.map(|r| r.map(|_| ())))}));
            return;
        }
    };
    let per = ctx.scale(6, 40, 1) as usize;
    let pert = ctx.scale(8, 24, 1) as usize;
    let mut idx: u64 = 0;
    // pools for random observations: layouts and quirk lists of the bundled signatures themselves
    let mut pool_r = ctx.rng_global(20, 0);
    let mut tg = TcpGen::new(&mut pool_r, 4, 0);
    tg.layouts.clear();
    tg.quirks.clear();
    for c in [&db.tcp_request, &db.tcp_response] {
        for (_, sigs) in &c.entries {
            for s in sigs {
                if !tg.layouts.contains(&s.olayout) {
                    tg.layouts.push(s.olayout.clone());
                }
                if !tg.quirks.contains(&s.quirks) {
                    tg.quirks.push(s.quirks.clone());
                }
                if let Some(m) = s.mss {
                    if !tg.msss.contains(&m) {
                        tg.msss.push(m);
                    }
                }
                if !tg.wsizes.contains(&s.wsize) {
                    tg.wsizes.push(s.wsize.clone());
                }
                if !tg.ttls.contains(&s.ittl) {
                    tg.ttls.push(s.ittl.clone());
                }
            }
        }
    }
    tg.fresh_pct = 3;
    for (name, c) in [("tcp_request", &db.tcp_request), ("tcp_response", &db.tcp_response)] {
        for (_, sigs) in &c.entries {
            for sig in sigs {
                idx += 1;
                if !ctx.mine(idx) {
                    continue;
                }
                let mut r = ctx.rng_global(21, idx);
                drive_tcp_sig(ctx, c, name, "bundled", sig, &mut r, per, pert, false);
            }
        }
        let n = ctx.scale(400_000, 6_000_000, 50) / ctx.nshards as u64 + 1;
        let mut r = ctx.rng(22);
        for _ in 0..n {
            let o = tg.random_obs(&mut r);
            let shape = tcp_shape(None, &o);
            check(ctx, c, &o, &Case { coll: name, db: "bundled", workload: "random", shape: &shape }, &|| siggen::tcp_obs_text(&o), &|| json!("bundled p0f.fp"));
        }
    }
    let mut hg = HttpGen::new(&mut pool_r, 4, 0);
    hg.horders.clear();
    hg.habsents.clear();
    hg.software.clear();
    for entries in [&db.http_request.entries, &db.http_response.entries] {
        for (_, sigs) in entries.iter() {
            for s in sigs {
                hg.horders.push(s.horder.clone());
                hg.habsents.push(s.habsent.clone());
                hg.software.push(s.expsw.clone());
            }
        }
    }
    for (_, sigs) in &db.http_request.entries {
        for sig in sigs {
            idx += 1;
            if ctx.mine(idx) {
                let mut r = ctx.rng_global(23, idx);
                drive_http_sig(ctx, Some(&db.http_request), None, "bundled", sig, &mut r, per, pert, false);
            }
        }
    }
    for (_, sigs) in &db.http_response.entries {
        for sig in sigs {
            idx += 1;
            if ctx.mine(idx) {
                let mut r = ctx.rng_global(24, idx);
                drive_http_sig(ctx, None, Some(&db.http_response), "bundled", sig, &mut r, per, pert, false);
            }
        }
    }
    let n = ctx.scale(100_000, 1_500_000, 30) / ctx.nshards as u64 + 1;
    let mut r = ctx.rng(25);
    for _ in 0..n {
        let o = hg.random_obs(&mut r);
        let shape = http_shape(None, &o);
        let (q, p) = (o.req(), o.resp());
        check(ctx, &db.http_request, &q, &Case { coll: "http_request", db: "bundled", workload: "random", shape: &shape }, &|| o.text(), &|| json!("bundled p0f.fp"));
        check(ctx, &db.http_response, &p, &Case { coll: "http_response", db: "bundled", workload: "random", shape: &shape }, &|| o.text(), &|| json!("bundled p0f.fp"));
    }
    ctx.stage_add("bundled_signatures_instantiated", idx / ctx.nshards as u64);

    // The matcher objects the analyzers hold for their whole life (`SignatureMatcher` of the TCP
    // and HTTP crates) answer sequences of lookups: every answer of one long-lived matcher must
    // be the full-scan answer for THAT observation, whatever was looked up before (consecutive
    // observations here often share the index key and differ in the other fields).
    let tm = huginn_net_tcp::SignatureMatcher::new(&db);
    let hm = huginn_net_http::SignatureMatcher::new(&db);
    let n = ctx.scale(60_000, 1_500_000, 30) / ctx.nshards as u64 + 1;
    let mut r = ctx.rng(24);
    for i in 0..n {
        let mut o = tg.random_obs(&mut r);
        if i % 2 == 1 {
            // same layout, version and payload class as the lookup before, other fields fresh
            let prev = tg.random_obs(&mut r);
            o.ittl = prev.ittl;
            o.mss = prev.mss;
            o.wsize = prev.wsize;
            o.wscale = prev.wscale;
        }
        let shape = tcp_shape(None, &o);
        let ot = huginn_net_tcp::observable::ObservableTcp { matching: o.clone() };
        for (name, c, req) in [("tcp_request", &db.tcp_request, true), ("tcp_response", &db.tcp_response, false)] {
            let expected = match rt::guard(|| full_scan(c, &o)) {
                Ok(e) => e,
                Err(_) => continue,
            };
            let actual = rt::guard(|| if req { tm.matching_by_tcp_request(&ot) } else { tm.matching_by_tcp_response(&ot) });
            judge_answer(ctx, c, &o, &Case { coll: name, db: "bundled", workload: "matcher-sequence", shape: &shape }, &|| siggen::tcp_obs_text(&o), &|| json!("bundled p0f.fp"), expected, actual);
        }
        if i % 4 == 0 {
            let h = hg.random_obs(&mut r);
            let shape = http_shape(None, &h);
            let q = huginn_net_http::observable::ObservableHttpRequest { matching: h.req(), lang: None, user_agent: None, headers: vec![], cookies: vec![], referer: None, method: None, uri: None };
            let p = huginn_net_http::observable::ObservableHttpResponse { matching: h.resp(), headers: vec![], status_code: None };
            if let Ok(expected) = rt::guard(|| full_scan(&db.http_request, &q.matching)) {
                let actual = rt::guard(|| hm.matching_by_http_request(&q));
                judge_answer(ctx, &db.http_request, &q.matching, &Case { coll: "http_request", db: "bundled", workload: "matcher-sequence", shape: &shape }, &|| h.text(), &|| json!("bundled p0f.fp"), expected, actual);
            }
            if let Ok(expected) = rt::guard(|| full_scan(&db.http_response, &p.matching)) {
                let actual = rt::guard(|| hm.matching_by_http_response(&p));
                judge_answer(ctx, &db.http_response, &p.matching, &Case { coll: "http_response", db: "bundled", workload: "matcher-sequence", shape: &shape }, &|| h.text(), &|| json!("bundled p0f.fp"), expected, actual);
            }
        }
    }
}

fn generated(ctx: &mut Ctx) {
    let ndb = ctx.scale(480, 36_000, 3);
    for i in 0..ndb {
        if !ctx.mine(i) {
            continue;
        }
        let mut r = ctx.rng_global(2, i);
        // size classes: tiny databases (1 label) up to 40 labels
        let labels = match i % 5 {
            0 => r.range(1, 3) as usize,
            1 | 2 => r.range(4, 15) as usize,
            _ => r.range(16, 40) as usize,
        };
        let wild = *r.pick(&[20u64, 50, 50, 80, 100]);
        let pool = r.range(1, 4) as usize;
        let tg = TcpGen::new(&mut r, pool, wild);
        let mut hg = HttpGen::new(&mut r, pool + 1, wild);
        let dup = *r.pick(&[5u64, 15, 30]);
        let comp = *r.pick(&[10u64, 30, 50]);
        let direct = i % 4 == 3;
        if direct {
            hg.allow_v2_v3 = true;
            hg.allow_dup_names = true;
        }
        let mut db = GenDb::default();
        let (t1, t2) = (tg.clone(), tg.clone());
        db.tcp_request = siggen::gen_entries(&mut r, labels, 6, dup, comp, |r| t1.sig(r), |r, s| t2.competitor(r, s));
        db.tcp_response = siggen::gen_entries(&mut r, (labels / 2).max(1), 6, dup, comp, |r| t1.sig(r), |r, s| t2.competitor(r, s));
        let (h1, h2) = (hg.clone(), hg.clone());
        db.http_request = siggen::gen_entries(&mut r, labels, 6, dup, comp, |r| h1.sig(r), |r, s| h2.competitor(r, s));
        db.http_response = siggen::gen_entries(&mut r, (labels / 2).max(1), 6, dup, comp, |r| h1.sig(r), |r, s| h2.competitor(r, s));
        let dbname = format!("generated#{i}{}", if direct { "(direct)" } else { "(text)" });

        // Build the collections: through the loader (text form) or directly.
        let (tcp_req, tcp_resp, http_req, http_resp): (TcpColl, TcpColl, ReqColl, RespColl);
        if direct {
            tcp_req = FingerprintCollection::new(db.tcp_request.clone());
            tcp_resp = FingerprintCollection::new(db.tcp_response.clone());
            http_req = FingerprintCollection::new(db.http_request.clone());
            http_resp = FingerprintCollection::new(db.http_response.clone());
            ctx.class("db-built-directly");
        } else {
            let text = siggen::db_text(&db);
            match rt::guard(|| Database::from_str(&text)) {
                Ok(Ok(loaded)) => {
                    let same = loaded.tcp_request.entries == db.tcp_request
                        && loaded.tcp_response.entries == db.tcp_response
                        && loaded.http_request.entries == db.http_request
                        && loaded.http_response.entries == db.http_response;
                    if !same {
                        // Loader fidelity is C06's business; the differential check below stays
                        // sound on whatever was loaded.
                        ctx.class("loaded-database-differs-from-generated(C06 matter)");
                        ctx.note(&format!("{dbname}: loaded content differs from the generated content (see C06)"));
                    }
                    tcp_req = loaded.tcp_request;
                    tcp_resp = loaded.tcp_response;
                    http_req = loaded.http_request;
                    http_resp = loaded.http_response;
                    ctx.class("db-through-loader");
                }
                other => {
                    ctx.inconclusive("loader rejected a generated database (C06 matter)");
                    ctx.note(&format!("{dbname}: loader result {:?}", other.map(|r| r.map(|_| ()).map_err(|e| e.to_string()))));
                    tcp_req = FingerprintCollection::new(db.tcp_request.clone());
                    tcp_resp = FingerprintCollection::new(db.tcp_response.clone());
                    http_req = FingerprintCollection::new(db.http_request.clone());
                    http_resp = FingerprintCollection::new(db.http_response.clone());
                }
            }
        }
        if ctx.want_sample() && !direct {
            let t: String = siggen::db_text(&db).lines().filter(|l| l.starts_with("sig") || l.starts_with("label")).take(8).collect::<Vec<_>>().join(" | ");
            ctx.sample(json!({"db": dbname, "labels": labels, "wildcard_pct": wild, "first_lines": t}));
        }

        let nsig: usize = db.tcp_request.iter().map(|e| e.1.len()).sum::<usize>() + db.http_request.iter().map(|e| e.1.len()).sum::<usize>();
        // keep the per-database cost roughly constant: fewer samples per signature in big DBs
        let per = if nsig > 120 { 2 } else { 3 };
        let pert = if nsig > 120 { 3 } else { 4 };
        for (name, c) in [("tcp_request", &tcp_req), ("tcp_response", &tcp_resp)] {
            // iterate the signatures of the collection as loaded
            for li in 0..c.entries.len() {
                for si in 0..c.entries[li].1.len() {
                    let sig = c.entries[li].1[si].clone();
                    drive_tcp_sig(ctx, c, name, &dbname, &sig, &mut r, per, pert, true);
                }
            }
            for _ in 0..ctx.scale(800, 1500, 5) {
                let o = tg.random_obs(&mut r);
                let shape = tcp_shape(None, &o);
                check(ctx, c, &o, &Case { coll: name, db: &dbname, workload: "random", shape: &shape }, &|| siggen::tcp_obs_text(&o), &|| dump_tcp(c));
            }
        }
        for li in 0..http_req.entries.len() {
            for si in 0..http_req.entries[li].1.len() {
                let sig = http_req.entries[li].1[si].clone();
                drive_http_sig(ctx, Some(&http_req), None, &dbname, &sig, &mut r, per, pert, true);
            }
        }
        for li in 0..http_resp.entries.len() {
            for si in 0..http_resp.entries[li].1.len() {
                let sig = http_resp.entries[li].1[si].clone();
                drive_http_sig(ctx, None, Some(&http_resp), &dbname, &sig, &mut r, per, pert, true);
            }
        }
        for _ in 0..ctx.scale(500, 1000, 5) {
            let o = hg.random_obs(&mut r);
            let shape = http_shape(None, &o);
            let (q, p) = (o.req(), o.resp());
            check(ctx, &http_req, &q, &Case { coll: "http_request", db: &dbname, workload: "random", shape: &shape }, &|| o.text(), &|| dump_http(&http_req.entries));
            check(ctx, &http_resp, &p, &Case { coll: "http_response", db: &dbname, workload: "random", shape: &shape }, &|| o.text(), &|| dump_http(&http_resp.entries));
        }
        ctx.stage_add("generated_databases", 1);
        rt::progress(ctx, &format!("generated db {i}"));
    }
}

pub fn run(ctx: &mut Ctx) {
    bundled(ctx);
    generated(ctx);
}

pub fn spec() -> PropSpec {
    PropSpec {
        id: "C02",
        run,
        shards: super::shards_16,
        rule: "for the bundled database and for generated databases (loaded from p0f text, or built with FingerprintCollection::new), every signature is instantiated over all wildcard fillings (IPv4/IPv6, payload class, HTTP 1.0/1.1/2/3) and each instance is perturbed in one field; plus random observations from the database's own value pools, also as sequences of lookups through one long-lived SignatureMatcher of the TCP and of the HTTP crate; each observation's find_best_match is compared (label and signature identity, quality bits) with the first minimum of a full scan using the library's own calculate_distance; a bucket is a distinct (collection, workload kind, signature wildcard shape x observation shape, expected distance / number of accepting signatures / number of ties) class",
        assumptions: &[
            "the library's calculate_distance/get_quality_score are the given here (their semantics are C12's business)",
            "observations stay in the value space an analyzer emits for the indexed fields: IP version V4/V6, payload class Zero/NonZero, HTTP version 1.0/1.1/2/3 (never the wildcard variants)",
            "generated databases that the loader changes or rejects are a C06 matter; the comparison is then made on what was actually loaded (or on the directly built collection)",
        ],
        parent_stage: None,
    }
}
