//! C08 — TLS ClientHello reassembly is segmentation-invariant and reports exactly once.
//!
//! HISTORY oracle.  An *episode* is one connection: the bytes of one TLS record (plus optional bytes
//! after it) cut into in-order segments, the first holding at least the 5-byte record header.  The
//! monitor records the per-segment return values of `TlsClientHelloReader::add_bytes` (chunks) and of
//! `HuginnNetTls::verif_process_packet` (TCP segments built with `pkt::Script`) and requires:
//!   * for a ClientHello record: exactly one result, on the first segment whose cumulative length
//!     reaches 5 + record length, equal to the result of the one-segment delivery (which is itself
//!     compared with `tlsgen::ref_ja4`); nothing before, nothing after;
//!   * for any other record (ServerHello, alert, application data, change-cipher-spec, heartbeat,
//!     handshake messages of type != 1): no result on any segment.
//! Bytes after the record never contain 0x16, so no later segment can begin a new handshake record
//! (a second ClientHello on the connection is outside the judged domain).

use crate::pkt::{flags, Endpoints, Link, Script};
use crate::rt::{self, Ctx, PropSpec, Rng};
use crate::tlsgen::{self, Ext, Hello, Obs};
use serde_json::json;

// --------------------------------------------------------------------------------- episodes

struct Case {
    tag: &'static str,
    /// record bytes
    rec: Vec<u8>,
    /// is it a ClientHello the library accepts in one piece?  (canonical one-segment result)
    baseline: Option<String>,
    /// field layout for coverage classes (empty for non-hello records)
    layout: Vec<(usize, String)>,
}

fn layout(h: &Hello) -> Vec<(usize, String)> {
    let mut v: Vec<(usize, String)> = Vec::new();
    let mut o = 0usize;
    let push = |v: &mut Vec<(usize, String)>, o: &mut usize, len: usize, name: &str| {
        if len > 0 {
            v.push((*o, name.to_string()));
        }
        *o += len;
    };
    push(&mut v, &mut o, 1, "rec.type");
    push(&mut v, &mut o, 2, "rec.version");
    push(&mut v, &mut o, 2, "rec.length");
    push(&mut v, &mut o, 1, "hs.type");
    push(&mut v, &mut o, 3, "hs.length");
    push(&mut v, &mut o, 2, "legacy_version");
    push(&mut v, &mut o, 32, "random");
    push(&mut v, &mut o, 1, "sid.len");
    push(&mut v, &mut o, h.session_id.len(), "sid");
    push(&mut v, &mut o, 2, "ciphers.len");
    push(&mut v, &mut o, h.ciphers.len() * 2, "ciphers");
    push(&mut v, &mut o, 1, "comp.len");
    push(&mut v, &mut o, h.compression.len(), "comp");
    if let Some(exts) = &h.extensions {
        push(&mut v, &mut o, 2, "exts.len");
        for e in exts {
            let kind = match e {
                Ext::Sni(_) => "sni",
                Ext::Alpn(_) => "alpn",
                Ext::SupportedVersions(_) => "versions",
                Ext::SigAlgs(_) => "sigalgs",
                Ext::Groups(_) => "groups",
                Ext::EcPointFormats(_) => "ecpf",
                Ext::Raw(0x0015, _) => "padding",
                Ext::Raw(..) => "other",
                Ext::Grease(..) => "grease",
            };
            push(&mut v, &mut o, 2, &format!("ext.{kind}.type"));
            push(&mut v, &mut o, 2, &format!("ext.{kind}.len"));
            push(&mut v, &mut o, e.body().len(), &format!("ext.{kind}.body"));
        }
    }
    v
}

fn field_at(layout: &[(usize, String)], off: usize) -> String {
    if layout.is_empty() {
        return "-".into();
    }
    let i = layout.partition_point(|(s, _)| *s <= off);
    if i == 0 {
        return "?".into();
    }
    let (s, name) = &layout[i - 1];
    if *s == off {
        format!("before:{name}")
    } else {
        format!("inside:{name}")
    }
}

fn len_class(n: usize) -> &'static str {
    match n {
        0 => "0",
        1 => "1",
        2..=4 => "2-4",
        5 => "5",
        6..=9 => "6-9",
        10..=43 => "10-43",
        44..=255 => "44-255",
        256..=1460 => "256-1460",
        1461..=16389 => "1461-16389",
        _ => ">16389",
    }
}

fn k_class(k: usize) -> &'static str {
    match k {
        0 | 1 => "1",
        2 => "2",
        3 => "3",
        4..=8 => "4-8",
        9..=64 => "9-64",
        _ => ">64",
    }
}

// ------------------------------------------------------------------------------ the drivers

struct Pk {
    tls: huginn_net_tls::HuginnNetTls,
    episodes: u32,
    port: u16,
    host: u8,
}

impl Pk {
    fn new() -> Pk {
        Pk { tls: huginn_net_tls::HuginnNetTls::new(1000), episodes: 0, port: 1024, host: 1 }
    }
    /// distinct client endpoint per episode; a fresh analyzer every 256 episodes
    fn next(&mut self) -> Endpoints {
        self.episodes += 1;
        if self.episodes % 256 == 0 {
            self.tls = huginn_net_tls::HuginnNetTls::new(1000);
        }
        if self.port == 65535 {
            self.port = 1024;
            self.host = self.host.wrapping_add(1).max(1);
        } else {
            self.port += 1;
        }
        if self.episodes % 7 == 3 {
            Endpoints {
                client: format!("2001:db8::{:x}", self.host as u16 + 1).parse().unwrap(),
                server: "2001:db8:1::443".parse().unwrap(),
                cport: self.port,
                sport: 443,
            }
        } else {
            Endpoints::v4([10, 8, 0, self.host], self.port, [10, 9, 8, 7], 443)
        }
    }
}

/// per-segment outcome: Some(canonical result) / None, plus anomalies (panic, wrong endpoints)
struct History {
    outs: Vec<Option<String>>,
    anomalies: Vec<String>,
    /// results on frames that carry no payload of the stream (handshake frames)
    extra_results: usize,
    /// wall time between the first and the last segment of the episode exceeded the safety margin
    /// of the analyzer's 20-second flow TTL (process descheduled / VM paused): not judged
    stalled: bool,
}

/// an episode must stay far below the 20 s TTL of the per-flow cache to be judged
const STALL_LIMIT_S: f64 = 5.0;

fn run_reader(stream: &[u8], cuts: &[usize]) -> History {
    let mut h = History { outs: Vec::new(), anomalies: Vec::new(), extra_results: 0, stalled: false };
    let mut reader = huginn_net_tls::TlsClientHelloReader::new();
    for part in crate::pkt::split_at(stream, cuts) {
        let r = rt::guard(|| reader.add_bytes(part));
        match r {
            Err(p) => {
                h.anomalies.push(format!("panic: {p}"));
                h.outs.push(None);
            }
            Ok(Ok(Some(sig))) => h.outs.push(Some(Obs::from_sig(&sig).render())),
            Ok(Ok(None)) | Ok(Err(_)) => h.outs.push(None),
        }
    }
    h
}

fn run_packets(pk: &mut Pk, stream: &[u8], cuts: &[usize], with_handshake: bool) -> History {
    let ep = pk.next();
    let mut h = History { outs: Vec::new(), anomalies: Vec::new(), extra_results: 0, stalled: false };
    let isn = 0x0100_0000u32.wrapping_mul(pk.episodes).wrapping_add(0xffff_ff00);
    let mut s = Script::new(ep.clone(), Link::Ethernet, isn, 0x5000_0000);
    if with_handshake {
        s.handshake();
    }
    let pre = s.frames.len();
    if pk.episodes % 3 == 1 {
        s.vary_ip.set(pk.episodes as u64 | 1);
    }
    // Ethernet minimum-frame padding (tiny segments) and a captured FCS after the IP datagram
    s.eth_trailer = [0u8, 0, 1, 2][(pk.episodes % 4) as usize];
    c_stream_fin(&mut s, stream, cuts, pk.episodes % 6 == 5);
    // every fifth episode the server says something between two client segments (an alert, a
    // banner, a ServerHello sent early, or a capture that interleaves the directions loosely):
    // data of the other direction is no part of the client's record and yields nothing itself
    let mut reverse_at = usize::MAX;
    if pk.episodes % 5 == 2 && s.frames.len() >= pre + 2 {
        let payloads: [&[u8]; 4] = [&[0x15, 0x03, 0x03, 0x00, 0x02, 0x02, 0x28], b"220 mail.example ESMTP ready\r\n", &[0x16, 0x03, 0x03, 0x00, 0x04, 0x0e, 0x00, 0x00, 0x00], &[0x17, 0x03, 0x03, 0x00, 0x03, 1, 2, 3]];
        let p = payloads[(pk.episodes / 5 % 4) as usize];
        let f = s.seg(false, s.s_next, s.c_isn.wrapping_add(1), flags::ACK | flags::PSH, vec![], p);
        reverse_at = pre + 1 + (pk.episodes as usize / 20) % (s.frames.len() - pre - 1);
        s.frames.insert(reverse_at, f);
    }
    let tls = &mut pk.tls;
    let t0 = std::time::Instant::now();
    for (i, f) in s.frames.iter().enumerate() {
        let r = rt::guard(|| tls.verif_process_packet(f));
        let out = match r {
            Err(p) => {
                h.anomalies.push(format!("panic: {p}"));
                None
            }
            Ok(Ok(Some(o))) => {
                if o.source.ip != ep.client || o.source.port != ep.cport || o.destination.ip != ep.server || o.destination.port != ep.sport {
                    h.anomalies.push(format!(
                        "result attributed to {}:{}>{}:{} instead of {}",
                        o.source.ip,
                        o.source.port,
                        o.destination.ip,
                        o.destination.port,
                        ep.key()
                    ));
                }
                Some(Obs::from_client(&o.sig).render())
            }
            Ok(Ok(None)) | Ok(Err(_)) => None,
        };
        if i < pre || i == reverse_at {
            if out.is_some() {
                h.extra_results += 1;
            }
        } else {
            h.outs.push(out);
        }
    }
    h.stalled = t0.elapsed().as_secs_f64() > STALL_LIMIT_S;
    h
}

/// The client's stream in order; with `fin` the last data segment also carries FIN (a client that
/// half-closes with its last write: PSH|FIN|ACK with payload is an ordinary data segment).
fn c_stream_fin(s: &mut Script, stream: &[u8], cuts: &[usize], fin: bool) {
    if !fin {
        s.c_stream(stream, cuts);
        return;
    }
    let parts = crate::pkt::split_at(stream, cuts);
    let n = parts.len();
    for (i, part) in parts.into_iter().enumerate() {
        if i + 1 == n {
            let f = s.seg(true, s.c_next, s.s_next, flags::ACK | flags::PSH | flags::FIN, vec![], part);
            s.c_next = s.c_next.wrapping_add(part.len() as u32 + 1);
            s.frames.push(f);
        } else {
            s.c_data(part);
        }
    }
}

/// A TLS worker pool driven in lock-step: one segment is dispatched, the owning worker is
/// awaited at its `WorkerProcessed` point (logical drain, not wall time), and -- for a seeded part
/// of the segments -- the pool is then left idle for several worker time-outs before the next
/// segment follows, as a real connection does between two segments of one hello.
struct Wp {
    h: crate::pool::Handle,
    cfg: crate::pool::PoolCfg,
}

impl Wp {
    fn new(cfg: crate::pool::PoolCfg) -> Result<Wp, String> {
        Ok(Wp { h: crate::pool::Handle::new(crate::pool::PoolKind::Tls, &cfg, crate::pool::Filters::none())?, cfg })
    }
}

fn run_workers(wp: &Wp, pk: &mut Pk, stream: &[u8], cuts: &[usize], with_handshake: bool, idle_mask: u64) -> History {
    let ep = pk.next();
    let mut h = History { outs: Vec::new(), anomalies: Vec::new(), extra_results: 0, stalled: false };
    let isn = 0x0100_0000u32.wrapping_mul(pk.episodes).wrapping_add(0xffff_ff00);
    let mut s = Script::new(ep.clone(), Link::Ethernet, isn, 0x5000_0000);
    if with_handshake {
        s.handshake();
    }
    let pre = s.frames.len();
    if pk.episodes % 2 == 1 {
        // segments of one connection may carry different IPv6 flow labels / IPv4 ids
        s.vary_ip.set(pk.episodes as u64 | 1);
    }
    s.eth_trailer = [0u8, 1, 0, 2][(pk.episodes % 4) as usize];
    c_stream_fin(&mut s, stream, cuts, pk.episodes % 6 == 1);
    crate::pool::reset_log(0, 0);
    let crate::pool::Handle::Tls(_, rx) = &wp.h else {
        h.stalled = true;
        return h;
    };
    let t0 = std::time::Instant::now();
    let mut queued = 0u64;
    for (i, f) in s.frames.iter().enumerate() {
        if !wp.h.dispatch(f.clone()) {
            // nothing else is in flight and the queue holds 64 frames: not expected
            h.stalled = true;
            return h;
        }
        queued += 1;
        if !crate::pool::wait_processed(queued, std::time::Duration::from_secs(30)) {
            h.stalled = true;
            return h;
        }
        if idle_mask >> (i % 64) & 1 == 1 {
            std::thread::sleep(std::time::Duration::from_millis(wp.cfg.timeout_ms * 4 + 2));
        }
        let mut got: Vec<String> = Vec::new();
        for o in rx.try_iter() {
            if o.source.ip != ep.client || o.source.port != ep.cport || o.destination.ip != ep.server || o.destination.port != ep.sport {
                h.anomalies.push(format!("result attributed to {}:{}>{}:{} instead of {}", o.source.ip, o.source.port, o.destination.ip, o.destination.port, ep.key()));
            }
            got.push(Obs::from_client(&o.sig).render());
        }
        if got.len() > 1 {
            h.anomalies.push(format!("{} results for one segment", got.len()));
        }
        let out = got.into_iter().next();
        if i < pre {
            if out.is_some() {
                h.extra_results += 1;
            }
        } else {
            h.outs.push(out);
        }
    }
    h.stalled = t0.elapsed().as_secs_f64() > STALL_LIMIT_S;
    h
}

// ------------------------------------------------------------------------------- the oracle

fn seg_lens(total: usize, cuts: &[usize]) -> Vec<usize> {
    let mut v = Vec::new();
    let mut prev = 0;
    for &c in cuts {
        let c = c.min(total);
        if c > prev {
            v.push(c - prev);
            prev = c;
        }
    }
    if prev < total {
        v.push(total - prev);
    }
    v
}

/// Judge one history.  `cuts` are offsets into `stream` = record ++ trailing bytes.
fn judge_history(ctx: &mut Ctx, api: &str, kind: &str, case: &Case, stream: &[u8], cuts: &[usize], hist: &History) {
    if hist.stalled {
        ctx.inconclusive("episode took longer than 5 s of wall time (flow TTL is 20 s)");
        return;
    }
    let l = case.rec.len();
    let lens = seg_lens(stream.len(), cuts);
    let mut cum = 0usize;
    let mut completing = None;
    for (i, n) in lens.iter().enumerate() {
        cum += n;
        if cum >= l && completing.is_none() {
            completing = Some(i);
        }
    }
    let somes: Vec<usize> = hist.outs.iter().enumerate().filter(|(_, o)| o.is_some()).map(|(i, _)| i).collect();
    let mut what: Option<&str> = None;
    if !hist.anomalies.is_empty() {
        what = Some("panic or wrong endpoints while processing a segment");
    } else if hist.extra_results > 0 {
        what = Some("a TLS result was emitted for a frame without payload");
    } else if hist.outs.len() != lens.len() {
        what = Some("harness: segment count mismatch");
    } else {
        match (&case.baseline, completing) {
            (Some(b), Some(ci)) => {
                if somes.is_empty() {
                    what = Some("no TLS result for a segmented ClientHello (one-segment delivery gives one)");
                } else if somes.len() > 1 {
                    what = Some("more than one TLS result for one ClientHello");
                } else if somes[0] < ci {
                    what = Some("TLS result emitted before the record is complete");
                } else if somes[0] > ci {
                    what = Some("TLS result emitted after the completing segment");
                } else if hist.outs[ci].as_deref() != Some(b.as_str()) {
                    what = Some("segmented result differs from the one-segment result");
                }
            }
            (Some(_), None) => what = Some("harness: record never completes"),
            (None, _) => {
                if !somes.is_empty() {
                    what = Some("TLS result for a record that yields none in one segment / is not a ClientHello");
                }
            }
        }
    }
    // coverage class
    let first = lens.first().copied().unwrap_or(0);
    let last_in_rec = completing.map(|ci| {
        let before: usize = lens[..ci].iter().sum();
        l - before.min(l)
    });
    let trailing_in_completing = completing.map(|ci| lens[..=ci].iter().sum::<usize>() - l).unwrap_or(0);
    let later = completing.map(|ci| lens.len() - 1 - ci).unwrap_or(0);
    ctx.bucket(&format!(
        "{api}|{kind}|{}|L={}|k={}|first={}@{}|tail={}|extra-in-seg={}|later-segs={}",
        case.tag,
        len_class(l),
        k_class(completing.map(|c| c + 1).unwrap_or(lens.len())),
        len_class(first),
        field_at(&case.layout, first),
        len_class(last_in_rec.unwrap_or(0)),
        len_class(trailing_in_completing),
        later.min(3),
    ));
    ctx.judge(what.is_none(), &[], what.unwrap_or(""), || {
        json!({
            "api": api, "episode_kind": kind, "case": case.tag,
            "record_hex": if case.rec.len() <= 3000 { rt::hex(&case.rec) } else { format!("{}... ({} bytes)", rt::hex(&case.rec[..600]), case.rec.len()) },
            "bytes_after_record_hex": rt::hex(&stream[l.min(stream.len())..(l + 64).min(stream.len())]),
            "stream_hex": if stream.len() <= 9000 { json!(rt::hex(stream)) } else { json!(null) },
            "stream_len": stream.len(), "record_len_with_header": l,
            "all_cuts": if cuts.len() <= 2000 { json!(cuts) } else { json!(null) },
            "cuts": if cuts.len() <= 80 { json!(cuts) } else { json!(format!("{} cuts, first {:?}", cuts.len(), &cuts[..20])) },
            "segment_lengths": if lens.len() <= 80 { json!(lens) } else { json!(format!("{} segments", lens.len())) },
            "expected_result_on_segment": if case.baseline.is_some() { json!(completing) } else { json!(null) },
            "results_on_segments": somes,
            "anomalies": hist.anomalies,
            "expected": case.baseline,
            "actual": somes.first().and_then(|i| hist.outs[*i].clone()),
        })
    });
}

fn episode(ctx: &mut Ctx, pk: &mut Pk, kind: &str, case: &Case, stream: &[u8], cuts: &[usize], apis: (bool, bool)) {
    if apis.0 {
        let h = run_reader(stream, cuts);
        judge_history(ctx, "reader", kind, case, stream, cuts, &h);
    }
    if apis.1 {
        // keep every TCP payload inside one IP packet
        let mut cuts2: Vec<usize> = cuts.to_vec();
        let mut prev = 0usize;
        let mut extra = Vec::new();
        for &c in cuts.iter().chain(std::iter::once(&stream.len())) {
            let mut p = prev;
            while c - p > 60000 {
                p += 60000;
                extra.push(p);
            }
            prev = c;
        }
        if !extra.is_empty() {
            cuts2.extend(extra);
            cuts2.sort_unstable();
        }
        let with_hs = pk.episodes % 5 == 2;
        let h = run_packets(pk, stream, &cuts2, with_hs);
        judge_history(ctx, "packets", kind, case, stream, &cuts2, &h);
    }
}

// --------------------------------------------------------------------------------- corpora

/// A conformant hello whose record is exactly `total` bytes (5-byte header included), if possible.
fn hello_of_size(r: &mut Rng, total: usize) -> Option<Hello> {
    for _ in 0..200 {
        let mut h = if total < 260 {
            // small: few ciphers, few extensions
            let mut h = Hello::minimal();
            for b in h.random.iter_mut() {
                *b = r.u8();
            }
            h.record_version = *r.pick(&[0x0301u16, 0x0303]);
            h.session_id = if total > 120 && r.chance(1, 2) { r.bytes(32) } else { Vec::new() };
            let n = 1 + r.usize(4);
            h.ciphers = tlsgen::fresh_ciphers(r, n);
            let mut exts = Vec::new();
            if total > 100 && r.chance(2, 3) {
                exts.push(Ext::Sni(vec![(0, b"a.io".to_vec())]));
            }
            if total > 90 && r.chance(1, 2) {
                exts.push(Ext::SupportedVersions(vec![0x0304, 0x0303]));
            }
            if total > 150 && r.chance(1, 2) {
                exts.push(Ext::SigAlgs(vec![0x0403, 0x0804]));
            }
            if total > 150 && r.chance(1, 2) {
                exts.push(Ext::Alpn(vec![b"h2".to_vec()]));
            }
            h.extensions = if exts.is_empty() && r.chance(1, 2) { None } else { Some(exts) };
            h
        } else {
            let mut h = tlsgen::random_hello(r, false);
            h.exts_mut().retain(|e| e.typ() != 0x0015);
            if h.exts().is_empty() {
                h.extensions = Some(Vec::new());
            }
            h
        };
        if !h.encodable() {
            continue;
        }
        let cur = h.record().len();
        if cur == total {
            return Some(h);
        }
        if cur + 4 <= total && tlsgen::pad_record_to(&mut h, total) {
            // move the padding somewhere inside the list sometimes
            if r.chance(1, 2) && h.exts().len() > 1 {
                let e = h.exts_mut().pop().unwrap();
                let p = r.usize(h.exts().len() + 1);
                h.exts_mut().insert(p, e);
            }
            return Some(h);
        }
        if cur + 2 == total && h.extensions.is_none() {
            h.extensions = Some(Vec::new());
            return Some(h);
        }
    }
    None
}

/// Establish the one-segment baseline through both APIs and compare it with the reference.
fn make_case(ctx: &mut Ctx, pk: &mut Pk, tag: &'static str, h: &Hello) -> Case {
    let rec = h.record();
    let one_r = run_reader(&rec, &[]);
    let baseline = one_r.outs.first().cloned().flatten();
    let conformant = rec.len() <= 5 + 16384;
    if conformant {
        // one-segment result vs. the JA4 reference (the C04 oracle), so that "equal to the
        // one-segment result" is anchored to the specification
        let exp = tlsgen::ref_ja4(h);
        let got = rt::guard(|| huginn_net_tls::parse_tls_client_hello(&rec).ok().flatten().map(|s| Obs::from_sig(&s)));
        let (ok, diffs) = match &got {
            Ok(Some(o)) => {
                let d = tlsgen::diff(&exp, o);
                (d.is_empty() && baseline.as_deref() == Some(o.render().as_str()), d)
            }
            _ => (false, vec!["no result in one segment".to_string()]),
        };
        ctx.judge(ok, &[], "one-segment result of the reader differs from the JA4 reference / parse function", || {
            json!({"case": tag, "record_hex": rt::hex(&rec[..rec.len().min(3000)]), "model": h.describe(), "differences": diffs,
                   "reader_result": baseline})
        });
        if rec.len() <= 60000 {
            let one_p = run_packets(pk, &rec, &[], false);
            let pb = one_p.outs.first().cloned().flatten();
            ctx.judge(pb == baseline && one_p.anomalies.is_empty(), &[], "one-segment results of reader and packet analyzer differ", || {
                json!({"case": tag, "record_hex": rt::hex(&rec[..rec.len().min(3000)]), "reader": baseline, "packets": pb, "anomalies": one_p.anomalies})
            });
        }
    } else {
        ctx.class(if baseline.is_some() { "oversized-record:accepted" } else { "oversized-record:rejected-in-one-segment" });
    }
    Case { tag, rec, baseline, layout: layout(h) }
}

/// bytes that may follow the record; never contain 0x16
fn trailing_bytes(r: &mut Rng, n: usize) -> Vec<u8> {
    let mut t: Vec<u8> = match r.below(5) {
        0 => {
            // ChangeCipherSpec + application data records
            let mut v = vec![0x14, 0x03, 0x03, 0x00, 0x01, 0x01];
            let m = n.saturating_sub(11).min(0xffff);
            v.extend_from_slice(&[0x17, 0x03, 0x03, (m >> 8) as u8, m as u8]);
            v.extend(r.bytes(m));
            v
        }
        1 => {
            let mut v = vec![0x15, 0x03, 0x03, 0x00, 0x02, 0x02, 0x28];
            v.extend(r.bytes(n.saturating_sub(7)));
            v
        }
        2 => vec![0u8; n.max(1)],
        3 => b"GET / HTTP/1.1\r\nHost: x\r\n\r\n".iter().copied().cycle().take(n.max(1)).collect(),
        _ => r.bytes(n.max(1)),
    };
    for b in t.iter_mut() {
        if *b == 0x16 {
            *b = 0x17;
        }
    }
    t.truncate(n.max(1));
    t
}

/// sorted distinct cut offsets
fn norm(mut v: Vec<usize>) -> Vec<usize> {
    v.sort_unstable();
    v.dedup();
    v
}

fn random_cuts(r: &mut Rng, l: usize, k: usize) -> Vec<usize> {
    // k segments of the record: k-1 cuts in (5 .. l), first >= 5
    let mut v = Vec::new();
    if l <= 6 {
        return v;
    }
    for _ in 0..k.saturating_sub(1) {
        let c = match r.below(8) {
            0 => 5,
            1 => l - 1,
            2 => 5 + r.usize(40).min(l - 6),
            _ => 5 + r.usize(l - 5),
        };
        if c >= 5 && c < l {
            v.push(c);
        }
    }
    norm(v)
}

// ---------------------------------------------------------------------------------- stages

fn stage_three_partitions(ctx: &mut Ctx, pk: &mut Pk) {
    // one hello <= ~200 B per shard (thorough: several, up to 300 B)
    let per_shard = ctx.scale(3, 300, 1);
    for j in 0..per_shard {
        let mut r = ctx.rng(801 + j);
        let span = if ctx.quick() { 170 } else { 245 };
        let total = 58 + ((ctx.shard as u64 * 9 + j * 37 + r.below(9)) % span) as usize;
        let total = if ctx.miri() { 60 } else { total };
        let Some(h) = hello_of_size(&mut r, total) else {
            ctx.class("three-partition:size-unreachable");
            continue;
        };
        let case = make_case(ctx, pk, "hello<=300B", &h);
        let l = case.rec.len();
        let mut n = 0u64;
        for c1 in 5..l {
            for c2 in (c1 + 1)..l {
                episode(ctx, pk, "all-3-partitions", &case, &case.rec, &[c1, c2], (true, true));
                n += 1;
            }
        }
        ctx.class_n("episodes:3-partition", n);
        ctx.exhaustive("every 3-partition (first segment >= 5 bytes) of each hello of the <=300 B corpus, reader and packet analyzer");
        // byte-by-byte after the first five
        let cuts: Vec<usize> = (5..l).collect();
        episode(ctx, pk, "byte-by-byte", &case, &case.rec, &cuts, (true, true));
        stage_trailing(ctx, pk, &case, &mut r, ctx.scale(150, 1500, 4));
        if ctx.want_sample() {
            ctx.sample(json!({"case": "3-partitions", "record_len": l, "episodes": n, "model": h.describe(), "one_segment_result": case.baseline}));
        }
    }
}

fn stage_two_partitions(ctx: &mut Ctx, pk: &mut Pk) {
    // sizes from ~60 B to a few KiB, different per shard
    let ranges: &[(usize, usize)] = if ctx.miri() {
        &[(60, 80)]
    } else if ctx.quick() {
        &[(60, 300), (300, 900), (900, 2200), (2200, 4600), (60, 1500), (4600, 16389)]
    } else {
        &[(60, 300), (300, 900), (900, 2200), (2200, 4600), (4600, 9000), (9000, 16389), (60, 4600), (60, 1500)]
    };
    let reps = ctx.scale(1, 48, 1);
    for rep in 0..reps {
        for (j, (lo, hi)) in ranges.iter().enumerate() {
            let mut r = ctx.rng(810 + rep * 16 + j as u64);
            let total = lo + r.usize(hi - lo);
            let Some(h) = hello_of_size(&mut r, total) else {
                ctx.class("two-partition:size-unreachable");
                continue;
            };
            let case = make_case(ctx, pk, "hello-60B..16KiB", &h);
            let l = case.rec.len();
            for c in 5..l {
                episode(ctx, pk, "all-2-partitions", &case, &case.rec, &[c], (true, true));
            }
            ctx.class_n("episodes:2-partition", (l - 5) as u64);
            if l <= 5000 {
                let cuts: Vec<usize> = (5..l).collect();
                episode(ctx, pk, "byte-by-byte", &case, &case.rec, &cuts, (true, true));
                // first five, then everything in MSS-like pieces
                for mss in [1usize, 2, 3, 7, 536, 1460] {
                    let mut cuts = vec![5];
                    let mut p = 5 + mss;
                    while p < l {
                        cuts.push(p);
                        p += mss;
                    }
                    episode(ctx, pk, "fixed-size-segments", &case, &case.rec, &cuts, (true, true));
                }
            }
            stage_random_partitions(ctx, pk, &case, &mut r, ctx.scale(300, 3000, 4));
            stage_trailing(ctx, pk, &case, &mut r, ctx.scale(120, 1200, 4));
            if ctx.want_sample() {
                ctx.sample(json!({"case": "2-partitions", "record_len": l, "model_exts": h.exts().len(), "one_segment_result": case.baseline}));
            }
        }
    }
    ctx.exhaustive("every 2-partition (cut at every offset 5..L-1) of each hello of the 60 B..few-KiB corpus, reader and packet analyzer");
}

/// Hellos whose own bytes look like TLS record headers (`16 03 0x ll ll`) at many offsets: a cut
/// that lands on such bytes gives a continuation segment that *starts like a new record*.  It is
/// still a continuation of the same record, so the exactly-once rule applies unchanged.
fn stage_lookalike(ctx: &mut Ctx, pk: &mut Pk) {
    for (i, total) in [140usize, 330, 282 + 5, 700].iter().enumerate() {
        let mut r = ctx.rng(880 + i as u64);
        let Some(mut h) = hello_of_size(&mut r, *total) else { continue };
        let pat = [0x16u8, 0x03, 0x01 + (i as u8 % 4), 0x00, 0x40];
        for k in 0..32 {
            h.random[k] = pat[(k + i) % 5];
        }
        h.session_id = (0..32).map(|k| pat[(k + 2 + i) % 5]).collect();
        let case = make_case(ctx, pk, "record-header-lookalike-bytes", &h);
        let l = case.rec.len();
        for c in 5..l {
            episode(ctx, pk, "lookalike-2-partitions", &case, &case.rec, &[c], (true, true));
        }
        for c1 in 5..l.min(90) {
            for c2 in (c1 + 1)..l.min(96) {
                if (c1 + c2 + i) % 3 == 0 || !ctx.quick() {
                    episode(ctx, pk, "lookalike-3-partitions", &case, &case.rec, &[c1, c2], (true, true));
                }
            }
        }
    }
    // a hello whose handshake length itself ends in 0x16 so that `.. 16 03 03` spans the
    // length / version fields (record length 282: bytes 5..11 = 01 00 01 16 03 03)
    for total in [282usize + 5, 0x216 + 4 + 5, 0x316 + 4 + 5] {
        let mut r = ctx.rng(890 + total as u64);
        if let Some(h) = hello_of_size(&mut r, total) {
            let case = make_case(ctx, pk, "handshake-length-ends-in-16", &h);
            for c in 5..case.rec.len() {
                episode(ctx, pk, "lookalike-2-partitions", &case, &case.rec, &[c], (true, true));
            }
        }
    }
}

/// The per-worker path: the same history rule for segments dispatched to a worker pool, with
/// idle gaps (several worker time-outs long, far below the 20 s flow TTL) between segments.
fn stage_workers(ctx: &mut Ctx, pk: &mut Pk) {
    if ctx.miri() {
        return;
    }
    crate::pool::install_hooks();
    let mut r = ctx.rng(870);
    let rounds = ctx.scale(3, 30, 0);
    for round in 0..rounds {
        let cfg = crate::pool::PoolCfg {
            workers: *r.pick(&[1usize, 2, 4]),
            queue: 64,
            batch: *r.pick(&[1usize, 8, 32]),
            timeout_ms: *r.pick(&[1u64, 2, 4]),
            max_conn: 1000,
            with_db: false,
        };
        let wp = match Wp::new(cfg) {
            Ok(w) => w,
            Err(e) => {
                ctx.inconclusive(&format!("TLS worker pool could not be created: {e}"));
                return;
            }
        };
        for j in 0..4u64 {
            let total = 60 + r.usize(if j == 3 { 4000 } else { 600 });
            let Some(hl) = hello_of_size(&mut r, total) else { continue };
            let case = make_case(ctx, pk, "hello-per-worker", &hl);
            let l = case.rec.len();
            for e in 0..ctx.scale(5, 12, 0) {
                let cuts: Vec<usize> = match e % 5 {
                    0 => vec![5 + r.usize(l - 5)],
                    1 => vec![l - 1 - r.usize(4.min(l - 6))],
                    2 => vec![5, 6, 7, l - 2],
                    _ => {
                        let k = 2 + r.usize(4);
                        random_cuts(&mut r, l, k)
                    }
                };
                let cuts = norm(cuts);
                // idle after a seeded subset of the segments (bit i = idle after frame i)
                let idle_mask = match e % 3 {
                    0 => u64::MAX,
                    1 => r.next_u64(),
                    _ => 0,
                };
                let with_hs = r.chance(1, 3);
                let h = run_workers(&wp, pk, &case.rec, &cuts, with_hs, idle_mask);
                let kind = if idle_mask == 0 { "back-to-back" } else { "idle-gaps" };
                judge_history(ctx, "workers", kind, &case, &case.rec, &cuts, &h);
                ctx.bucket(&format!("workers/w{}/b{}/t{}/{kind}", cfg.workers, cfg.batch, cfg.timeout_ms));
            }
        }
        wp.h.shutdown();
        ctx.stage_add("worker_pool_rounds", 1);
        let _ = round;
    }
    // bursts: a worker that is kept busy with large unsegmented hellos finds the segments of
    // several other connections, interleaved, waiting in its queue (batches of up to 32 or 64
    // frames).  Each of those connections still yields exactly one result, the single-segment one.
    //
    // The second half of the rounds uses queues of one or two frames and 2..4 workers, with a
    // capture thread that offers a frame again until it is accepted (back-pressure): a frame is
    // refused while its connection's worker is busy, never handed to another worker, so the
    // segments of a connection still reach one reader, in order.
    let loose_rounds = ctx.scale(4, 40, 0);
    for round in 0..loose_rounds + ctx.scale(6, 40, 0) {
        let tight = round >= loose_rounds;
        let cfg = if tight {
            crate::pool::PoolCfg { workers: 2 + (round as usize % 3), queue: 1 + (round as usize % 2), batch: *r.pick(&[1usize, 4]), timeout_ms: 1, max_conn: 1000, with_db: false }
        } else {
            crate::pool::PoolCfg { workers: 1 + (round as usize % 2), queue: 4096, batch: *r.pick(&[32usize, 64]), timeout_ms: 2, max_conn: 1000, with_db: false }
        };
        let Ok(wp) = Wp::new(cfg) else { continue };
        crate::pool::reset_log(0, 0);
        let mut frames: Vec<Vec<u8>> = Vec::new();
        // (connection endpoints key, expected single-segment result)
        let mut expected: Vec<(String, Option<String>)> = Vec::new();
        for _ in 0..24 {
            let sz = 3000 + r.usize(6000);
            let Some(hl) = hello_of_size(&mut r, sz) else { continue };
            let case = make_case(ctx, pk, "burst-filler", &hl);
            let ep = pk.next();
            let mut s = Script::new(ep.clone(), Link::Ethernet, r.u32(), 0x5000_0000);
            s.c_stream(&case.rec, &[]);
            frames.extend(std::mem::take(&mut s.frames));
            expected.push((ep.key(), case.baseline.clone()));
        }
        let mut segmented: Vec<Vec<Vec<u8>>> = Vec::new();
        for _ in 0..3 + r.usize(3) {
            let sz = 300 + r.usize(900);
            let Some(hl) = hello_of_size(&mut r, sz) else { continue };
            let case = make_case(ctx, pk, "burst-segmented", &hl);
            let ep = pk.next();
            let mut s = Script::new(ep.clone(), Link::Ethernet, r.u32(), 0x5000_0000);
            let k = 12 + r.usize(12);
            let cuts = norm(random_cuts(&mut r, case.rec.len(), k));
            s.c_stream(&case.rec, &cuts);
            segmented.push(std::mem::take(&mut s.frames));
            expected.push((ep.key(), case.baseline.clone()));
        }
        // round-robin interleaving of the segmented connections
        let mut pos = vec![0usize; segmented.len()];
        loop {
            let mut any = false;
            for (c, fs) in segmented.iter().enumerate() {
                if pos[c] < fs.len() {
                    frames.push(fs[pos[c]].clone());
                    pos[c] += 1;
                    any = true;
                }
            }
            if !any {
                break;
            }
        }
        let t0 = std::time::Instant::now();
        let mut queued = 0u64;
        let mut refused = false;
        let mut offered_again = 0u64;
        for f in frames {
            let mut accepted = wp.h.dispatch(f.clone());
            while !accepted && tight && t0.elapsed().as_secs_f64() < STALL_LIMIT_S {
                offered_again += 1;
                std::thread::yield_now();
                accepted = wp.h.dispatch(f.clone());
            }
            if accepted {
                queued += 1;
            } else {
                refused = true;
            }
        }
        ctx.class_n("burst-frames-offered-again-after-a-full-queue", offered_again);
        let drained = wp.h.wait_drain(queued, std::time::Duration::from_secs(30));
        let results = wp.h.drain_results();
        wp.h.shutdown();
        if refused || drained == crate::pool::Drain::Stalled || t0.elapsed().as_secs_f64() > STALL_LIMIT_S {
            ctx.inconclusive("burst run: a frame was refused, the pool stalled or the run was too slow");
            continue;
        }
        // results per connection (canonical lines start with "tls <src>><dst> ...")
        let mut got: std::collections::BTreeMap<String, Vec<String>> = std::collections::BTreeMap::new();
        for line in results.into_iter().flatten() {
            let key = crate::canon::endpoints_of(&line).map(|e| e.replace('>', "-")).unwrap_or_default();
            got.entry(key).or_default().push(line);
        }
        for (key, want) in &expected {
            let g = got.remove(key).unwrap_or_default();
            let ok = match want {
                Some(_) => g.len() == 1,
                None => g.is_empty(),
            };
            ctx.judge(ok, &[], "burst through a TLS worker: a connection does not yield exactly its one result", || {
                json!({"connection": key, "results": g, "one_segment_result_exists": want.is_some(), "pool": format!("{cfg:?}"), "segmented_connections": segmented.len()})
            });
        }
        ctx.judge(got.is_empty(), &[], "burst through a TLS worker: results for connections that were not sent", || json!({"extra": got.keys().collect::<Vec<_>>()}));
        ctx.bucket(&format!("workers/burst{}/w{}/q{}/b{}/segmented{}", if tight { "-tight-queue" } else { "" }, cfg.workers, cfg.queue, cfg.batch, segmented.len()));
    }
}

fn stage_random_partitions(ctx: &mut Ctx, pk: &mut Pk, case: &Case, r: &mut Rng, n: u64) {
    let l = case.rec.len();
    for _ in 0..n {
        let k = match r.below(4) {
            0 => 2 + r.usize(3),
            1 => 2 + r.usize(12),
            _ => 2 + r.usize(63),
        };
        let cuts = random_cuts(r, l, k);
        episode(ctx, pk, "random-k-partition", case, &case.rec, &cuts, (true, true));
    }
}

/// bytes after the record: in the completing segment, in later segments, both; 1-byte tails
fn stage_trailing(ctx: &mut Ctx, pk: &mut Pk, case: &Case, r: &mut Rng, n: u64) {
    let l = case.rec.len();
    for i in 0..n {
        let tn = match r.below(4) {
            0 => 1,
            1 => 1 + r.usize(8),
            2 => 6 + r.usize(60),
            _ => 1 + r.usize(1500),
        };
        let t = trailing_bytes(r, tn);
        let mut stream = case.rec.clone();
        stream.extend_from_slice(&t);
        // cuts inside the record
        let mut cuts = match i % 4 {
            0 => vec![],                // whole record in the first segment
            1 => vec![l - 1],           // 1-byte tail completes it
            2 => vec![5],               // header only, then the rest
            _ => {
                let k = 2 + r.usize(5);
                random_cuts(r, l, k)
            }
        };
        let bogus = case.baseline.is_some() && i % 8 == 5;
        if bogus {
            // a later segment that looks like a ClientHello but whose record version is outside
            // 0x0300..=0x0304: by the analyzer's own rule it does not start a TLS handshake record,
            // so it is "bytes after the record" and must not produce a (second) result
            let mut h2 = Hello::minimal();
            h2.record_version = *r.pick(&[0x0305u16, 0x0200, 0x7f1c, 0x0403, 0x0002]);
            h2.ciphers = vec![0x1301, 0x1302, 0xc02f];
            h2.extensions = Some(vec![Ext::Sni(vec![(0, b"second.example".to_vec())]), Ext::SupportedVersions(vec![0x0304])]);
            let t2 = h2.record();
            let mut stream = case.rec.clone();
            stream.extend_from_slice(&t2);
            cuts.push(l);
            if r.chance(1, 2) {
                // and something after it
                let tn2 = 1 + r.usize(20);
                stream.extend_from_slice(&trailing_bytes(r, tn2));
                cuts.push(l + t2.len());
            }
            let cuts: Vec<usize> = norm(cuts).into_iter().filter(|c| *c > 0 && *c < stream.len()).collect();
            episode(ctx, pk, "trailing-hello-like-segment-with-invalid-record-version", case, &stream, &cuts, (true, true));
            continue;
        }
        let kind = match r.below(3) {
            0 => {
                // all trailing bytes ride in the completing segment
                "trailing-in-completing-segment"
            }
            1 => {
                // trailing bytes only in later segments (1..4 of them, 1-byte ones included)
                cuts.push(l);
                for _ in 0..r.below(4) {
                    cuts.push(l + 1 + r.usize(t.len()));
                }
                "trailing-later-segments"
            }
            _ => {
                let inside = 1 + r.usize(t.len());
                cuts.push(l + inside);
                for _ in 0..r.below(3) {
                    cuts.push(l + inside + 1 + r.usize(t.len()));
                }
                "trailing-both"
            }
        };
        let cuts: Vec<usize> = norm(cuts).into_iter().filter(|c| *c > 0 && *c < stream.len()).collect();
        episode(ctx, pk, kind, case, &stream, &cuts, (true, true));
    }
}

fn stage_large(ctx: &mut Ctx, pk: &mut Pk) {
    // 16 KiB class: the largest conformant record, the largest the parser takes, just beyond, and
    // the 64 KiB bound of the reader.  Random partitions only.
    let sizes: [(usize, &'static str); 6] = [
        (5 + 16384, "hello-16KiB-max-conformant"),
        (5 + 16383, "hello-16KiB-1"),
        (5 + 8192, "hello-8KiB"),
        (5 + 16640, "hello-oversized-16640"),
        (5 + 16641, "hello-oversized-16641"),
        (5 + 65531, "hello-near-64KiB"),
    ];
    for (j, (total, tag)) in sizes.iter().enumerate() {
        if !ctx.mine(j as u64) && !ctx.miri() {
            continue;
        }
        if ctx.miri() && j != 2 {
            continue;
        }
        let mut r = ctx.rng(830 + j as u64);
        let Some(h) = hello_of_size(&mut r, *total) else {
            ctx.class("large:size-unreachable");
            continue;
        };
        let case = make_case(ctx, pk, tag, &h);
        let n = if *total > 60000 { ctx.scale(6, 60, 1) } else { ctx.scale(60, 1500, 1) };
        stage_random_partitions(ctx, pk, &case, &mut r, n);
        let l = case.rec.len();
        for cuts in [vec![5], vec![l - 1], vec![5, l - 1], vec![1460, 2920, 4380], vec![l / 2]] {
            let cuts: Vec<usize> = cuts.into_iter().filter(|c| *c >= 5 && *c < l).collect();
            episode(ctx, pk, "edge-cuts", &case, &case.rec, &cuts, (true, true));
        }
        if *total <= 5 + 16384 {
            stage_trailing(ctx, pk, &case, &mut r, ctx.scale(12, 200, 1));
            // a strided sample of the 2-partitions of the big hello (thorough: all of them)
            let stride = ctx.scale(97, 1, 4001) as usize;
            let mut c = 5 + r.usize(stride);
            while c < l {
                episode(ctx, pk, "2-partition-sample", &case, &case.rec, &[c], (true, true));
                c += stride;
            }
        }
    }
}

fn server_hello(r: &mut Rng) -> Vec<u8> {
    let mut body = vec![0x03, 0x03];
    body.extend(r.bytes(32));
    body.push(32);
    body.extend(r.bytes(32));
    body.extend_from_slice(&[0x13, 0x01, 0x00]);
    let exts: Vec<u8> = vec![0x00, 0x2b, 0x00, 0x02, 0x03, 0x04, 0x00, 0x33, 0x00, 0x02, 0x00, 0x1d];
    body.extend_from_slice(&(exts.len() as u16).to_be_bytes());
    body.extend(exts);
    let mut hs = vec![2u8];
    hs.extend_from_slice(&(body.len() as u32).to_be_bytes()[1..]);
    hs.extend(body);
    hs
}

fn record(ct: u8, ver: u16, payload: &[u8]) -> Vec<u8> {
    let mut v = vec![ct];
    v.extend_from_slice(&ver.to_be_bytes());
    v.extend_from_slice(&(payload.len() as u16).to_be_bytes());
    v.extend_from_slice(payload);
    v
}

fn hs_msg(t: u8, body: &[u8]) -> Vec<u8> {
    let mut v = vec![t];
    v.extend_from_slice(&(body.len() as u32).to_be_bytes()[1..]);
    v.extend_from_slice(body);
    v
}

fn stage_non_client_hello(ctx: &mut Ctx, pk: &mut Pk) {
    let mut r = ctx.rng(840);
    let mut recs: Vec<(&'static str, Vec<u8>)> = Vec::new();
    let n60 = r.usize(60);
    let n200 = 1 + r.usize(200);
    recs.push(("server-hello", record(0x16, 0x0303, &server_hello(&mut r))));
    recs.push(("server-hello-tls10-recver", record(0x16, 0x0301, &server_hello(&mut r))));
    recs.push(("alert", record(0x15, 0x0303, &[2, 40])));
    recs.push(("alert-warning-close", record(0x15, 0x0301, &[1, 0])));
    recs.push(("application-data", record(0x17, 0x0303, &r.bytes(n200))));
    recs.push(("change-cipher-spec", record(0x14, 0x0303, &[1])));
    recs.push(("heartbeat", record(0x18, 0x0303, &[1, 0, 3, 1, 2, 3, 0, 0, 0, 0, 0, 0, 0, 0, 0, 0, 0, 0, 0, 0, 0, 0])));
    recs.push(("hs-hello-request", record(0x16, 0x0303, &hs_msg(0, &[]))));
    recs.push(("hs-server-hello-done", record(0x16, 0x0303, &hs_msg(14, &[]))));
    recs.push(("hs-certificate", record(0x16, 0x0303, &hs_msg(11, &{
        let cert = r.bytes(300);
        let mut b = Vec::new();
        b.extend_from_slice(&((cert.len() + 3) as u32).to_be_bytes()[1..]);
        b.extend_from_slice(&(cert.len() as u32).to_be_bytes()[1..]);
        b.extend(cert);
        b
    }))));
    recs.push(("hs-client-key-exchange", record(0x16, 0x0303, &hs_msg(16, &{
        let mut b = vec![65];
        b.extend(r.bytes(65));
        b
    }))));
    recs.push(("hs-finished", record(0x16, 0x0303, &hs_msg(20, &r.bytes(12)))));
    recs.push(("hs-new-session-ticket", record(0x16, 0x0303, &hs_msg(4, &{
        let mut b = vec![0, 0, 0x1c, 0x20, 0, 40];
        b.extend(r.bytes(40));
        b
    }))));
    recs.push(("hs-unknown-type-99", record(0x16, 0x0303, &hs_msg(99, &r.bytes(n60)))));
    recs.push(("hs-encrypted", record(0x16, 0x0303, &{
        let mut b = r.bytes(40);
        if b[0] == 1 {
            b[0] = 0x9c;
        }
        b
    })));
    recs.push(("hs-empty-record", record(0x16, 0x0303, &[])));
    recs.push(("hs-server-hello+certificate", record(0x16, 0x0303, &{
        let mut b = server_hello(&mut r);
        b.extend(hs_msg(14, &[]));
        b
    })));
    for (i, (tag, rec)) in recs.into_iter().enumerate() {
        if !ctx.mine(i as u64) && !ctx.miri() {
            continue;
        }
        let case = Case { tag, rec, baseline: None, layout: Vec::new() };
        let l = case.rec.len();
        // sanity of the class itself: one segment gives nothing
        episode(ctx, pk, "non-clienthello-whole", &case, &case.rec, &[], (true, true));
        for c in 5..l {
            episode(ctx, pk, "non-clienthello-2-partitions", &case, &case.rec, &[c], (true, true));
        }
        if l > 6 {
            let cuts: Vec<usize> = (5..l).collect();
            episode(ctx, pk, "non-clienthello-byte-by-byte", &case, &case.rec, &cuts, (true, true));
        }
        let mut rr = ctx.rng(841 + i as u64);
        for _ in 0..ctx.scale(40, 400, 2) {
            let k = 2 + rr.usize(6);
            let cuts = random_cuts(&mut rr, l, k);
            episode(ctx, pk, "non-clienthello-random", &case, &case.rec, &cuts, (true, true));
        }
        stage_trailing(ctx, pk, &case, &mut rr, ctx.scale(40, 400, 2));
        ctx.bucket(&format!("non-clienthello|{tag}"));
    }
}

/// `hv replay`: when the record carries the whole stream, re-execute just that episode.
fn replay_episode(ctx: &mut Ctx, pk: &mut Pk) -> bool {
    let Some(v) = ctx.replay.clone() else { return false };
    let d = &v["detail"];
    let (Some(hexs), Some(cuts), Some(l)) = (d["stream_hex"].as_str(), d["all_cuts"].as_array(), d["record_len_with_header"].as_u64()) else {
        return false;
    };
    let stream = rt::unhex(hexs);
    let cuts: Vec<usize> = cuts.iter().filter_map(|c| c.as_u64()).map(|c| c as usize).collect();
    let l = (l as usize).min(stream.len());
    let rec = stream[..l].to_vec();
    let baseline = run_reader(&rec, &[]).outs.first().cloned().flatten();
    let case = Case { tag: "replayed", rec, baseline, layout: Vec::new() };
    println!("re-executing the recorded episode only: {} bytes, cuts {:?}", stream.len(), cuts);
    for _ in 0..3 {
        episode(ctx, pk, "replay", &case, &stream, &cuts, (true, true));
    }
    for viol in &mut ctx.rep.violations {
        // let the driver recognise the same kind
        let _ = viol;
    }
    true
}

pub fn run(ctx: &mut Ctx) {
    tlsgen::self_check();
    let mut pk = Pk::new();
    if replay_episode(ctx, &mut pk) {
        return;
    }
    stage_non_client_hello(ctx, &mut pk);
    ctx.stage("cpu_ms_after_non_clienthello", json!((ctx.elapsed() * 1000.0) as u64));
    stage_three_partitions(ctx, &mut pk);
    ctx.stage("cpu_ms_after_3_partitions", json!((ctx.elapsed() * 1000.0) as u64));
    stage_two_partitions(ctx, &mut pk);
    ctx.stage("cpu_ms_after_2_partitions", json!((ctx.elapsed() * 1000.0) as u64));
    stage_lookalike(ctx, &mut pk);
    stage_workers(ctx, &mut pk);
    stage_large(ctx, &mut pk);
    ctx.stage("cpu_ms_total", json!((ctx.elapsed() * 1000.0) as u64));
}

pub fn spec() -> PropSpec {
    PropSpec {
        id: "C08",
        run,
        shards: super::shards_16,
        rule: "history oracle over per-segment return values: each episode delivers one TLS record (plus optional bytes after it) as in-order chunks to TlsClientHelloReader::add_bytes and as in-order TCP data segments of one scripted connection to HuginnNetTls::verif_process_packet (distinct client endpoint per episode, fresh analyzer every 256 episodes, IPv4 and IPv6, with and without a preceding TCP handshake); for a ClientHello exactly one result, on the first segment whose cumulative length reaches 5+record length, equal to the one-segment result (itself checked against ref_ja4 and the parse function); no result for non-ClientHello records; every 2-partition of hellos 60 B..4.6 KiB (thorough ..16 KiB), every 3-partition of hellos <= 200 B (thorough 300 B), byte-by-byte, fixed-size and random k-partitions, 16 KiB and 64 KiB class by random partitions; the same rule for segments dispatched in lock-step to a TLS worker pool with idle gaps between segments; a bucket is a distinct (api, episode kind, corpus, record-length class, segment-count class, first-segment length class and the hello field the first cut falls in, tail length class, bytes-after-record class) combination",
        assumptions: &[
            "a data segment may carry FIN (PSH|FIN|ACK with payload); tight-queue bursts: a refused frame is offered again until accepted",
            "the first segment holds at least the 5-byte record header; segments arrive in order, without loss, duplication or overlap",
            "one TLS record per episode; bytes after the record never contain 0x16, so no later segment begins a new handshake record (a second ClientHello on the connection is outside the judged domain); the only exception is the episode kind 'trailing-hello-like-segment-with-invalid-record-version': a later segment 16 vv vv .. with record version outside 0x0300..=0x0304, which by the analyzer's own is_tls_traffic rule is not a TLS handshake record and therefore counts as bytes after the record",
            "records longer than 2^14 bytes (RFC 8446 §5.1 forbids them) that yield no result in one segment are only required to yield no result when segmented",
            "an Err return of add_bytes / verif_process_packet counts as 'no result'",
            "per-worker path: segments are dispatched one at a time to a TLS WorkerPool (1/2/4 workers, batch 1/8/32, worker time-out 1/2/4 ms), each awaited at the worker's WorkerProcessed hook point; idle gaps of 4 time-outs + 2 ms are inserted after a seeded subset of the segments; an episode that takes more than 5 s of wall time, or whose dispatch is not queued, is inconclusive",
        ],
        parent_stage: None,
    }
}
