//! C18 — dispatch keeps connections together and accounts for every packet exactly once.
//!
//! (a) Metamorphic check of the three hash functions (and, in situ, of the worker observed at the
//!     dispatch hook): frames that share the connection identity the pool must shard on but differ
//!     in everything else map to the same, valid worker index; direction swap keeps the worker
//!     for HTTP.
//! (b) History check over the event log: under 1..8 concurrent dispatcher threads and queue sizes
//!     down to 0, every frame reported Queued is processed exactly once, every frame reported
//!     Dropped never is, and the statistics agree with the outcomes returned.

use crate::pkt::{self, flags, Ip, Link, Tcp, V4, V6};
use crate::pool::{self, Filters, Handle, PoolCfg, PoolKind, Site};
use crate::rt::{hex, Ctx, PropSpec, Rng};
use serde_json::json;
use std::collections::{HashMap, HashSet};
use std::net::{Ipv4Addr, Ipv6Addr};
use std::sync::{Arc, Mutex};
use std::time::Duration;

pub const F_HTTP_WORKER_DROPPED: &str = "C18-http-worker-dropped-counts-errors";

#[derive(Clone, Debug)]
pub struct Identity {
    pub v4: bool,
    pub src4: Ipv4Addr,
    pub dst4: Ipv4Addr,
    pub src6: Ipv6Addr,
    pub dst6: Ipv6Addr,
    pub sport: u16,
    pub dport: u16,
}

/// in a raw IPv6 frame bytes 12..14 are bytes 4..6 of the source address
fn unambiguous_v6(x: u128) -> Ipv6Addr {
    let mut o = x.to_be_bytes();
    if (o[4] == 0x08 && o[5] == 0x00) || (o[4] == 0x86 && o[5] == 0xdd) {
        o[4] ^= 0x40;
    }
    Ipv6Addr::from(o)
}

fn rand_identity(r: &mut Rng) -> Identity {
    // raw-IP frames whose source address starts 8.0 / 134.221 are read as Ethernet by the
    // analyzers' own parser as well (ambiguous framing): excluded from the judged domain
    let mut a = r.u32();
    if (a >> 16) == 0x0800 || (a >> 16) == 0x86dd {
        a ^= 0x4000_0000;
    }
    let mut b = r.u32();
    if (b >> 16) == 0x0800 || (b >> 16) == 0x86dd {
        b ^= 0x4000_0000;
    }
    // loopback-style connections: both ends on one address, sometimes also on one port
    let same_addr = r.chance(1, 8);
    if same_addr {
        b = a;
    }
    let s6 = unambiguous_v6(((r.next_u64() as u128) << 64) | r.next_u64() as u128);
    let sp = r.u16();
    if same_addr {
        return Identity { v4: r.chance(2, 3), src4: Ipv4Addr::from(a), dst4: Ipv4Addr::from(b), src6: s6, dst6: s6, sport: sp, dport: if r.chance(1, 4) { sp } else { r.u16() } };
    }
    Identity {
        v4: r.chance(2, 3),
        src4: Ipv4Addr::from(a),
        dst4: Ipv4Addr::from(b),
        src6: unambiguous_v6(((r.next_u64() as u128) << 64) | r.next_u64() as u128),
        dst6: unambiguous_v6(((r.next_u64() as u128) << 64) | r.next_u64() as u128),
        sport: r.u16(),
        dport: r.u16(),
    }
}

/// a frame with the given identity and otherwise random header fields, options and payload
fn variant(r: &mut Rng, id: &Identity, swap: bool, link: Link) -> Vec<u8> {
    let (sp, dp) = if swap { (id.dport, id.sport) } else { (id.sport, id.dport) };
    let mut topts = Vec::new();
    if r.chance(1, 2) {
        topts.extend(pkt::opt_mss(r.u16()));
    }
    if r.chance(1, 3) {
        topts.extend(pkt::opt_ts(r.u32(), r.u32()));
    }
    if r.chance(1, 4) {
        topts.extend(pkt::opt_sack(1 + r.usize(3)));
    }
    let plen = *r.pick(&[0usize, 0, 1, 20, 300, 1400]);
    let tcp = Tcp {
        sport: sp,
        dport: dp,
        seq: r.u32(),
        ack: r.u32(),
        flags: *r.pick(&[flags::SYN, flags::SYN | flags::ACK, flags::ACK, flags::ACK | flags::PSH, flags::FIN | flags::ACK, flags::RST, 0xff, 0]),
        window: r.u16(),
        urg: if r.chance(1, 8) { r.u16() } else { 0 },
        options: topts,
        pad_byte: r.u8() & 1,
        payload: r.bytes(plen),
        ..Default::default()
    };
    let ip = if id.v4 {
        let (s, d) = if swap { (id.dst4, id.src4) } else { (id.src4, id.dst4) };
        let nopt = if r.chance(1, 3) { r.usize(11) * 4 } else { 0 };
        let mut h = V4 { src: s, dst: d, ttl: r.u8(), tos: r.u8(), id: r.u16(), flags: r.u8() & 0b110, options: vec![1; nopt], ..Default::default() };
        if nopt == 0 && r.chance(1, 6) {
            // header-length field below 5: the parser still places TCP after the 20 fixed bytes
            h.ihl = Some(r.u8() % 5);
        }
        if r.chance(1, 8) {
            h.total_len = Some(r.u16());
        }
        Ip::V4(h)
    } else {
        let (s, d) = if swap { (id.dst6, id.src6) } else { (id.src6, id.dst6) };
        Ip::V6(V6 { src: s, dst: d, hop: r.u8(), tclass: r.u8(), flow: r.u32() & 0xfffff, ..Default::default() })
    };
    pkt::build(link, &ip, &tcp)
}

fn hash_of(kind: PoolKind, frame: &[u8], n: usize) -> Option<usize> {
    match kind {
        PoolKind::Tcp => Some(huginn_net_tcp::packet_hash::hash_source_ip(frame).checked_rem(n).unwrap_or(0)),
        PoolKind::Http => Some(huginn_net_http::packet_hash::hash_flow(frame, n)),
        PoolKind::Tls => huginn_net_tls::packet_hash::hash_flow(frame, n),
    }
}

fn metamorphic(ctx: &mut Ctx) {
    let n_ids = ctx.scale(30_000, 1_000_000, 20) / ctx.nshards as u64 + 1;
    let mut r = ctx.rng(18);
    for _ in 0..n_ids {
        let id = rand_identity(&mut r);
        let link0 = if r.chance(1, 2) { Link::Ethernet } else { Link::RawIp };
        let base = variant(&mut r, &id, false, link0);
        let ns: Vec<usize> = vec![1, 2, 3, 4, 7, 8, 16, 1 + r.usize(64), 64];
        let other_id = rand_identity(&mut r);
        let other = variant(&mut r, &other_id, false, link0);
        for kind in [PoolKind::Tcp, PoolKind::Http, PoolKind::Tls] {
            // the worker is a function of (identity, worker count) alone: the same frame asked
            // for the counts in descending order, back to back, and later again in ascending
            // order after a frame of another connection, gets the same (valid) answers
            let desc: Vec<Option<usize>> = ns.iter().rev().map(|&n| hash_of(kind, &base, n)).collect();
            for (i, &n) in ns.iter().enumerate() {
                let _ = hash_of(kind, &other, n);
                let w0 = hash_of(kind, &base, n);
                let wd = desc[ns.len() - 1 - i];
                ctx.judge(w0 == wd && wd.map(|x| x < n).unwrap_or(true), &[], "worker index of one frame and worker count depends on the calls made before (or is invalid)", || {
                    json!({"pool": format!("{kind:?}"), "workers": n, "frame_hex": hex(&base), "asked_in_descending_sweep": format!("{wd:?}"), "asked_after_another_connection": format!("{w0:?}"),
                           "descending_sweep_counts": ns.iter().rev().collect::<Vec<_>>()})
                });
                for k in 0..6 {
                    // (a third of the Ethernet variants carry MAC addresses that read like an IP
                    // header or a loopback family word: the link layer is no part of the identity)
                    let link = if k % 2 == 1 {
                        Link::RawIp
                    } else if r.chance(1, 3) {
                        let x = [r.u8(), r.u8(), r.u8(), r.u8(), r.u8(), r.u8()];
                        pkt::lookalike_macs(r.below(6), x)
                    } else {
                        Link::Ethernet
                    };
                    // the TCP pool shards on the source address only: its variants may also change ports
                    let mut idv = id.clone();
                    if kind == PoolKind::Tcp && k >= 3 {
                        idv.sport = r.u16();
                        idv.dport = r.u16();
                        idv.dst4 = Ipv4Addr::from(r.u32() | 0x0100_0000 & 0x7fff_ffff);
                    }
                    let v = variant(&mut r, &idv, false, link);
                    let w = hash_of(kind, &v, n);
                    let valid = w.map(|x| x < n).unwrap_or(true) && w0.map(|x| x < n).unwrap_or(true);
                    // well-formed frames of this size are never refused by the TLS hash
                    let ok = valid && w == w0 && w.is_some();
                    ctx.judge(ok, &[], "worker index depends on something other than the connection identity (or is invalid)", || {
                        json!({"pool": format!("{kind:?}"), "workers": n, "frame_a_hex": hex(&base), "frame_b_hex": hex(&v), "worker_a": format!("{w0:?}"), "worker_b": format!("{w:?}")})
                    });
                }
                if kind == PoolKind::Http {
                    let v = variant(&mut r, &id, true, link0);
                    let w = hash_of(kind, &v, n);
                    ctx.judge(w == w0, &[], "HTTP worker differs between the two directions of a connection", || {
                        json!({"workers": n, "forward_hex": hex(&base), "reverse_hex": hex(&v), "worker_forward": format!("{w0:?}"), "worker_reverse": format!("{w:?}")})
                    });
                }
            }
            ctx.bucket(&format!("meta/{kind:?}/{}/{:?}", if id.v4 { "v4" } else { "v6" }, link0));
        }
        // arbitrary garbage / truncated frames: index must be valid whatever the bytes are
        for _ in 0..4 {
            let mut g = if r.chance(1, 2) { base.clone() } else { let n = r.usize(120); r.bytes(n) };
            let cut = r.usize(g.len() + 1);
            g.truncate(cut);
            for kind in [PoolKind::Tcp, PoolKind::Http, PoolKind::Tls] {
                let n = 1 + r.usize(64);
                let w = crate::rt::guard(|| hash_of(kind, &g, n));
                let ok = matches!(&w, Ok(x) if x.map(|i| i < n).unwrap_or(true));
                ctx.judge(ok, &[], "hash function panicked or produced an invalid worker index", || json!({"pool": format!("{kind:?}"), "workers": n, "frame_hex": hex(&g), "result": format!("{w:?}")}));
            }
        }
    }
    ctx.bucket("meta/garbage-and-truncated");
}

#[derive(Clone)]
struct HFrame {
    bytes: Vec<u8>,
    id: u64,
    ident: Option<u64>, // identity group (frames of one group must share a worker)
}

fn history_frames(r: &mut Rng, kind: PoolKind, n: usize) -> Vec<HFrame> {
    let mut out: Vec<HFrame> = Vec::new();
    let mut seen = HashSet::new();
    let groups: Vec<Identity> = (0..(4 + n / 12)).map(|_| rand_identity(r)).collect();
    while out.len() < n {
        let roll = r.below(20);
        let (bytes, ident) = if roll < 15 {
            let g = r.usize(groups.len());
            let swap = kind == PoolKind::Http && r.chance(1, 2);
            {
                let link = if r.chance(1, 4) { Link::RawIp } else { Link::Ethernet };
                (variant(r, &groups[g], swap, link), Some(g as u64))
            }
        } else if roll < 17 {
            // non-TCP IP packet (UDP)
            let ip = Ip::V4(V4 { proto: 17, src: Ipv4Addr::from(r.u32() | 0x0100_0000), ..Default::default() });
            let n = 8 + r.usize(40);
            (pkt::frame(Link::Ethernet, &ip.bytes(&r.bytes(n)), true), None)
        } else if roll < 19 {
            let g = r.usize(groups.len());
            let mut f = variant(r, &groups[g], false, Link::Ethernet);
            let cut = 1 + r.usize(f.len() - 1);
            f.truncate(cut);
            (f, None)
        } else {
            let n = 1 + r.usize(100);
            (r.bytes(n), None)
        };
        let h = pool::fnv(&bytes);
        if seen.insert(h) {
            out.push(HFrame { bytes, id: h, ident });
        }
    }
    out
}

fn history(ctx: &mut Ctx) {
    pool::install_hooks();
    let runs = ctx.scale(1_600, 40_000, 2) / ctx.nshards as u64 + 1;
    let mut r = ctx.rng(1818);
    for run in 0..runs {
        if ctx.rep.violation_count > 40 {
            ctx.note("stopped early after more than 40 violations in this shard");
            break;
        }
        let kind = *r.pick(&[PoolKind::Tcp, PoolKind::Http, PoolKind::Tls]);
        let nframes = if ctx.miri() { 12 } else { 40 + r.usize(260) };
        let frames = history_frames(&mut r, kind, nframes);
        let cfg = PoolCfg {
            workers: match r.below(if ctx.miri() { 1 } else { 8 }) {
                6 => 9 + r.usize(24),
                7 => 33 + r.usize(32),
                _ => 1 + r.usize(8),
            },
            queue: *r.pick(&[0usize, 1, 1, 2, 8, 64, 1024]),
            batch: *r.pick(&[1usize, 2, 32]),
            timeout_ms: 1,
            max_conn: 256,
            with_db: false,
        };
        let dispatchers = *r.pick(&[1usize, 2, 4, 8]);
        pool::reset_log(r.next_u64(), *r.pick(&[0u64, 2, 5, 17]));
        let h = match Handle::new(kind, &cfg, Filters::none()) {
            Ok(h) => h,
            Err(e) => {
                ctx.judge(false, &[], "worker pool could not be created", || json!({"error": e}));
                continue;
            }
        };
        // give workers a moment to block in recv (matters for queue size 0)
        std::thread::sleep(Duration::from_millis(2));
        let outcomes: Arc<Mutex<Vec<(u64, bool)>>> = Arc::new(Mutex::new(Vec::new()));
        let mut threads = Vec::new();
        let chunk = (frames.len() + dispatchers - 1) / dispatchers;
        for part in frames.chunks(chunk) {
            let part: Vec<HFrame> = part.to_vec();
            let d = h.dispatcher();
            let out = outcomes.clone();
            let pace = r.below(3);
            threads.push(std::thread::spawn(move || {
                for f in part {
                    let q = d(f.bytes.clone());
                    if let Ok(mut o) = out.lock() {
                        o.push((f.id, q));
                    }
                    if pace == 1 {
                        std::thread::yield_now();
                    } else if pace == 2 {
                        std::thread::sleep(Duration::from_micros(30));
                    }
                }
            }));
        }
        let mut dispatcher_panicked = false;
        for t in threads {
            if t.join().is_err() {
                dispatcher_panicked = true;
            }
        }
        let outcomes: Vec<(u64, bool)> = outcomes.lock().map(|o| o.clone()).unwrap_or_default();
        let queued: HashSet<u64> = outcomes.iter().filter(|o| o.1).map(|o| o.0).collect();
        let dropped: HashSet<u64> = outcomes.iter().filter(|o| !o.1).map(|o| o.0).collect();
        let drained = h.wait_drain(queued.len() as u64, Duration::from_secs(30)) != pool::Drain::Stalled;
        // linger briefly: a frame processed twice or a dropped frame being processed would show up
        std::thread::sleep(Duration::from_millis(3));
        let stats = h.stats();
        let _ = h.drain_results();
        h.shutdown();
        let events = pool::take_events();
        if !drained {
            ctx.inconclusive("pool did not reach quiescence within the 30 s watchdog");
            continue;
        }
        let panics = crate::rt::take_panics();
        let mut processed: HashMap<u64, u32> = HashMap::new();
        let mut dequeued_by: HashMap<u64, usize> = HashMap::new();
        let mut bad_worker = None;
        for e in &events {
            if e.site == Site::WorkerProcessed {
                *processed.entry(e.frame).or_insert(0) += 1;
            }
            if e.site == Site::WorkerDequeue {
                dequeued_by.insert(e.frame, e.worker);
            }
            if matches!(e.site, Site::DispatchChosen | Site::WorkerDequeue | Site::WorkerProcessed) && e.worker >= cfg.workers {
                bad_worker = Some(e.worker);
            }
        }
        let chosen = pool::chosen_workers(&events);
        let mut problems: Vec<String> = Vec::new();
        if dispatcher_panicked || !panics.is_empty() {
            problems.push(format!("panic in a dispatcher or worker thread: {panics:?}"));
        }
        if let Some(w) = bad_worker {
            problems.push(format!("worker index {w} >= worker count {}", cfg.workers));
        }
        for id in &queued {
            let c = processed.get(id).copied().unwrap_or(0);
            if c != 1 {
                problems.push(format!("frame {id:016x} reported Queued was processed {c} times"));
            }
            if let (Some(ch), Some(dq)) = (chosen.get(id), dequeued_by.get(id)) {
                if ch.last() != Some(dq) {
                    problems.push(format!("frame {id:016x} chosen for worker {ch:?} but dequeued by worker {dq}"));
                }
            }
        }
        for id in &dropped {
            if processed.contains_key(id) || dequeued_by.contains_key(id) {
                problems.push(format!("frame {id:016x} reported Dropped was analysed"));
            }
        }
        // affinity in situ: frames of one identity group share the worker chosen at dispatch
        let mut group_worker: HashMap<u64, usize> = HashMap::new();
        for f in &frames {
            if let (Some(g), Some(ch)) = (f.ident, chosen.get(&f.id)) {
                if let Some(w) = ch.last() {
                    let prev = *group_worker.entry(g).or_insert(*w);
                    if prev != *w {
                        problems.push(format!("frames of identity group {g} were sent to workers {prev} and {w}"));
                    }
                }
            }
        }
        // a frame is dropped only when its worker's queue is full: with room for every frame of
        // the run in each queue, only frames the TLS hash refuses may be dropped
        if cfg.queue >= frames.len() {
            let refused: HashSet<u64> = if kind == PoolKind::Tls {
                frames.iter().filter(|f| hash_of(kind, &f.bytes, cfg.workers).is_none()).map(|f| f.id).collect()
            } else {
                HashSet::new()
            };
            if let Some(id) = dropped.iter().find(|id| !refused.contains(id)) {
                problems.push(format!("frame {id:016x} reported Dropped although no queue can have been full (queue size {} >= {} frames)", cfg.queue, frames.len()));
            }
        }
        if stats.worker_dropped.len() != cfg.workers || stats.queue_sizes.len() != cfg.workers {
            problems.push(format!("statistics list {} workers, {} configured", stats.worker_dropped.len().min(stats.queue_sizes.len()), cfg.workers));
        }
        // statistics vs outcomes
        let n_q = queued.len() as u64;
        let n_d = dropped.len() as u64;
        if stats.dropped != n_d {
            problems.push(format!("total_dropped={} but {} dispatch calls returned Dropped", stats.dropped, n_d));
        }
        let hashed_none = if kind == PoolKind::Tls {
            frames.iter().filter(|f| hash_of(kind, &f.bytes, cfg.workers).is_none()).count() as u64
        } else {
            0
        };
        let want_dispatched = match kind {
            PoolKind::Tcp => n_q,
            PoolKind::Http => n_q + n_d,
            PoolKind::Tls => n_q + n_d - hashed_none,
        };
        if stats.dispatched != want_dispatched {
            problems.push(format!("total_dispatched={} but outcomes imply {}", stats.dispatched, want_dispatched));
        }
        if stats.queue_sizes.iter().any(|q| *q != 0) {
            problems.push(format!("queues not empty at quiescence: {:?}", stats.queue_sizes));
        }
        let sum_wd: u64 = stats.worker_dropped.iter().sum();
        let want_wd = n_d - hashed_none;
        let mut explained: Vec<&'static str> = Vec::new();
        if sum_wd != want_wd {
            // known finding: the HTTP pool also counts frames whose analysis returned an error
            let http_errors = if kind == PoolKind::Http {
                let mut a = huginn_net_http::HuginnNetHttp::new(None, 16).expect("analyzer");
                frames.iter().filter(|f| queued.contains(&f.id)).filter(|f| a.verif_process_packet(&f.bytes).is_err()).count() as u64
            } else {
                0
            };
            if kind == PoolKind::Http && http_errors > 0 && sum_wd == want_wd + http_errors {
                explained.push(F_HTTP_WORKER_DROPPED);
            } else {
                problems.push(format!("sum of per-worker dropped={sum_wd} but {want_wd} frames were dropped at a worker queue"));
            }
        }
        let detail = || {
            json!({
                "pool": format!("{kind:?}"), "config": format!("{cfg:?}"), "dispatchers": dispatchers, "frames": frames.len(),
                "queued": n_q, "dropped": n_d, "stats": format!("{stats:?}"), "problems": problems.iter().take(8).collect::<Vec<_>>(),
                "events": events.len(), "run": run,
            })
        };
        let ex = if problems.is_empty() { Some(explained) } else { None };
        ctx.judge_explained(ex, "dispatch accounting or affinity violated", detail);
        ctx.bucket(&format!("history/{kind:?}/d{dispatchers}/q{}/w{}/b{}/{}", cfg.queue, cfg.workers, cfg.batch, if n_d > 0 { "with-drops" } else { "no-drops" }));
        // distinct interleavings: order in which workers processed frames
        let mut hsh: u64 = 7;
        for e in events.iter().filter(|e| e.site == Site::WorkerProcessed) {
            hsh = hsh.rotate_left(7) ^ e.frame ^ e.worker as u64;
        }
        ctx.bucket(&format!("processing-order/{hsh:016x}"));
        ctx.class_n("frames-dispatched", frames.len() as u64);
        ctx.class_n("frames-dropped", n_d);
        if ctx.want_sample() {
            ctx.sample(json!({"pool": format!("{kind:?}"), "config": format!("{cfg:?}"), "dispatchers": dispatchers, "queued": n_q, "dropped": n_d, "events": events.len()}));
        }
    }
}

/// One capture thread feeding two pools of different size with the same frames: each pool's
/// assignment is its own function of (identity, its worker count), always a valid index, and with
/// room in every queue nothing well-formed is dropped.
fn two_pools(ctx: &mut Ctx) {
    if ctx.miri() {
        return;
    }
    pool::install_hooks();
    let runs = ctx.scale(60, 1_500, 2) / ctx.nshards as u64 + 1;
    let mut r = ctx.rng(1819);
    for run in 0..runs {
        if ctx.rep.violation_count > 40 {
            break;
        }
        let kind = *r.pick(&[PoolKind::Tcp, PoolKind::Http, PoolKind::Tls]);
        let nf = 30 + r.usize(60);
        let frames = history_frames(&mut r, kind, nf);
        let (wa, wb) = *r.pick(&[(64usize, 2usize), (33, 3), (16, 5), (8, 64), (2, 64), (5, 4), (40, 17), (7, 7)]);
        let mk = |w: usize| PoolCfg { workers: w, queue: 1024, batch: 4, timeout_ms: 1, max_conn: 256, with_db: false };
        pool::reset_log(r.next_u64(), 0);
        let (ha, hb) = match (Handle::new(kind, &mk(wa), Filters::none()), Handle::new(kind, &mk(wb), Filters::none())) {
            (Ok(a), Ok(b)) => (a, b),
            _ => {
                ctx.judge(false, &[], "worker pool could not be created", || json!({"workers": [wa, wb]}));
                continue;
            }
        };
        let (da, db) = (ha.dispatcher(), hb.dispatcher());
        let mut outcomes: Vec<(u64, bool, bool)> = Vec::new();
        let res = crate::rt::guard(|| {
            let mut o = Vec::new();
            for f in &frames {
                o.push((f.id, da(f.bytes.clone()), db(f.bytes.clone())));
            }
            o
        });
        let mut problems: Vec<String> = Vec::new();
        match res {
            Ok(o) => outcomes = o,
            Err(p) => problems.push(format!("panic while dispatching: {p}")),
        }
        let total: u64 = outcomes.iter().map(|o| o.1 as u64 + o.2 as u64).sum();
        let drain = pool::wait_drain(total, Duration::from_secs(30), &|| ha.queued_now() + hb.queued_now());
        let (sa, sb) = (ha.stats(), hb.stats());
        ha.shutdown();
        hb.shutdown();
        let events = pool::take_events();
        if drain == pool::Drain::Stalled {
            ctx.inconclusive("two pools did not reach quiescence within the 30 s watchdog");
            continue;
        }
        if drain == pool::Drain::IdleShort {
            problems.push(format!("{} frames reported Queued, but the pools went idle with fewer processed", total));
        }
        let chosen = pool::chosen_workers(&events);
        let mut group_worker: HashMap<(u64, usize), usize> = HashMap::new();
        for (f, o) in frames.iter().zip(outcomes.iter()) {
            if f.ident.is_some() && !(o.1 && o.2) {
                problems.push(format!("well-formed frame {:016x} reported Dropped (pool of {wa}: queued={}, pool of {wb}: queued={}) although every queue has room", f.id, o.1, o.2));
            }
            if let Some(ch) = chosen.get(&f.id) {
                // chosen-events of one frame are in dispatch order: first pool, then second
                let sizes = if ch.len() == 2 { vec![wa, wb] } else { vec![] };
                for (k, (w, n)) in ch.iter().zip(sizes.iter()).enumerate() {
                    if w >= n {
                        problems.push(format!("frame {:016x}: worker index {w} chosen in a pool of {n} workers", f.id));
                    }
                    if let Some(g) = f.ident {
                        let prev = *group_worker.entry((g, k)).or_insert(*w);
                        if prev != *w {
                            problems.push(format!("frames of identity group {g} were sent to workers {prev} and {w} of one pool"));
                        }
                    }
                }
            }
        }
        if sa.worker_dropped.len() != wa || sb.worker_dropped.len() != wb {
            problems.push(format!("statistics list {} and {} workers, {wa} and {wb} configured", sa.worker_dropped.len(), sb.worker_dropped.len()));
        }
        ctx.judge(problems.is_empty(), &[], "one thread feeding two pools: assignment invalid, history-dependent, or frames dropped with room in the queues", || {
            json!({"pool": format!("{kind:?}"), "workers": [wa, wb], "frames": frames.len(), "problems": problems.iter().take(8).collect::<Vec<_>>(), "run": run,
                   "stats": [format!("{sa:?}"), format!("{sb:?}")]})
        });
        ctx.bucket(&format!("two-pools/{kind:?}/w{wa}+w{wb}"));
    }
}

pub fn run(ctx: &mut Ctx) {
    metamorphic(ctx);
    history(ctx);
    two_pools(ctx);
}

/// thorough tier only: sanitizer / interpreter stages, run once in the parent
fn sanitizers(ctx: &mut Ctx) {
    if !ctx.thorough() {
        return;
    }
    crate::rt::tsan_stage(ctx, 900);
    crate::rt::miri_stage(ctx, "-Zmiri-many-seeds=0..3", 3000);
}

pub fn spec() -> PropSpec {
    PropSpec {
        id: "C18",
        run,
        shards: super::shards_8_16,
        rule: "(a) for seeded connection identities, frames that keep the identity the pool shards on (TCP: source address; TLS: directed 4-tuple; HTTP: undirected 4-tuple) but vary payload, flags, seq/ack, window, TTL, ID, TOS, IP options (IHL 0..15), TCP options, total length and framing are hashed for worker counts 1..64 and must give one valid index; garbage and truncated frames must give a valid index or a refusal; (b) pools are driven by 1..8 dispatcher threads with queue sizes 0..1024 and unique frames (well-formed, non-TCP, truncated, garbage); after logical quiescence the event log must show each Queued frame processed exactly once on the worker chosen for it, no Dropped frame processed, one worker per identity group, and statistics equal to the outcomes returned; a bucket is a distinct (pool, dispatchers, queue, workers, batch, drops) configuration, identity class, or distinct processing order observed",
        assumptions: &[
            "histories use 1..8 workers (three quarters) or 9..64 workers; with a queue at least as long as the run no frame may be Dropped except frames the TLS hash refuses; a two-pools stage feeds two pools of different size from one thread",
            "connection identity is the analyzer's own view of a frame; raw-IP frames whose source address begins 08 00 / 86 dd are read as Ethernet by the analyzers' parser too and are excluded",
            "total_dispatched is crate-specific: the TCP pool counts queued frames, the HTTP and TLS pools count attempts that reached a worker queue",
            "loopback (NULL) framing is outside the property's quantifier (Ethernet or raw)",
            "dispatch calls racing with shutdown are outside the property ('before shutdown')",
        ],
        parent_stage: Some(sanitizers),
    }
}
