//! C04 — JA4 fingerprints equal the FoxIO specification for every ClientHello.
//!
//! Oracle: `tlsgen::ref_ja4`, the published JA4 text applied to the generator's *model* (never to
//! bytes and never through the library), with an independent SHA-256.  Every hello is driven
//! through four entry points (parse function, incremental reader in one chunk, the packet-level TLS
//! analyzer, the unified analyzer) which must agree with the reference and with each other.
//! Metamorphic sub-checks need no reference: sorted JA4/JA4_r are invariant under every
//! permutation of ciphers and of extensions and under GREASE insertion anywhere; the original-order
//! variants follow the permuted bytes exactly.
//!
//! Judged domain (see `spec().assumptions`): the version characters are judged when
//! supported_versions is absent, or holds at least one non-GREASE value and every reading of
//! "highest" agrees (its numeric maximum is one of 0x0300..=0x0304, or none of its values is: code
//! 00, TLS 1.3 draft codes included); the ALPN characters are judged when there is no ALPN extension,
//! or the first protocol has >= 2 bytes and starts and ends with an ASCII alphanumeric.  Everything
//! else of such hellos is still judged (the unjudged characters are masked).

use crate::pkt::{Endpoints, Link, Script};
use crate::rt::{self, Ctx, PropSpec, Rng};
use crate::tlsgen::{self, Expected, Ext, Hello, Obs, GREASE};
use serde_json::json;
use std::collections::BTreeSet;

const F_NEAR_GREASE: &str = "C04-NEAR-GREASE-EXT";
const F_ALPN_UTF8: &str = "C04-ALPN-NON-UTF8";

// --------------------------------------------------------------------------- library drivers

struct Env {
    tls: huginn_net_tls::HuginnNetTls,
    uni: huginn_net::HuginnNet<'static>,
    uses: u32,
    port: u16,
    host: u8,
}

fn new_uni() -> huginn_net::HuginnNet<'static> {
    huginn_net::HuginnNet::new(
        None,
        100,
        Some(huginn_net::AnalysisConfig { http_enabled: false, tcp_enabled: false, tls_enabled: true, matcher_enabled: false }),
    )
    .expect("unified analyzer without database and matcher")
}

impl Env {
    fn new() -> Env {
        Env { tls: huginn_net_tls::HuginnNetTls::new(1000), uni: new_uni(), uses: 0, port: 20000, host: 1 }
    }
    /// keep every analyzer instance short-lived (TTL caches inside)
    fn tick(&mut self) {
        self.uses += 1;
        if self.uses % 256 == 0 {
            self.tls = huginn_net_tls::HuginnNetTls::new(1000);
            self.uni = new_uni();
        }
        self.port = if self.port >= 60000 {
            self.host = self.host.wrapping_add(1).max(1);
            20000
        } else {
            self.port + 1
        };
    }
}

#[derive(Clone, Copy, PartialEq)]
enum Paths {
    /// parse function only
    Parse,
    /// all four entry points
    All,
}

enum Got {
    Sig(Obs),
    NoResult(String),
    Panic(String),
}

fn via_parse(bytes: &[u8]) -> Got {
    match rt::guard(|| huginn_net_tls::parse_tls_client_hello(bytes)) {
        Err(p) => Got::Panic(p),
        Ok(Ok(Some(sig))) => match rt::guard(|| Obs::from_sig(&sig)) {
            Ok(o) => Got::Sig(o),
            Err(p) => Got::Panic(p),
        },
        Ok(Ok(None)) => Got::NoResult("Ok(None)".into()),
        Ok(Err(e)) => Got::NoResult(format!("Err({e})")),
    }
}

fn via_reader(bytes: &[u8]) -> Got {
    let r = rt::guard(|| {
        let mut reader = huginn_net_tls::TlsClientHelloReader::new();
        reader.add_bytes(bytes)
    });
    match r {
        Err(p) => Got::Panic(p),
        Ok(Ok(Some(sig))) => match rt::guard(|| Obs::from_sig(&sig)) {
            Ok(o) => Got::Sig(o),
            Err(p) => Got::Panic(p),
        },
        Ok(Ok(None)) => Got::NoResult("Ok(None)".into()),
        Ok(Err(e)) => Got::NoResult(format!("Err({e})")),
    }
}

fn endpoints_ok(o: &huginn_net_tls::TlsClientOutput, ep: &Endpoints) -> bool {
    o.source.ip == ep.client && o.source.port == ep.cport && o.destination.ip == ep.server && o.destination.port == ep.sport
}

fn frame_for(env: &mut Env, bytes: &[u8], v6: bool) -> (Vec<u8>, Endpoints) {
    env.tick();
    let ep = if v6 {
        Endpoints {
            client: format!("2001:db8::{:x}", env.host as u16 + 1).parse().unwrap(),
            server: "2001:db8:1::443".parse().unwrap(),
            cport: env.port,
            sport: 443,
        }
    } else {
        Endpoints::v4([10, 4, 0, env.host], env.port, [10, 9, 8, 7], 443)
    };
    let mut s = Script::new(ep.clone(), Link::Ethernet, 0x1000_0000 ^ env.port as u32, 0x2000_0000);
    s.c_data(bytes);
    (s.frames.pop().unwrap_or_default(), ep)
}

fn via_tls_analyzer(env: &mut Env, frame: &[u8], ep: &Endpoints) -> Got {
    let tls = &mut env.tls;
    match rt::guard(|| tls.verif_process_packet(frame)) {
        Err(p) => Got::Panic(p),
        Ok(Ok(Some(out))) => {
            if !endpoints_ok(&out, ep) {
                return Got::NoResult(format!(
                    "result attributed to {}:{}>{}:{} instead of {}",
                    out.source.ip,
                    out.source.port,
                    out.destination.ip,
                    out.destination.port,
                    ep.key()
                ));
            }
            Got::Sig(Obs::from_client(&out.sig))
        }
        Ok(Ok(None)) => Got::NoResult("Ok(None)".into()),
        Ok(Err(e)) => Got::NoResult(format!("Err({e})")),
    }
}

fn via_unified(env: &mut Env, frame: &[u8], ep: &Endpoints) -> Got {
    let uni = &mut env.uni;
    match rt::guard(|| uni.analyze_tcp(frame)) {
        Err(p) => Got::Panic(p),
        Ok(res) => match res.tls_client {
            Some(out) => {
                if !endpoints_ok(&out, ep) {
                    return Got::NoResult("result attributed to other endpoints".into());
                }
                Got::Sig(Obs::from_client(&out.sig))
            }
            None => Got::NoResult("tls_client = None".into()),
        },
    }
}

// ------------------------------------------------------------------------------------ judging

fn hex_capped(b: &[u8]) -> String {
    if b.len() <= 6000 {
        rt::hex(b)
    } else {
        format!("{}...({} bytes; rebuild from model)", rt::hex(&b[..6000]), b.len())
    }
}

fn count_class(n: usize) -> String {
    match n {
        0..=3 | 98..=101 => n.to_string(),
        4..=16 => "4-16".into(),
        17..=97 => "17-97".into(),
        _ => ">101".into(),
    }
}

fn bucket_of(tag: &str, h: &Hello, e: &Expected) -> String {
    let alpn = match (&e.alpn, e.judge_alpn) {
        (None, _) => "none".to_string(),
        (Some(_), true) => e.alpn_chars.clone(),
        (Some(p), false) => format!("unjudged-len{}", p.len().min(3)),
    };
    let sv = h.exts().iter().find_map(|x| if let Ext::SupportedVersions(v) = x { Some(v.len().min(4)) } else { None });
    format!(
        "{tag}|v={}{}|sv={:?}|{}|c={}|e={}|alpn={}|sig={}|gc={}|ge={}|blk={}",
        e.version_code,
        if e.judge_version { "" } else { "?" },
        sv,
        if e.sni_present { 'd' } else { 'i' },
        count_class(e.ciphers_ng.len()),
        count_class(e.exts_ng.len()),
        alpn,
        e.sigalgs_ng.len().min(3),
        e.ciphers_wire.len() != e.ciphers_ng.len(),
        e.exts_wire.len() != e.exts_ng.len(),
        h.extensions.is_some()
    )
}

/// Drive one hello, judge it against the reference and (Paths::All) require the four entry points
/// to agree.  Returns the parse-path observation.
fn check(ctx: &mut Ctx, env: &mut Env, h: &Hello, tag: &str, paths: Paths) -> Option<Obs> {
    let bytes = h.record();
    let exp = tlsgen::ref_ja4(h);
    ctx.bucket(&bucket_of(tag, h, &exp));
    let detail = |extra: serde_json::Value| {
        json!({
            "stage": tag,
            "record_hex": hex_capped(&bytes),
            "model": h.describe(),
            "expected": {"ja4": exp.sorted.full, "ja4_r": exp.sorted.raw, "ja4_o": exp.original.full, "ja4_ro": exp.original.raw,
                          "version_judged": exp.judge_version, "alpn_judged": exp.judge_alpn},
            "observation": extra,
        })
    };
    let base = match via_parse(&bytes) {
        Got::Panic(p) => {
            ctx.judge(false, &[], "panic in parse_tls_client_hello / generate_ja4", || detail(json!({"panic": p})));
            return None;
        }
        Got::NoResult(why) => {
            ctx.judge(false, &[], "no result for a well-formed ClientHello (parse_tls_client_hello)", || {
                detail(json!({"returned": why}))
            });
            return None;
        }
        Got::Sig(o) => o,
    };
    let d = tlsgen::diff(&exp, &base);
    // deviation models of the known findings: the library's answer must be *exactly* the one the
    // model predicts, otherwise it is a new violation
    let (mut near, mut alpn8) = (false, false);
    if !d.is_empty() {
        let (pn, pa) = (h.has_near_grease_ext(), h.has_non_utf8_alpn());
        let fits = |n: bool, a: bool| {
            let dev = tlsgen::ref_ja4_opts(h, tlsgen::Dev { near_grease_ext: n, non_utf8_alpn_dropped: a });
            tlsgen::diff(&dev, &base).is_empty()
        };
        if pn && fits(true, false) {
            near = true;
        } else if pa && fits(false, true) {
            alpn8 = true;
        } else if pn && pa && ctx.finding_open(F_NEAR_GREASE) && ctx.finding_open(F_ALPN_UTF8) && fits(true, true) {
            near = true;
        }
    }
    ctx.judge(d.is_empty(), &[(F_NEAR_GREASE, near), (F_ALPN_UTF8, alpn8)], "reported JA4 / fields differ from the FoxIO reference", || {
        detail(json!({"differences": d, "actual": base.render()}))
    });
    if ctx.want_sample() && !ctx.rep.samples.iter().any(|s| s["stage"] == tag) {
        ctx.sample(json!({"stage": tag, "model": h.describe(), "ja4": base.s[3], "ja4_r": base.s[4], "ja4_o": base.o[3], "ja4_ro": base.o[4]}));
    }
    if paths == Paths::All {
        let mut others: Vec<(&str, Got)> = vec![("TlsClientHelloReader::add_bytes (one chunk)", via_reader(&bytes))];
        if bytes.len() <= 65000 {
            let v6 = env.uses % 5 == 4;
            let (frame, ep) = frame_for(env, &bytes, v6);
            others.push(("HuginnNetTls::verif_process_packet (one segment)", via_tls_analyzer(env, &frame, &ep)));
            others.push(("HuginnNet::analyze_tcp (one segment)", via_unified(env, &frame, &ep)));
        }
        for (name, got) in others {
            match got {
                Got::Panic(p) => {
                    ctx.judge(false, &[], "panic in an entry point", || detail(json!({"entry_point": name, "panic": p})));
                }
                Got::NoResult(why) => {
                    ctx.judge(false, &[], "entry point gives no result where parse_tls_client_hello gives one", || {
                        detail(json!({"entry_point": name, "returned": why, "parse_result": base.render()}))
                    });
                }
                Got::Sig(o) => {
                    ctx.judge(o == base, &[], "entry points disagree on the same ClientHello", || {
                        detail(json!({"entry_point": name, "its_result": o.render(), "parse_result": base.render()}))
                    });
                }
            }
        }
    }
    Some(base)
}

/// Inputs outside the judged domain: every entry point must return (no panic); nothing else.
fn crash_only(ctx: &mut Ctx, env: &mut Env, bytes: &[u8], tag: &str) {
    let mut outcomes = Vec::new();
    outcomes.push(via_parse(bytes));
    outcomes.push(via_reader(bytes));
    if bytes.len() <= 65000 {
        let (frame, ep) = frame_for(env, bytes, false);
        outcomes.push(via_tls_analyzer(env, &frame, &ep));
        outcomes.push(via_unified(env, &frame, &ep));
    }
    for g in outcomes {
        let p = if let Got::Panic(p) = &g { Some(p.clone()) } else { None };
        ctx.judge(p.is_none(), &[], "panic on a ClientHello outside the judged domain", || {
            json!({"stage": tag, "record_hex": hex_capped(bytes), "panic": p})
        });
        ctx.class(&format!(
            "{tag}:{}",
            match g {
                Got::Sig(_) => "result",
                Got::NoResult(_) => "no-result",
                Got::Panic(_) => "panic",
            }
        ));
    }
}

// --------------------------------------------------------------------------------- generators

fn semantic_variant(r: &mut Rng, sni: bool, alpn: bool) -> Vec<Ext> {
    let mut v = Vec::new();
    if sni {
        v.push(Ext::Sni(vec![(0, tlsgen::host_name(r))]));
    }
    if alpn {
        v.push(Ext::Alpn(vec![b"h2".to_vec(), b"http/1.1".to_vec()]));
    }
    v
}

/// all ordered lists of length 0..=3 over `vals`
fn lists_up_to_3(vals: &[u16]) -> Vec<Vec<u16>> {
    let mut out = vec![vec![]];
    for a in vals {
        out.push(vec![*a]);
        for b in vals {
            out.push(vec![*a, *b]);
            for c in vals {
                out.push(vec![*a, *b, *c]);
            }
        }
    }
    out
}

fn all_perms(n: usize) -> Vec<Vec<usize>> {
    fn rec(k: usize, a: &mut Vec<usize>, out: &mut Vec<Vec<usize>>) {
        if k <= 1 {
            out.push(a.clone());
            return;
        }
        for i in 0..k {
            rec(k - 1, a, out);
            if k % 2 == 0 {
                a.swap(i, k - 1);
            } else {
                a.swap(0, k - 1);
            }
        }
    }
    let mut a: Vec<usize> = (0..n).collect();
    let mut out = Vec::new();
    rec(n, &mut a, &mut out);
    out
}

fn permuted<T: Clone>(xs: &[T], p: &[usize]) -> Vec<T> {
    p.iter().map(|&i| xs[i].clone()).collect()
}

/// A small hello with exactly `nc` ciphers and `ne` extensions (semantic ones first, drawn at random).
fn sized_hello(r: &mut Rng, nc: usize, ne: usize, absent_block_if_empty: bool) -> Hello {
    let mut h = Hello::minimal();
    for b in h.random.iter_mut() {
        *b = r.u8();
    }
    h.legacy_version = 0x0303;
    h.ciphers = tlsgen::fresh_ciphers(r, nc);
    let mut sem: Vec<Ext> = vec![
        Ext::Sni(vec![(0, tlsgen::host_name(r))]),
        Ext::Alpn(vec![r.pick(&[&b"h2"[..], &b"http/1.1"[..], &b"h3"[..], &b"xy9"[..]]).to_vec()]),
        Ext::SupportedVersions(r.pick(&[vec![0x0304u16, 0x0303], vec![0x0303], vec![0x0304], vec![0x0302, 0x0301]]).clone()),
        Ext::SigAlgs({
            let n = 1 + r.usize(4);
            tlsgen::random_sigalgs(r, n)
        }),
        Ext::Groups(vec![0x001d, 0x0017]),
        Ext::EcPointFormats(vec![0]),
    ];
    r.shuffle(&mut sem);
    let keep = r.usize(sem.len() + 1).min(ne);
    sem.truncate(keep);
    h.extensions = Some(sem);
    tlsgen::fill_exts(r, &mut h, ne, false);
    r.shuffle(h.exts_mut());
    if ne == 0 && absent_block_if_empty {
        h.extensions = None;
    }
    h
}

// ---------------------------------------------------------------------------------- the stages

fn stage_version_grid(ctx: &mut Ctx, env: &mut Env, idx: &mut u64) {
    let legacy = [0x0300u16, 0x0301, 0x0302, 0x0303, 0x0304, 0x0305, 0x7f1c, 0x7f17, 0x7f12, 0xfefd, 0x0000, 0xffff];
    let vals = [0x0304u16, 0x0303, 0x0302, 0x0301, 0x0300, 0x0a0a, 0x7f17];
    let mut sv: Vec<Option<Vec<u16>>> = vec![None];
    sv.extend(lists_up_to_3(&vals).into_iter().map(Some));
    let mut r = ctx.rng(401);
    for lv in legacy {
        for list in &sv {
            *idx += 1;
            if !ctx.mine(*idx) {
                continue;
            }
            for (sni, alpn) in [(false, false), (true, false), (false, true), (true, true)] {
                let mut h = Hello::minimal();
                h.legacy_version = lv;
                h.record_version = if lv >= 0x0300 && lv <= 0x0304 && sni { lv } else { 0x0301 };
                h.ciphers = vec![0x1301, 0xc02f, 0x009c];
                let mut exts = semantic_variant(&mut r, sni, alpn);
                if let Some(l) = list {
                    // rotate the GREASE value so that all sixteen occur
                    let g = GREASE[(*idx % 16) as usize];
                    let l: Vec<u16> = l.iter().map(|v| if *v == 0x0a0a { g } else { *v }).collect();
                    let pos = r.usize(exts.len() + 1);
                    exts.insert(pos, Ext::SupportedVersions(l));
                }
                h.extensions = Some(exts);
                check(ctx, env, &h, "version-grid", Paths::All);
            }
        }
    }
    ctx.exhaustive(
        "legacy version in {0300..0305,7f1c,7f17,7f12,fefd,0000,ffff} x supported_versions absent or any ordered list of length 0..3 over {0304,0303,0302,0301,0300,GREASE,7f17} x SNI on/off x ALPN on/off",
    );
}

fn stage_size_grid(ctx: &mut Ctx, env: &mut Env, idx: &mut u64) {
    let sizes = [0usize, 1, 2, 3, 17, 98, 99, 100, 101, 150, 255, 256, 257, 300];
    let reps = ctx.scale(1, 6, 1);
    for rep in 0..reps {
        for &nc in &sizes {
            for &ne in &sizes {
                for gc in [0usize, 2] {
                    for ge in [0usize, 2] {
                        *idx += 1;
                        if !ctx.mine(*idx) {
                            continue;
                        }
                        let mut r = ctx.rng_global(402, *idx);
                        let mut h = sized_hello(&mut r, nc, ne, rep % 2 == 1 || gc == 2);
                        tlsgen::sprinkle_grease(&mut r, &mut h.ciphers, gc);
                        for _ in 0..ge {
                            let p = r.usize(h.exts().len() + 1);
                            let g = tlsgen::grease_ext(&mut r);
                            h.exts_mut().insert(p, g);
                        }
                        check(ctx, env, &h, "size-grid", Paths::All);
                    }
                }
            }
        }
    }
    ctx.exhaustive("cipher count x extension count in {0,1,2,3,17,98,99,100,101,150,255,256,257,300}^2 x GREASE in ciphers {0,2} x GREASE extensions {0,2}");
}

fn stage_random(ctx: &mut Ctx, env: &mut Env) {
    let n = ctx.scale(300_000, 40_000_000, 200) / ctx.nshards as u64 + 1;
    let mut r = ctx.rng(403);
    for i in 0..n {
        let h = tlsgen::random_hello(&mut r, true);
        if !h.encodable() || h.record().len() > 5 + 16384 {
            continue;
        }
        check(ctx, env, &h, "random", Paths::All);
        if i % 4096 == 0 {
            rt::progress(ctx, &format!("random {i}/{n}"));
        }
    }
}

/// metamorphic: permutations
fn stage_permutations(ctx: &mut Ctx, env: &mut Env, idx: &mut u64) {
    let max_small = if ctx.quick() { 5 } else { 6 };
    let bases = ctx.scale(216, 2_000, 4);
    for b in 0..bases {
        *idx += 1;
        if !ctx.mine(*idx) {
            continue;
        }
        let mut r = ctx.rng_global(404, *idx);
        let nc = (b as usize) % (max_small + 1);
        let ne = (b as usize / (max_small + 1)) % (max_small + 1);
        let mut h = sized_hello(&mut r, nc, ne, false);
        if r.chance(1, 2) {
            tlsgen::sprinkle_grease(&mut r, &mut h.ciphers, 1);
        }
        let Some(base) = check(ctx, env, &h, "perm-base", Paths::All) else { continue };
        // all permutations of the cipher list
        let cl = h.ciphers.len();
        if cl <= 6 {
            for (k, p) in all_perms(cl).iter().enumerate() {
                let mut hp = h.clone();
                hp.ciphers = permuted(&h.ciphers, p);
                perm_case(ctx, env, &hp, &base, "ciphers", k % 16 == 7);
            }
        }
        let el = h.exts().len();
        if el <= 6 {
            for (k, p) in all_perms(el).iter().enumerate() {
                let mut hp = h.clone();
                hp.extensions = Some(permuted(h.exts(), p));
                perm_case(ctx, env, &hp, &base, "extensions", k % 16 == 7);
            }
        }
        ctx.bucket(&format!("perm-all|nc={cl}|ne={el}"));
    }
    ctx.exhaustive(&format!("all n! orders of the cipher list and of the extension list for n <= {max_small} (per base hello)"));

    // larger lists: random permutations
    let big = [(17usize, 17usize), (99, 3), (3, 99), (100, 100), (150, 101), (98, 150), (30, 40)];
    let nperm = ctx.scale(40, 200, 2);
    let reps = ctx.scale(1, 12, 1);
    for rep in 0..reps {
        for &(nc, ne) in &big {
            *idx += 1;
            if !ctx.mine(*idx) {
                continue;
            }
            let mut r = ctx.rng_global(405, *idx);
            let mut h = sized_hello(&mut r, nc, ne, false);
            if rep % 2 == 1 {
                tlsgen::sprinkle_grease(&mut r, &mut h.ciphers, 3);
                let g = tlsgen::grease_ext(&mut r);
                h.exts_mut().insert(0, g);
            }
            let Some(base) = check(ctx, env, &h, "perm-base-large", Paths::All) else { continue };
            for k in 0..nperm {
                let mut hp = h.clone();
                r.shuffle(&mut hp.ciphers);
                perm_case(ctx, env, &hp, &base, "ciphers", k == 0);
                let mut hp = h.clone();
                r.shuffle(hp.exts_mut());
                perm_case(ctx, env, &hp, &base, "extensions", k == 0);
                let mut hp = h.clone();
                r.shuffle(&mut hp.ciphers);
                r.shuffle(hp.exts_mut());
                perm_case(ctx, env, &hp, &base, "both", false);
            }
            ctx.bucket(&format!("perm-random|nc={nc}|ne={ne}|grease={}", rep % 2));
        }
    }
}

fn perm_case(ctx: &mut Ctx, env: &mut Env, hp: &Hello, base: &Obs, what: &str, all_paths: bool) {
    let bytes = hp.record();
    let got = if all_paths { check(ctx, env, hp, "perm", Paths::All) } else { check(ctx, env, hp, "perm", Paths::Parse) };
    let Some(o) = got else { return };
    // (1) sorted fingerprints unchanged (no reference involved)
    ctx.judge(o.s == base.s, &[], "sorted JA4 / JA4_r changed under a permutation", || {
        json!({"permuted": what, "record_hex": hex_capped(&bytes), "model": hp.describe(),
               "base": {"a": base.s[0], "ja4": base.s[3], "ja4_r": base.s[4]},
               "permuted_result": {"a": o.s[0], "ja4": o.s[3], "ja4_r": o.s[4]}})
    });
    // (2) the original-order raw string lists the values in the permuted wire order
    let want_b = hp.ciphers.iter().filter(|c| !tlsgen::is_grease(**c)).map(|c| format!("{c:04x}")).collect::<Vec<_>>().join(",");
    let want_e = hp
        .exts()
        .iter()
        .map(|e| e.typ())
        .filter(|t| !tlsgen::is_grease(*t))
        .map(|t| format!("{t:04x}"))
        .collect::<Vec<_>>()
        .join(",");
    let c_ok = o.o[2] == want_e || o.o[2].starts_with(&format!("{want_e}_"));
    ctx.judge(o.o[1] == want_b && c_ok, &[], "JA4_ro does not follow the permuted wire order", || {
        json!({"permuted": what, "record_hex": hex_capped(&bytes), "model": hp.describe(),
               "expected_cipher_part": want_b, "expected_extension_part": want_e, "ja4_ro": o.o[4]})
    });
}

/// metamorphic: GREASE insertion
fn stage_grease(ctx: &mut Ctx, env: &mut Env, idx: &mut u64) {
    let bases = ctx.scale(96, 1_500, 2);
    for b in 0..bases {
        *idx += 1;
        if !ctx.mine(*idx) {
            continue;
        }
        let mut r = ctx.rng_global(406, *idx);
        let mut h = Hello::minimal();
        h.legacy_version = *r.pick(&[0x0303u16, 0x0301, 0x0303]);
        h.session_id = r.bytes(32);
        let ncip = r.usize(5);
        h.ciphers = tlsgen::fresh_ciphers(&mut r, ncip);
        let nsig = 1 + r.usize(3);
        let mut exts = vec![
            Ext::SigAlgs(tlsgen::random_sigalgs(&mut r, nsig)),
            Ext::SupportedVersions(r.pick(&[vec![0x0304u16, 0x0303], vec![0x0303, 0x0302], vec![0x0304]]).clone()),
            Ext::Groups(vec![0x001d, 0x0017, 0x0018]),
        ];
        if r.chance(1, 2) {
            exts.push(Ext::Sni(vec![(0, tlsgen::host_name(&mut r))]));
        }
        if r.chance(1, 2) {
            exts.push(Ext::Alpn(vec![b"h2".to_vec()]));
        }
        r.shuffle(&mut exts);
        h.extensions = Some(exts);
        let Some(base) = check(ctx, env, &h, "grease-base", Paths::All) else { continue };
        // a 4-element GREASE sample, rotated so that all sixteen values are used across bases
        let g4: Vec<u16> = (0..4).map(|k| GREASE[((b as usize) * 4 + k * 5) % 16]).collect();
        let g4: Vec<u16> = g4.into_iter().collect::<BTreeSet<_>>().into_iter().collect();
        for target in 0..5usize {
            let len = match target {
                0 => h.ciphers.len(),
                1 => h.exts().len(),
                _ => {
                    let want = [0x000du16, 0x002b, 0x000a][target - 2];
                    h.exts()
                        .iter()
                        .find_map(|e| match e {
                            Ext::SigAlgs(v) | Ext::SupportedVersions(v) | Ext::Groups(v) if e.typ() == want => Some(v.len()),
                            _ => None,
                        })
                        .unwrap_or(0)
                }
            };
            for mask in 1u32..(1 << g4.len()) {
                let subset: Vec<u16> = (0..g4.len()).filter(|k| mask & (1 << k) != 0).map(|k| g4[k]).collect();
                for pos in 0..=len {
                    // contiguous at `pos`
                    let positions: Vec<usize> = vec![pos; subset.len()];
                    grease_case(ctx, env, &h, &base, target, &subset, &positions, (mask as usize + pos) % 24 == 5);
                }
                if subset.len() >= 2 {
                    // spread: each value at its own random position
                    let positions: Vec<usize> = subset.iter().map(|_| r.usize(len + 1)).collect();
                    grease_case(ctx, env, &h, &base, target, &subset, &positions, false);
                }
            }
            ctx.bucket(&format!("grease-insert|target={target}|len={len}"));
        }
    }
    ctx.exhaustive(
        "every non-empty subset of a 4-value GREASE sample inserted at every position of the cipher list, extension list, signature_algorithms, supported_versions and supported_groups of each base hello",
    );
}

fn insert_at(v: &mut Vec<u16>, vals: &[u16], positions: &[usize]) {
    // insert from the back so that earlier positions stay valid for contiguous inserts
    let mut pairs: Vec<(usize, u16)> = positions.iter().copied().zip(vals.iter().copied()).collect();
    pairs.sort_by(|a, b| b.0.cmp(&a.0));
    for (p, val) in pairs {
        let p = p.min(v.len());
        v.insert(p, val);
    }
}

fn grease_case(
    ctx: &mut Ctx,
    env: &mut Env,
    h: &Hello,
    base: &Obs,
    target: usize,
    subset: &[u16],
    positions: &[usize],
    all_paths: bool,
) {
    let mut hg = h.clone();
    match target {
        0 => insert_at(&mut hg.ciphers, subset, positions),
        1 => {
            let mut pairs: Vec<(usize, u16)> = positions.iter().copied().zip(subset.iter().copied()).collect();
            pairs.sort_by(|a, b| b.0.cmp(&a.0));
            for (k, (p, val)) in pairs.into_iter().enumerate() {
                let p = p.min(hg.exts().len());
                let body = if k % 2 == 0 { vec![] } else { vec![0] };
                hg.exts_mut().insert(p, Ext::Grease(val, body));
            }
        }
        _ => {
            let want = [0x000du16, 0x002b, 0x000a][target - 2];
            for e in hg.exts_mut().iter_mut() {
                if e.typ() == want {
                    if let Ext::SigAlgs(v) | Ext::SupportedVersions(v) | Ext::Groups(v) = e {
                        insert_at(v, subset, positions);
                    }
                }
            }
        }
    }
    let bytes = hg.record();
    let Some(o) = check(ctx, env, &hg, "grease", if all_paths { Paths::All } else { Paths::Parse }) else { return };
    let names = ["ciphers", "extensions", "signature_algorithms", "supported_versions", "supported_groups"];
    ctx.judge(
        o.s == base.s && o.o == base.o && o.version == base.version && o.sni == base.sni && o.alpn == base.alpn,
        &[],
        "fingerprint changed under GREASE insertion",
        || {
            json!({"inserted_into": names[target], "values": format!("{subset:04x?}"), "positions": positions,
                   "record_hex": hex_capped(&bytes), "model": hg.describe(),
                   "base": {"ja4": base.s[3], "ja4_r": base.s[4], "ja4_o": base.o[3], "ja4_ro": base.o[4], "version": base.version},
                   "with_grease": {"ja4": o.s[3], "ja4_r": o.s[4], "ja4_o": o.o[3], "ja4_ro": o.o[4], "version": o.version}})
        },
    );
}

fn stage_alpn(ctx: &mut Ctx, env: &mut Env, idx: &mut u64) {
    let alnum: Vec<u8> = (b'0'..=b'9').chain(b'a'..=b'z').chain(b'A'..=b'Z').collect();
    let mut r = ctx.rng(407);
    let mk = |first: Vec<u8>, more: &[&[u8]], sni: bool| {
        let mut h = Hello::minimal();
        h.ciphers = vec![0x1301, 0x1302];
        let mut protos = vec![first];
        protos.extend(more.iter().map(|p| p.to_vec()));
        let mut exts = vec![Ext::Alpn(protos), Ext::SupportedVersions(vec![0x0304])];
        if sni {
            exts.push(Ext::Sni(vec![(0, b"a.example".to_vec())]));
        }
        h.extensions = Some(exts);
        h
    };
    // every (first, last) pair of ASCII alphanumerics, two-byte protocol names
    for &f in &alnum {
        *idx += 1;
        if !ctx.mine(*idx) {
            continue;
        }
        for &l in &alnum {
            let h = mk(vec![f, l], &[], false);
            check(ctx, env, &h, "alpn-pairs", Paths::Parse);
        }
        // longer names, arbitrary middle bytes (protocol names are opaque byte strings, RFC 7301)
        for len in [3usize, 8, 100, 255] {
            let l = *r.pick(&alnum);
            let mut p = vec![f];
            for _ in 0..len - 2 {
                p.push(match r.below(3) {
                    0 => *r.pick(&alnum),
                    1 => *r.pick(b"-/._ +"),
                    _ => *r.pick(&alnum),
                });
            }
            p.push(l);
            let h = mk(p, &[b"http/1.1"], true);
            check(ctx, env, &h, "alpn-long", Paths::All);
        }
    }
    ctx.exhaustive("all 62x62 (first,last) ASCII-alphanumeric pairs as two-byte first ALPN protocol");
    // edge bytes that are not alphanumeric: punctuation, space, control, DEL, non-ASCII
    *idx += 1;
    if ctx.mine(*idx) {
        let edges: Vec<u8> = vec![b'-', b'.', b'/', b'_', b'+', b' ', b'=', b'~', b'!', 0x00, 0x09, 0x1f, 0x7f, 0x80, 0xc3, 0xff, b'a', b'9', b'Z'];
        for &f in &edges {
            for &l in &edges {
                for len in [2usize, 3, 6] {
                    let mut p = vec![f];
                    for _ in 0..len - 2 {
                        p.push(*r.pick(&alnum));
                    }
                    p.push(l);
                    let h = mk(p, &[b"h2"], len == 3);
                    check(ctx, env, &h, "alpn-edge-bytes", Paths::Parse);
                }
            }
        }
        ctx.exhaustive("all (first,last) pairs over 19 edge bytes (punctuation, space, control, DEL, non-ASCII, alphanumeric) x name lengths 2, 3, 6");
    }
    // real-world protocol ids, in first position with others behind
    *idx += 1;
    if ctx.mine(*idx) {
        let names: [&[u8]; 14] = [
            b"h2", b"http/1.1", b"http/1.0", b"h3", b"spdy/3.1", b"spdy/3", b"h2c", b"imap", b"pop3", b"ftp", b"dot", b"acme-tls/1",
            b"mqtt", b"stun.turn",
        ];
        for a in names {
            for b in names {
                let h = mk(a.to_vec(), &[b], true);
                check(ctx, env, &h, "alpn-iana", Paths::All);
            }
            let h = mk(a.to_vec(), &[], false);
            check(ctx, env, &h, "alpn-iana", Paths::All);
        }
        // outside the strict domain for the two ALPN characters (everything else still judged)
        let odd: [&[u8]; 12] = [
            b"h", b"2", b"-x", b"x-", b"/", b" h2", b"h2 ", b"\x00\x00", b"h\xc3\xb1", b"\xc3\xb1h", b"\xe2\x82\xac", b"_",
        ];
        for p in odd {
            let h = mk(p.to_vec(), &[b"h2"], true);
            check(ctx, env, &h, "alpn-unjudged-chars", Paths::All);
        }
        // opaque protocol names that are not UTF-8 (first/last alphanumeric => judged)
        let opaque: [&[u8]; 4] = [b"h\xff2", b"a\x80\x80z", b"q\xc3(9", b"0\xfe\xff1"];
        for p in opaque {
            let h = mk(p.to_vec(), &[], false);
            check(ctx, env, &h, "alpn-opaque-bytes", Paths::All);
        }
        for _ in 0..40 {
            let n = 1 + r.usize(6);
            let mut p = vec![*r.pick(&alnum)];
            p.extend(r.bytes(n));
            p.push(*r.pick(&alnum));
            let h = mk(p, &[b"h2"], r.chance(1, 2));
            check(ctx, env, &h, "alpn-opaque-bytes", Paths::All);
        }
    }
}

fn stage_fields(ctx: &mut Ctx, env: &mut Env, idx: &mut u64) {
    // session id length 0..=32 x compression lists x record versions
    let comps: [&[u8]; 4] = [&[0], &[1, 0], &[0, 1, 64], &[0; 255]];
    for sid in 0..=32usize {
        *idx += 1;
        if !ctx.mine(*idx) {
            continue;
        }
        let mut r = ctx.rng_global(408, *idx);
        for comp in comps {
            for rv in [0x0300u16, 0x0301, 0x0302, 0x0303, 0x0304] {
                let mut h = sized_hello(&mut r, 3, 4, false);
                h.session_id = r.bytes(sid);
                h.compression = comp.to_vec();
                h.record_version = rv;
                check(ctx, env, &h, "sid-comp-recver", Paths::All);
            }
        }
    }
    ctx.exhaustive("session-id length 0..=32 x compression lists {1,2,3,255 methods} x record version 0300..0304");
    // host-name lengths, one or two names (second of another type)
    for len in [1usize, 2, 3, 15, 63, 64, 253, 255, 256, 1000, 4000] {
        *idx += 1;
        if !ctx.mine(*idx) {
            continue;
        }
        let mut r = ctx.rng_global(409, *idx);
        let mut name = Vec::new();
        while name.len() < len {
            name.push(*r.pick(b"abcdefghijklmnopqrstuvwxyz0123456789-."));
        }
        for second in [false, true] {
            let mut h = sized_hello(&mut r, 2, 0, false);
            let mut names = vec![(0u8, name.clone())];
            if second {
                names.push((7u8, b"other".to_vec()));
            }
            h.extensions = Some(vec![Ext::Sni(names), Ext::SupportedVersions(vec![0x0304, 0x0303])]);
            check(ctx, env, &h, "sni-length", Paths::All);
        }
    }
    // signature-algorithm lists: order is kept, GREASE dropped, 0..=40 entries
    for n in [0usize, 1, 2, 3, 8, 20, 40] {
        *idx += 1;
        if !ctx.mine(*idx) {
            continue;
        }
        let mut r = ctx.rng_global(410, *idx);
        for rep in 0..6 {
            let mut s = tlsgen::random_sigalgs(&mut r, n);
            // descending, ascending and random orders
            match rep % 3 {
                0 => s.sort_unstable(),
                1 => {
                    s.sort_unstable();
                    s.reverse()
                }
                _ => {}
            }
            if rep >= 3 {
                tlsgen::sprinkle_grease(&mut r, &mut s, 1 + rep % 2);
            }
            if s.is_empty() {
                // an empty list is not RFC-conformant (signature_algorithms<2..2^16-2>)
                continue;
            }
            let mut h = sized_hello(&mut r, 2, 0, false);
            h.extensions = Some(vec![Ext::Raw(0x0017, vec![]), Ext::SigAlgs(s), Ext::Raw(0xff01, vec![0])]);
            check(ctx, env, &h, "sigalg-order", Paths::All);
        }
        // all-GREASE list: ignoring GREASE leaves no algorithm => no underscore part
        if n > 0 && n <= 3 {
            let s: Vec<u16> = (0..n).map(|_| *r.pick(&GREASE)).collect();
            let mut h = sized_hello(&mut r, 2, 0, false);
            h.extensions = Some(vec![Ext::SigAlgs(s), Ext::Raw(0x0017, vec![])]);
            check(ctx, env, &h, "sigalg-all-grease", Paths::All);
        }
    }
    // record versions the packet analyzers do not look at: parse function and reader only
    *idx += 1;
    if ctx.mine(*idx) {
        let mut r = ctx.rng_global(411, *idx);
        for rv in [0x0305u16, 0x0200, 0x0000, 0xffff, 0x7f1c] {
            let mut h = sized_hello(&mut r, 4, 5, false);
            h.record_version = rv;
            let bytes = h.record();
            let exp = tlsgen::ref_ja4(&h);
            for (name, got) in [("parse_tls_client_hello", via_parse(&bytes)), ("reader", via_reader(&bytes))] {
                match got {
                    Got::Sig(o) => {
                        let d = tlsgen::diff(&exp, &o);
                        ctx.judge(d.is_empty(), &[], "reported JA4 / fields differ from the FoxIO reference", || {
                            json!({"stage": "odd-record-version", "entry_point": name, "record_hex": rt::hex(&bytes), "differences": d})
                        });
                    }
                    Got::Panic(p) => {
                        ctx.judge(false, &[], "panic in an entry point", || json!({"entry_point": name, "panic": p, "record_hex": rt::hex(&bytes)}));
                    }
                    Got::NoResult(_) => ctx.class("odd-record-version:no-result"),
                }
            }
            ctx.bucket(&format!("odd-record-version|{rv:04x}"));
        }
    }
}

/// Hellos that are syntactically parseable but outside the quantifier (not RFC-conformant) or where
/// the published text is silent: run, never judged beyond "returns".
fn stage_unjudged(ctx: &mut Ctx, env: &mut Env, idx: &mut u64) {
    *idx += 1;
    if !ctx.mine(*idx) {
        return;
    }
    let mut r = ctx.rng(412);
    let mut cases: Vec<Hello> = Vec::new();
    let base = |r: &mut Rng| sized_hello(r, 3, 2, false);
    let mut h = base(&mut r);
    h.exts_mut().push(Ext::Alpn(vec![]));
    cases.push(h);
    let mut h = base(&mut r);
    h.exts_mut().push(Ext::Alpn(vec![vec![]]));
    cases.push(h);
    let mut h = base(&mut r);
    h.exts_mut().retain(|e| e.typ() != 0);
    h.exts_mut().push(Ext::Sni(vec![]));
    cases.push(h);
    let mut h = base(&mut r);
    h.exts_mut().retain(|e| e.typ() != 0);
    h.exts_mut().push(Ext::Raw(0x0000, vec![]));
    cases.push(h);
    let mut h = base(&mut r);
    h.exts_mut().retain(|e| e.typ() != 0);
    h.exts_mut().push(Ext::Sni(vec![(0, vec![0xff, 0xfe, b'a'])]));
    cases.push(h);
    let mut h = base(&mut r);
    h.exts_mut().retain(|e| e.typ() != 0x002b);
    h.exts_mut().push(Ext::SupportedVersions(vec![]));
    cases.push(h);
    let mut h = base(&mut r);
    h.exts_mut().retain(|e| e.typ() != 0x000d);
    h.exts_mut().push(Ext::SigAlgs(vec![]));
    cases.push(h);
    let mut h = base(&mut r);
    h.exts_mut().push(Ext::Raw(0x9999, vec![1]));
    h.exts_mut().push(Ext::Raw(0x9999, vec![2]));
    cases.push(h);
    let mut h = base(&mut r);
    h.compression = vec![];
    cases.push(h);
    let mut h = base(&mut r);
    h.legacy_version = 0x0002;
    cases.push(h);
    // structured types with bodies that do not follow their RFC
    for t in [1u16, 5, 15, 22, 23, 28, 42, 45, 49, 0xff01, 0xffce, 13172] {
        let mut h = base(&mut r);
        h.exts_mut().insert(0, Ext::Raw(t, vec![9, 9, 9]));
        cases.push(h);
    }
    let labels = [
        "unjudged/alpn-empty-list", "unjudged/alpn-empty-protocol", "unjudged/sni-empty-list", "unjudged/sni-empty-body",
        "unjudged/sni-non-utf8", "unjudged/supported-versions-empty", "unjudged/sigalgs-empty", "unjudged/duplicate-extension",
        "unjudged/no-compression-method", "unjudged/legacy-ssl2-code",
    ];
    for (i, h) in cases.iter().enumerate() {
        crash_only(ctx, env, &h.record(), labels.get(i).copied().unwrap_or("unjudged/structured-type-with-malformed-body"));
    }
    // oversized record (beyond the 2^14 fragment limit of RFC 8446 §5.1)
    for total in [5 + 16385usize, 5 + 16640, 5 + 16641, 5 + 40000] {
        let mut h = base(&mut r);
        if tlsgen::pad_record_to(&mut h, total) {
            crash_only(ctx, env, &h.record(), &format!("unjudged/record-length-{}", total - 5));
        }
    }
    ctx.class_n("unjudged-cases", cases.len() as u64);
}

/// Runs of hellos that differ from their predecessor in one list only (signature algorithms,
/// supported groups, cipher order, one cipher), judged one after the other on the same thread and
/// the same analyzers: every fingerprint must be that of its own hello, whatever was fingerprinted
/// just before.
fn stage_neighbours(ctx: &mut Ctx, env: &mut Env) {
    let n = ctx.scale(4_000, 200_000, 3) / ctx.nshards as u64 + 1;
    let mut r = ctx.rng(404);
    for _ in 0..n {
        let (nc, ne) = (2 + r.usize(12), 6 + r.usize(8));
        let mut h = sized_hello(&mut r, nc, ne, false);
        if !h.exts().iter().any(|e| matches!(e, Ext::SigAlgs(_))) {
            let k = 2 + r.usize(4);
            let s = tlsgen::random_sigalgs(&mut r, k);
            h.exts_mut().push(Ext::SigAlgs(s));
        }
        if !h.encodable() {
            continue;
        }
        check(ctx, env, &h, "neighbours/base", Paths::All);
        for step in 0..6 {
            let what = match step % 6 {
                0 | 1 | 2 => {
                    // same version, SNI, ALPN, ciphers and extension types: other signature algorithms
                    for e in h.exts_mut().iter_mut() {
                        if let Ext::SigAlgs(v) = e {
                            if step == 0 && v.len() > 1 {
                                r.shuffle(v);
                            } else if step == 1 {
                                let k = v.len().max(1);
                                *v = tlsgen::random_sigalgs(&mut r, k);
                            } else {
                                let k = 1 + r.usize(6);
                                *v = tlsgen::random_sigalgs(&mut r, k);
                            }
                        }
                    }
                    "sigalgs"
                }
                3 => {
                    for e in h.exts_mut().iter_mut() {
                        if let Ext::Groups(v) = e {
                            v.reverse();
                            v.push(0x0019);
                        }
                    }
                    "groups"
                }
                4 => {
                    if h.ciphers.len() > 1 {
                        r.shuffle(&mut h.ciphers);
                    }
                    "cipher-order"
                }
                _ => {
                    let last = h.ciphers.len() - 1;
                    h.ciphers[last] = h.ciphers[last].wrapping_add(2);
                    if tlsgen::is_grease(h.ciphers[last]) {
                        h.ciphers[last] = 0x1301;
                    }
                    "one-cipher"
                }
            };
            if !h.encodable() {
                break;
            }
            check(ctx, env, &h, &format!("neighbours/{what}"), Paths::All);
        }
    }
}

pub fn run(ctx: &mut Ctx) {
    tlsgen::self_check();
    let mut env = Env::new();
    let mut idx: u64 = 0;
    if ctx.miri() {
        // interpreter tier: a small sample of every kind
        stage_unjudged(ctx, &mut env, &mut idx);
        stage_random(ctx, &mut env);
        return;
    }
    stage_version_grid(ctx, &mut env, &mut idx);
    ctx.stage("cpu_ms_after_version_grid", json!((ctx.elapsed() * 1000.0) as u64));
    stage_size_grid(ctx, &mut env, &mut idx);
    stage_alpn(ctx, &mut env, &mut idx);
    stage_fields(ctx, &mut env, &mut idx);
    stage_unjudged(ctx, &mut env, &mut idx);
    ctx.stage("cpu_ms_after_grids", json!((ctx.elapsed() * 1000.0) as u64));
    stage_permutations(ctx, &mut env, &mut idx);
    ctx.stage("cpu_ms_after_permutations", json!((ctx.elapsed() * 1000.0) as u64));
    stage_grease(ctx, &mut env, &mut idx);
    ctx.stage("cpu_ms_after_grease", json!((ctx.elapsed() * 1000.0) as u64));
    stage_neighbours(ctx, &mut env);
    stage_random(ctx, &mut env);
    ctx.stage("cpu_ms_total", json!((ctx.elapsed() * 1000.0) as u64));
}

pub fn spec() -> PropSpec {
    PropSpec {
        id: "C04",
        run,
        shards: super::shards_16,
        rule: "each ClientHello is generated from a model, encoded to bytes, driven through parse_tls_client_hello (+ generate_ja4/_original), TlsClientHelloReader (one chunk), HuginnNetTls (one TCP segment) and HuginnNet::analyze_tcp, and compared with ref_ja4 computed from the model (independent SHA-256): JA4, JA4_r, JA4_o, JA4_ro, their a/b/c parts, version, SNI, ALPN, cipher/extension/signature-algorithm/group lists; metamorphic: sorted fingerprints invariant under all n! orders (n<=5 quick, n<=6 thorough) and random orders of larger lists and under insertion of every subset of a GREASE sample at every position of five lists, original-order variants follow the permuted order; a bucket is a distinct (stage, version code, supported_versions length, SNI flag, cipher-count class, extension-count class, ALPN characters, sig-alg presence, GREASE presence, extension-block presence) combination",
        assumptions: &[
            "judged hellos are RFC-conformant: one ClientHello handshake message in one TLSPlaintext record of at most 2^14 bytes, record version 0x0300..=0x0304 for the packet-level entry points, no duplicate extension types, extension types with an RFC-defined structure carry well-formed bodies, host names are ASCII, non-empty ALPN / signature_algorithms lists",
            "version characters and the version field are judged when supported_versions is absent (legacy version other than SSL2 0x0002) or contains at least one non-GREASE value and either its numeric maximum is one of 0x0300..=0x0304 or none of its values is (draft and unknown codes alone: code 00); other lists (empty, all-GREASE, an unknown code above a known one, DTLS/SSL2 codes) are run with the two version characters masked",
            "the two ALPN characters are judged when there is no ALPN extension or the first protocol has at least 2 bytes and its first and last bytes are ASCII alphanumerics; a first protocol of at least 2 bytes with a non-alphanumeric first or last byte must give one of the two values the published editions define (the bytes themselves with 9 for a non-ASCII byte, or the first and last hex digit of the name); one-byte and empty first protocols are run with those two characters masked; the alpn field is judged only for UTF-8 protocol names",
            "the reported cipher_suites / extensions / signature_algorithms / elliptic_curves lists may be the wire list or the wire list without GREASE (the property text is ambiguous); order and all other values are judged",
            "a signature_algorithms list holding only GREASE values counts as 'no signature algorithms' (GREASE is ignored everywhere)",
            "TLS over TCP only ('t'); QUIC and DTLS hellos are not generated",
        ],
        parent_stage: None,
    }
}
