use crate::rt::{PropSpec, Tier};

pub mod c01;
pub mod c02;
pub mod c03;
pub mod c04;
pub mod c05;
pub mod c06;
pub mod c07;
pub mod c08;
pub mod c09;
pub mod c10;
pub mod c11;
pub mod c12;
pub mod c13;
pub mod c14;
pub mod c15;
pub mod c16;
pub mod c17;
pub mod c18;
pub mod c19;
pub mod c20;

pub fn shards_16(_t: Tier) -> usize {
    16
}
pub fn shards_8_16(t: Tier) -> usize {
    if t == Tier::Quick { 8 } else { 16 }
}
pub fn shards_1(_t: Tier) -> usize {
    1
}

pub fn registry() -> Vec<PropSpec> {
    vec![c01::spec(), c02::spec(), c03::spec(), c04::spec(), c05::spec(), c06::spec(), c07::spec(), c08::spec(), c09::spec(), c10::spec(), c11::spec(), c12::spec(), c13::spec(), c14::spec(), c15::spec(), c16::spec(), c17::spec(), c18::spec(), c19::spec(), c20::spec()]
}
