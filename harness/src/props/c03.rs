//! C03 — TCP handshake packets are rendered into the p0f signature their headers define.
//!
//! Every generated segment goes through the full packet path (`HuginnNetTcp::verif_process_packet`,
//! Ethernet / raw-IP / loopback framing, IPv4 and IPv6) and the reported observable, MTU, link label
//! and client/server role are compared with `tcpref::ref_sig`, which is computed from the model the
//! packet was generated from.  Known defects are tolerated only through exact deviation models.

use crate::pkt::{self, flags, Ip, Link, Tcp, V4, V6};
use crate::rt::{guard, hex, Ctx, PropSpec};
use crate::tcpref::{self, RefSig, Role};
use huginn_net_db::Database;
use huginn_net_tcp::{HuginnNetTcp, TcpAnalysisResult};
use serde_json::json;
use std::sync::Arc;
use ttl_cache::TtlCache;

pub const F_EOL: &str = "C03-eol-continues";
pub const F_MTU: &str = "C03-mtu-formula";
pub const F_NONSYN: &str = "C03-nonsyn-as-synack";
pub const F_BAD: &str = "C03-bad-quirk-missing";

pub struct Env {
    pub db: Arc<Database>,
    pub tcp: HuginnNetTcp,
    pub tracker: TtlCache<huginn_net_tcp::ConnectionKey, huginn_net_tcp::TcpTimestamp>,
    pub n: u64,
}

impl Env {
    pub fn new() -> Env {
        let db = Arc::new(Database::load_default().expect("bundled database loads"));
        let tcp = HuginnNetTcp::new(Some(db.clone()), 1000).expect("analyzer");
        Env { db, tcp, tracker: TtlCache::new(1000), n: 0 }
    }
    pub fn analyze(&mut self, frame: &[u8]) -> Result<Option<TcpAnalysisResult>, String> {
        self.n += 1;
        if self.n % 4096 == 0 {
            self.tracker = TtlCache::new(1000);
        }
        let tcp = &self.tcp;
        let tracker = &mut self.tracker;
        guard(|| tcp.verif_process_packet(frame, tracker)).map(|r| r.ok())
    }
    pub fn link_label(&self, mtu: u16) -> Option<String> {
        for (label, values) in &self.db.mtu {
            if values.contains(&mtu) {
                return Some(label.clone());
            }
        }
        None
    }
}

struct Actual {
    version: String,
    ittl: String,
    olen: String,
    mss: String,
    wsize: String,
    wscale: String,
    olayout: Vec<String>,
    quirks_sorted: Vec<String>,
    dup_quirks: Vec<String>,
    pclass: String,
    text: String,
}

fn actual_of(sig: &huginn_net_tcp::ObservableTcp) -> Actual {
    let m = &sig.matching;
    let mut q: Vec<String> = m.quirks.iter().map(|x| x.to_string()).collect();
    q.sort();
    let mut dups = Vec::new();
    for w in q.windows(2) {
        if w[0] == w[1] && !dups.contains(&w[0]) {
            dups.push(w[0].clone());
        }
    }
    q.dedup();
    Actual {
        version: m.version.to_string(),
        ittl: m.ittl.to_string(),
        olen: m.olen.to_string(),
        mss: m.mss.map(|x| x.to_string()).unwrap_or_else(|| "*".into()),
        wsize: m.wsize.to_string(),
        wscale: m.wscale.map(|x| x.to_string()).unwrap_or_else(|| "*".into()),
        olayout: m.olayout.iter().map(|x| x.to_string()).collect(),
        quirks_sorted: q,
        dup_quirks: dups,
        pclass: m.pclass.to_string(),
        text: sig.to_string(),
    }
}

/// Which findings are needed to explain `a` given the specification `r` and the EOL-deviant `d`?
/// `eol_pre`: an EOL with trailing bytes exists; `eol_clean`: those bytes are only 0x00/0x01.
fn explain_sig(a: &Actual, r: &RefSig, d: &RefSig, eol_pre: bool, eol_clean: bool) -> Option<Vec<&'static str>> {
    if a.version != r.version || a.ittl != r.ittl || a.olen != r.olen || a.pclass != r.pclass {
        return None;
    }
    if r.malformed || (eol_pre && !eol_clean) {
        // only the well-formed prefix (up to and including a first EOL) and, for malformed
        // lists, the `bad` quirk are specified
        if a.olayout.len() < r.olayout.len() || a.olayout[..r.olayout.len()] != r.olayout[..] {
            return None;
        }
        // a malformed list ends with the kind of the option that could not be completed
        if let (true, Some(k)) = (r.malformed, &r.aborted_kind) {
            if a.olayout.get(r.olayout.len()) != Some(k) {
                return None;
            }
        }
        if !r.malformed || a.quirks_sorted.iter().any(|q| q == "bad") {
            return Some(vec![]);
        }
        return Some(vec![F_BAD]);
    }
    // quirks derived from option *values* are unspecified when an option kind is repeated
    // (`ts1-` stays specified when there is exactly one timestamp option carrying its TSval octets)
    let strip = |q: &[String], x: &RefSig| -> Vec<String> {
        q.iter().filter(|s| !(x.ambiguous_values && (["ts2+", "exws"].contains(&s.as_str()) || (s.as_str() == "ts1-" && !x.ts1_decided)))).cloned().collect()
    };
    let full = |x: &RefSig| -> bool {
        a.olayout == x.olayout
            && strip(&a.quirks_sorted, x) == strip(&x.quirks, x)
            && (x.ambiguous_values || (a.mss == x.mss && a.wscale == x.wscale && a.wsize == x.wsize))
    };
    // a repeated option kind may repeat its value-derived quirk; nothing else may be duplicated
    let dups_ok = |x: &RefSig, allow_opt_plus: bool| -> bool {
        a.dup_quirks.iter().all(|q| {
            (x.ambiguous_values && ["ts1-", "ts2+", "exws"].contains(&q.as_str())) || (allow_opt_plus && q == "opt+") || (q == "exws" && x.olayout.iter().filter(|o| o.as_str() == "ws").count() > 1)
        })
    };
    if full(r) && dups_ok(r, false) {
        return Some(vec![]);
    }
    if eol_pre && full(d) && dups_ok(d, true) {
        return Some(vec![F_EOL]);
    }
    None
}

pub struct Case<'a> {
    pub link: Link,
    pub ip: &'a Ip,
    pub tcp: &'a Tcp,
    pub tag: &'a str,
}

pub fn check_case(ctx: &mut Ctx, env: &mut Env, c: &Case) {
    let area = c.tcp.opt_area();
    let mut frame = pkt::build(c.link, c.ip, c.tcp);
    // link-layer trailer: a fifth of the Ethernet frames carry octets after the IP datagram
    // (minimum-frame padding, a captured FCS); the datagram ends where its length field says
    let trailer = {
        let h = crate::pool::fnv(&frame);
        if matches!(c.link, Link::Ethernet | Link::EthernetMac(..)) && h % 5 == 0 {
            let n = 1 + (h >> 8) as usize % 9;
            let fill = if (h >> 16) % 2 == 0 { 0u8 } else { (h >> 24) as u8 };
            frame.extend(std::iter::repeat(fill).take(n));
            n
        } else {
            0
        }
    };
    let v4 = c.ip.is_v4();
    let r = tcpref::ref_sig(c.ip, c.tcp, &area, true);
    let d = tcpref::ref_sig(c.ip, c.tcp, &area, false);
    let pre = tcpref::parse_opts(&area, true);
    let eol_pre = pre.eol_seen && !pre.bytes_after_eol.is_empty();
    let eol_clean = pre.bytes_after_eol.iter().all(|b| *b <= 1);
    let role = tcpref::role(c.tcp.flags);
    let res = env.analyze(&frame);
    let detail = |extra: serde_json::Value| {
        json!({
            "case": c.tag, "frame_hex": hex(&frame), "link": format!("{:?}", c.link), "link_trailer_octets": trailer,
            "role": format!("{role:?}"), "expected_sig": r.text(), "extra": extra,
        })
    };
    let res = match res {
        Err(p) => {
            ctx.judge(false, &[], "panic while analysing a TCP segment", || detail(json!({"panic": p})));
            return;
        }
        Ok(r) => r,
    };
    let (syn, syn_ack, mtu) = match &res {
        Some(t) => (t.syn.as_ref(), t.syn_ack.as_ref(), t.mtu.as_ref()),
        None => (None, None, None),
    };
    let mut needed: Vec<&'static str> = Vec::new();
    let mut bad: Option<String> = None;
    let mut fail = |why: String| {
        if bad.is_none() {
            bad = Some(why);
        }
    };
    let sig_check = |needed: &mut Vec<&'static str>, sig: &huginn_net_tcp::ObservableTcp| -> Result<(), String> {
        let a = actual_of(sig);
        match explain_sig(&a, &r, &d, eol_pre, eol_clean) {
            Some(list) => {
                for f in list {
                    if !needed.contains(&f) {
                        needed.push(f);
                    }
                }
                Ok(())
            }
            None => Err(format!("signature {} differs from expected {}", a.text, r.text())),
        }
    };
    match role {
        Role::Invalid => {
            if syn.is_some() || syn_ack.is_some() || mtu.is_some() {
                fail("segment with an invalid flag combination produced a signature".into());
            }
        }
        Role::Other => {
            if syn.is_some() || mtu.is_some() {
                fail("non-handshake segment produced a client signature or MTU".into());
            } else if let Some(sa) = syn_ack {
                // finding: reported as a SYN+ACK signature (with otherwise correct fields)
                match sig_check(&mut needed, &sa.sig) {
                    Ok(()) => needed.push(F_NONSYN),
                    Err(e) => fail(format!("non-handshake segment reported as syn_ack and {e}")),
                }
            }
        }
        Role::Client => {
            if syn_ack.is_some() {
                fail("SYN produced a server signature".into());
            }
            match syn {
                None => fail("SYN produced no client signature".into()),
                Some(s) => {
                    if let Err(e) = sig_check(&mut needed, &s.sig) {
                        fail(e);
                    }
                    let (es, ed) = endpoints(c.ip, c.tcp);
                    let got = format!("{}:{}>{}:{}", s.source.ip, s.source.port, s.destination.ip, s.destination.port);
                    if got != format!("{es}>{ed}") {
                        fail(format!("endpoints {got} differ from {es}>{ed}"));
                    }
                }
            }
            // MTU: judged when the MSS value is unambiguous and the layout is well-formed
            if !r.malformed && !r.ambiguous_values && (!eol_pre || eol_clean) {
                let mss_seen = if eol_pre { d.mss_value.or(r.mss_value) } else { r.mss_value };
                match (r.mss_value, mtu) {
                    (Some(mss), Some(m)) if mss <= 65000 => {
                        let want = tcpref::ref_mtu(v4, mss);
                        let dev = tcpref::dev_mtu(c.ip, c.tcp, area.len(), mss);
                        if m.mtu == want && m.link.link == env.link_label(want) {
                            // ok
                        } else if m.mtu == dev && m.link.link == env.link_label(dev) {
                            needed.push(F_MTU);
                        } else {
                            fail(format!("MTU {} link {:?}; expected {} {:?}", m.mtu, m.link.link, want, env.link_label(want)));
                        }
                    }
                    (Some(_), Some(_)) => {}
                    (Some(_), None) => fail("SYN with MSS produced no MTU".into()),
                    (None, Some(m)) => {
                        if mss_seen.is_none() {
                            fail(format!("SYN without MSS produced MTU {}", m.mtu));
                        }
                    }
                    (None, None) => {}
                }
            }
        }
        Role::Server => {
            if syn.is_some() || mtu.is_some() {
                fail("SYN+ACK produced a client signature or MTU".into());
            }
            match syn_ack {
                None => fail("SYN+ACK produced no server signature".into()),
                Some(s) => {
                    if let Err(e) = sig_check(&mut needed, &s.sig) {
                        fail(e);
                    }
                }
            }
        }
    }
    let actual_text = format!(
        "syn={:?} syn_ack={:?} mtu={:?}",
        syn.map(|s| s.sig.to_string()),
        syn_ack.map(|s| s.sig.to_string()),
        mtu.map(|m| (m.mtu, m.link.link.clone()))
    );
    let explained = if bad.is_some() { None } else { Some(needed) };
    let why = bad.clone().unwrap_or_default();
    ctx.judge_explained(explained, "reported TCP signature / MTU / role differs from the one the header defines", || {
        detail(json!({"why": why, "actual": actual_text}))
    });
    // semantic bucket: role, version, option-kind layout, quirk set, window form
    let wform = r.wsize.split('*').next().unwrap_or("").trim_start_matches('%').chars().take(3).collect::<String>();
    let wform = if r.wsize.starts_with('%') { "mod".to_string() } else if r.wsize.contains('*') { wform } else { "raw".to_string() };
    ctx.bucket(&format!(
        "{role:?}/{}/{}/{}/{}/{}",
        r.version,
        r.olayout.iter().map(|o| o.split('+').next().unwrap_or("")).collect::<Vec<_>>().join(","),
        r.quirks.join(","),
        wform,
        r.pclass
    ));
    if ctx.want_sample() && role == Role::Client {
        ctx.sample(json!({"case": c.tag, "frame_hex": hex(&frame), "expected_sig": r.text(), "actual": actual_text}));
    }
}

fn endpoints(ip: &Ip, tcp: &Tcp) -> (String, String) {
    (format!("{}:{}", ip.src(), tcp.sport), format!("{}:{}", ip.dst(), tcp.dport))
}

fn link_for(i: u64) -> Link {
    match i % 4 {
        0 => Link::Ethernet,
        1 => Link::RawIp,
        2 => Link::Null(pkt::NULL_V6_LE),
        // Ethernet with MAC addresses that read like an IP header / a loopback family word
        _ => {
            let x = i.wrapping_mul(0x9E37_79B9_7F4A_7C15);
            pkt::lookalike_macs(i / 4, [(x >> 8) as u8, (x >> 16) as u8, (x >> 24) as u8, (x >> 32) as u8, (x >> 40) as u8, (x >> 48) as u8])
        }
    }
}

fn linux_opts(mss: u16, tsval: u32, tsecr: u32, ws: u8) -> Vec<u8> {
    let mut o = pkt::opt_mss(mss);
    o.extend(pkt::opt_sok());
    o.extend(pkt::opt_ts(tsval, tsecr));
    o.extend(pkt::opt_nop());
    o.extend(pkt::opt_ws(ws));
    o
}

fn ip_of(v4: bool) -> Ip {
    if v4 {
        Ip::V4(V4::default())
    } else {
        Ip::V6(V6::default())
    }
}

/// one encoded option of the given symbolic kind (0=eol,1=nop,2=mss,3=ws,4=sok,5=sack,6=ts,7=unknown)
fn sym_opt(k: u8, salt: u32) -> Vec<u8> {
    match k {
        0 => pkt::opt_eol(),
        1 => pkt::opt_nop(),
        2 => pkt::opt_mss([1460u16, 1400, 536, 8960][(salt % 4) as usize]),
        3 => pkt::opt_ws((salt % 16) as u8),
        4 => pkt::opt_sok(),
        5 => pkt::opt_sack(1),
        6 if salt % 7 == 6 => {
            // timestamp option of non-standard length (6..9 or 12): TSval present, TSecr cut short or followed by extra octets
            let len = [6usize, 7, 8, 9, 12][((salt / 7) % 5) as usize];
            let tsval: u32 = if salt % 2 == 0 { 0 } else { 0x2000u32.wrapping_add(salt) };
            let mut d = tsval.to_be_bytes().to_vec();
            d.extend_from_slice(&[0, 0, 0, if salt % 3 == 0 { 7 } else { 0 }, 0, 0]);
            pkt::opt_unknown(8, &d[..len - 2])
        }
        6 => pkt::opt_ts(if salt % 5 == 0 { 0 } else { 0x1000u32.wrapping_add(salt) }, if salt % 3 == 0 { 7 } else { 0 }),
        _ => pkt::opt_unknown([9u8, 19, 30, 34, 253, 254, 6, 7][(salt % 8) as usize], &[0xaa; 2][..(salt % 3) as usize]),
    }
}

pub fn run(ctx: &mut Ctx) {
    huginn_net_tcp::verif_hooks::clock::set_ms(1_700_000_000_000);
    let mut env = Env::new();
    let mut idx: u64 = 0;

    // ---- S1: all 256 flag bytes x seq/ack/urg zero-vs-nonzero x version x payload
    for fl in 0..=255u8 {
        for bits in 0..8u8 {
            for v4 in [true, false] {
                for pl in [false, true] {
                    idx += 1;
                    if !ctx.mine(idx) {
                        continue;
                    }
                    let tcp = Tcp {
                        flags: fl,
                        seq: if bits & 1 != 0 { 0 } else { 0x0102_0304 },
                        ack: if bits & 2 != 0 { 0 } else { 0x0a0b_0c0d },
                        urg: if bits & 4 != 0 { 0 } else { 9 },
                        options: linux_opts(1460, 1000, 0, 7),
                        payload: if pl { b"x".to_vec() } else { vec![] },
                        window: 29200,
                        ..Default::default()
                    };
                    check_case(ctx, &mut env, &Case { link: link_for(idx), ip: &ip_of(v4), tcp: &tcp, tag: "flags" });
                }
            }
        }
    }
    ctx.exhaustive("all 256 TCP flag bytes x zero/non-zero seq, ack, urgent pointer x IPv4/IPv6 x payload class");

    // ---- S2: all TTLs / hop limits, SYN and SYN+ACK
    for ttl in 0..=255u8 {
        for v4 in [true, false] {
            for fl in [flags::SYN, flags::SYN | flags::ACK] {
                idx += 1;
                if !ctx.mine(idx) {
                    continue;
                }
                let ip = if v4 { Ip::V4(V4 { ttl, ..Default::default() }) } else { Ip::V6(V6 { hop: ttl, ..Default::default() }) };
                let tcp = Tcp { flags: fl, ack: if fl & flags::ACK != 0 { 5 } else { 0 }, options: linux_opts(1460, 1000, 0, 7), window: 29200, ..Default::default() };
                check_case(ctx, &mut env, &Case { link: link_for(idx), ip: &ip, tcp: &tcp, tag: "ttl" });
            }
        }
    }
    ctx.exhaustive("all 256 TTL / hop-limit values");

    // ---- S3: IPv4 DF / reserved bit / ID / TOS, IPv6 flow label / traffic class, fragments
    for df in [0u8, 0b010] {
        for mbz in [0u8, 0b100] {
            for id in [0u16, 1, 0xffff] {
                for tos in 0..=255u8 {
                    idx += 1;
                    if !ctx.mine(idx) {
                        continue;
                    }
                    let ip = Ip::V4(V4 { flags: df | mbz, id, tos, ..Default::default() });
                    let tcp = Tcp { options: linux_opts(1460, 1000, 0, 7), window: 29200, flags: if tos & 1 == 0 { flags::SYN } else { flags::SYN | flags::ACK }, ack: 77, ..Default::default() };
                    check_case(ctx, &mut env, &Case { link: link_for(idx), ip: &ip, tcp: &tcp, tag: "ipv4-bits" });
                }
            }
        }
    }
    for flow in [0u32, 1, 0xfffff, 0x12345] {
        for tclass in 0..=255u8 {
            idx += 1;
            if !ctx.mine(idx) {
                continue;
            }
            let ip = Ip::V6(V6 { flow, tclass, ..Default::default() });
            let tcp = Tcp { options: linux_opts(1440, 1000, 0, 7), window: 28800, ..Default::default() };
            check_case(ctx, &mut env, &Case { link: link_for(idx), ip: &ip, tcp: &tcp, tag: "ipv6-bits" });
        }
    }
    ctx.exhaustive("all DF/reserved/ID(0,1,ffff)/TOS combinations and flow-label/traffic-class combinations");
    // IP options: IHL 5..15
    for ihl in 5..=15u8 {
        for fl in [flags::SYN, flags::SYN | flags::ACK] {
            idx += 1;
            if !ctx.mine(idx) {
                continue;
            }
            let ip = Ip::V4(V4 { options: vec![1u8; (ihl as usize - 5) * 4], ..Default::default() });
            let tcp = Tcp { flags: fl, ack: 3, options: linux_opts(1460, 5, 0, 2), ..Default::default() };
            check_case(ctx, &mut env, &Case { link: link_for(idx), ip: &ip, tcp: &tcp, tag: "ip-options" });
        }
    }

    // ---- S5: all 65536 windows x MSS values x timestamps on/off x IPv4/IPv6
    let mss_all: [Option<u16>; 24] = [
        None, Some(0), Some(99), Some(100), Some(256), Some(512), Some(536), Some(1024), Some(1360), Some(1380),
        Some(1400), Some(1412), Some(1414), Some(1440), Some(1448), Some(1452), Some(1460), Some(1464), Some(1500),
        Some(4096), Some(8960), Some(16344), Some(32768), Some(65495),
    ];
    let mss_quick: [Option<u16>; 6] = [None, Some(99), Some(536), Some(1440), Some(1460), Some(8960)];
    let mss_list: &[Option<u16>] = if ctx.miri() { &mss_quick } else { &mss_all };
    let win_step: u32 = ctx.scale(1, 1, 257) as u32;
    for (mi, mss) in mss_list.iter().enumerate() {
        for ts in [false, true] {
            for v4 in [true, false] {
                let mut opts = Vec::new();
                if let Some(m) = mss {
                    opts.extend(pkt::opt_mss(*m));
                }
                if ts {
                    opts.extend(pkt::opt_nop());
                    opts.extend(pkt::opt_nop());
                    opts.extend(pkt::opt_ts(12345, 0));
                }
                let ip = ip_of(v4);
                let mut w: u32 = 0;
                while w <= 65535 {
                    idx += 1;
                    if ctx.mine(idx) {
                        let tcp = Tcp { window: w as u16, options: opts.clone(), pad_byte: 1, ..Default::default() };
                        check_case(ctx, &mut env, &Case { link: link_for(idx + mi as u64), ip: &ip, tcp: &tcp, tag: "window" });
                    }
                    w += win_step;
                }
            }
        }
    }
    if !ctx.miri() {
        ctx.exhaustive("all 65536 window values for each listed MSS x timestamps on/off x IPv4/IPv6");
    }

    // ---- S6: all option sequences of <= 4 options over {eol,nop,mss,ws,sok,sack,ts,?n} x padding style
    let maxlen = ctx.scale(4, 4, 2) as usize;
    let mut seqs: Vec<Vec<u8>> = vec![vec![]];
    let mut frontier: Vec<Vec<u8>> = vec![vec![]];
    for _ in 0..maxlen {
        let mut next = Vec::new();
        for s in &frontier {
            for k in 0..8u8 {
                let mut t = s.clone();
                t.push(k);
                next.push(t);
            }
        }
        seqs.extend(next.iter().cloned());
        frontier = next;
    }
    for (si, s) in seqs.iter().enumerate() {
        for pad in [0u8, 1u8] {
            for fl in [flags::SYN, flags::SYN | flags::ACK] {
                idx += 1;
                if !ctx.mine(idx) {
                    continue;
                }
                let mut o = Vec::new();
                for (j, k) in s.iter().enumerate() {
                    o.extend(sym_opt(*k, (si as u32).wrapping_mul(31).wrapping_add(j as u32)));
                }
                if o.len() > 40 {
                    continue;
                }
                let v4 = si % 2 == 0;
                let tcp = Tcp { flags: fl, ack: 9, options: o, pad_byte: pad, window: 5840, ..Default::default() };
                check_case(ctx, &mut env, &Case { link: link_for(idx), ip: &ip_of(v4), tcp: &tcp, tag: "option-sequence" });
            }
        }
    }
    ctx.exhaustive("all sequences of up to 4 options over {eol,nop,mss,ws,sok,sack,ts,unknown} x NOP/zero padding x SYN/SYN+ACK");

    // ---- S7: one option with every (kind, length) encoding, alone / after MSS / before MSS
    let kind_step = ctx.scale(1, 1, 37) as usize;
    for kind in (0..=255u16).step_by(kind_step) {
        for len in 0..=255u16 {
            if ctx.quick() && len > 44 && len % 16 != 0 {
                continue;
            }
            for pos in 0..3u8 {
                idx += 1;
                if !ctx.mine(idx) {
                    continue;
                }
                let mut one = vec![kind as u8, len as u8];
                let body = (len as usize).saturating_sub(2).min(34);
                one.extend(std::iter::repeat(0x11).take(body));
                let mut o = Vec::new();
                match pos {
                    0 => o.extend(one),
                    1 => {
                        o.extend(pkt::opt_mss(1460));
                        o.extend(one);
                    }
                    _ => {
                        o.extend(one);
                        o.extend(pkt::opt_mss(1460));
                    }
                }
                o.truncate(40);
                let tcp = Tcp { options: o, pad_byte: 1, window: 8192, ..Default::default() };
                check_case(ctx, &mut env, &Case { link: link_for(idx), ip: &ip_of(kind % 2 == 0), tcp: &tcp, tag: "option-kind-length" });
            }
        }
    }

    // ---- S8: option values: every MSS (strided in quick), every window scale, TS values
    let mss_step = ctx.scale(17, 1, 4099) as usize;
    for mss in (0..=65535u32).step_by(mss_step) {
        idx += 1;
        if !ctx.mine(idx) {
            continue;
        }
        let tcp = Tcp { options: linux_opts(mss as u16, 77, 0, 7), window: (mss as u16).wrapping_mul(4), ..Default::default() };
        check_case(ctx, &mut env, &Case { link: link_for(idx), ip: &ip_of(mss % 2 == 0), tcp: &tcp, tag: "mss-values" });
    }
    for ws in 0..=255u8 {
        for (tsval, tsecr) in [(0u32, 0u32), (1, 0), (1, 1), (0, 9), (u32::MAX, u32::MAX)] {
            for fl in [flags::SYN, flags::SYN | flags::ACK] {
                idx += 1;
                if !ctx.mine(idx) {
                    continue;
                }
                let tcp = Tcp { flags: fl, ack: 1, options: linux_opts(1460, tsval, tsecr, ws), ..Default::default() };
                check_case(ctx, &mut env, &Case { link: link_for(idx), ip: &ip_of(ws % 2 == 0), tcp: &tcp, tag: "ws-ts-values" });
            }
        }
    }

    // ---- S9: seeded random full-header combinations
    let n = ctx.scale(1_600_000, 40_000_000, 200) / ctx.nshards as u64 + 1;
    let mut r = ctx.rng(3);
    for i in 0..n {
        let v4 = r.chance(2, 3);
        let ip = if v4 {
            let nopt = if r.chance(1, 8) { r.usize(11) * 4 } else { 0 };
            Ip::V4(V4 {
                ttl: r.u8(),
                tos: if r.chance(1, 2) { 0 } else { r.u8() },
                id: if r.chance(1, 3) { 0 } else { r.u16() },
                flags: if r.chance(1, 20) { r.u8() & 0b110 } else { 0b010 & r.u8() },
                options: vec![1; nopt],
                ..Default::default()
            })
        } else {
            Ip::V6(V6 { hop: r.u8(), tclass: if r.chance(1, 2) { 0 } else { r.u8() }, flow: if r.chance(1, 2) { 0 } else { r.u32() & 0xfffff }, ..Default::default() })
        };
        let fl = match r.below(10) {
            0..=4 => flags::SYN,
            5..=7 => flags::SYN | flags::ACK,
            8 => flags::ACK | (r.u8() & (flags::PSH | flags::URG | flags::FIN)),
            _ => r.u8(),
        } | if r.chance(1, 10) { r.u8() & (flags::ECE | flags::CWR | flags::PSH | flags::URG) } else { 0 };
        // option list: well-formed sequence, sometimes with an EOL and 0/1 padding after it
        let mut o = Vec::new();
        let nopts = r.usize(7);
        for j in 0..nopts {
            let k = if r.chance(1, 12) { 0 } else { 1 + r.below(7) as u8 };
            let enc = sym_opt(k, r.u32());
            if o.len() + enc.len() > 40 {
                break;
            }
            o.extend(enc);
            if k == 0 {
                // after EOL: only zero / NOP bytes in the judged domain
                let extra = r.usize(4);
                for _ in 0..extra {
                    if o.len() < 40 {
                        o.push(if r.chance(1, 4) { 1 } else { 0 });
                    }
                }
                break;
            }
            let _ = j;
        }
        let win = match r.below(6) {
            0 => 0,
            1 => (r.below(45) as u16 + 1).wrapping_mul(1460),
            2 => (r.below(16) as u16) << 12,
            3 => (r.below(43) as u16 + 1).wrapping_mul(1500),
            _ => r.u16(),
        };
        let tcp = Tcp {
            sport: 1024 + r.u16() % 60000,
            dport: *r.pick(&[80u16, 443, 22, 8080, 50000]),
            seq: if r.chance(1, 10) { 0 } else { r.u32() },
            ack: if r.chance(1, 2) { 0 } else { r.u32() },
            flags: fl,
            window: win,
            urg: if r.chance(1, 10) { r.u16() } else { 0 },
            options: o,
            pad_byte: if r.chance(1, 2) { 0 } else { 1 },
            payload: if r.chance(1, 6) { let n = 1 + r.usize(20); r.bytes(n) } else { vec![] },
            ..Default::default()
        };
        check_case(ctx, &mut env, &Case { link: link_for(i), ip: &ip, tcp: &tcp, tag: "random" });
    }
    huginn_net_tcp::verif_hooks::clock::clear();
}

pub fn spec() -> PropSpec {
    PropSpec {
        id: "C03",
        run,
        shards: super::shards_16,
        rule: "segments are generated from a header model (exhaustive per-field sweeps: flag bytes, TTLs, IPv4/IPv6 header bits, IP option lengths, all 65536 windows x MSS set x timestamps x IP version, all option sequences of <=4 options, every (kind,length) single option, MSS/scale/timestamp values; then seeded random headers), framed as Ethernet/raw IP/loopback, analysed by HuginnNetTcp through the packet path, and every reported field (version, ittl, olen, mss, window class, scale, option layout, quirk set without duplicates, payload class, role, MTU, link label) is compared with an independent reference computed from the model; a bucket is a distinct (role, IP version, option-kind layout, quirk set, window form, payload class)",
        assumptions: &[
            "window classification and the TTL distance rule are restated from the crate's documented rules (window_size.rs / ttl.rs doc comments and tests); C13 covers end-to-end faithfulness to the bundled p0f database",
            "value fields (mss, scale, window class, MTU) are judged when every MSS/WS/TS option has its standard length and the timestamp option is not repeated; a repeated MSS or window-scale option is judged by the option walk (last value wins, exws from any occurrence); for malformed option lists only the well-formed prefix and the `bad` quirk are required",
            "bytes after an EOL option are restricted to 0x00/0x01 in the judged domain",
            "quirks are compared as a set plus a no-duplicates rule; quirk order is exercised by C13",
            "IPv4 header lengths below 5 words and IPv6 extension headers are outside the judged domain (crash-only in C01)",
        ],
        parent_stage: None,
    }
}
