//! C12 — match distances obey signature semantics: exact, wildcard, decisive, monotone.
//!
//! The reference model below restates, field by field, when an observation conforms to a p0f
//! signature (p0f README section 5) and which fixed penalty the crate documents for a
//! non-conforming, non-decisive field.  Each field yields one of
//!   Exact(p)   the contribution is known exactly (0 for a conforming field),
//!   Reject     a decisive field differs: the whole comparison must be rejected (None),
//!   ZeroOr(p)  the two readings of the specification disagree: 0 and p are both tolerated,
//!   Any        cross-form comparison without an unambiguous reading: crash-only (any result).
//! The library's `calculate_distance` must lie in the set of totals these fields allow.  The laws
//! L1 (instances => 0 and quality 1.0), L2 (decisive => None), L3 (single non-decisive change
//! never lowers, exact penalty where comparable), L4 (header-list error bands), L5 (quality
//! tables) are instances of that check on structured workloads, plus metamorphic comparisons
//! between an observation and its one-field perturbation.

use crate::rt::{self, Ctx, PropSpec, Rng};
use crate::siggen::{self, HttpObs};
use huginn_net_db::db_matching_trait::DatabaseSignature;
use huginn_net_db::http::{self, Header, Version};
use huginn_net_db::observable_signals::{HttpRequestObservation, HttpResponseObservation, TcpObservation};
use huginn_net_db::tcp::{self, IpVersion, PayloadSize, Quirk, TcpOption, Ttl, WindowSize};
use huginn_net_db::Database;
use serde_json::json;
use std::collections::BTreeSet;

const F_EXPSW: &str = "C12-expsw-containment-reversed";
const F_BADTTL: &str = "C12-ttl-bad-form-unmatchable";

// Documented penalties (crate docs: High 0 / Medium 1 / Low 2 / Bad 3).
const P_TTL: u32 = 2;
const P_OLEN: u32 = 2;
const P_MSS: u32 = 2;
const P_WSIZE: u32 = 2;
const P_WSCALE: u32 = 1;
const P_EXPSW: u32 = 3;
/// p0f's bound on a plausible hop count (MAX_DIST); the property speaks of 0..30, anything
/// between is treated as ambiguous.
const MAX_PLAUSIBLE_HOPS: u32 = 35;

// per-law evaluation counters (flushed into the evidence classes at the end of the run)
static LAW_COUNTS: std::sync::Mutex<std::collections::BTreeMap<&'static str, u64>> = std::sync::Mutex::new(std::collections::BTreeMap::new());
fn count_law(law: &'static str) {
    if let Ok(mut m) = LAW_COUNTS.lock() {
        *m.entry(law).or_insert(0) += 1;
    }
}

// ----------------------------------------------------------------------------- reference model

#[derive(Clone, Copy, Debug, PartialEq)]
enum F {
    Exact(u32),
    Reject,
    ZeroOr(u32),
    Any,
}

fn f_name(f: &F) -> String {
    match f {
        F::Exact(p) => format!("exact{p}"),
        F::Reject => "reject".into(),
        F::ZeroOr(p) => format!("0or{p}"),
        F::Any => "any".into(),
    }
}

/// The set of totals a list of field verdicts allows (None = rejected).
fn allowed(fields: &[F]) -> BTreeSet<Option<u32>> {
    let mut out = BTreeSet::new();
    if fields.iter().any(|f| *f == F::Reject) {
        out.insert(None);
        return out;
    }
    let mut sums: BTreeSet<u32> = BTreeSet::new();
    sums.insert(0);
    for f in fields {
        let opts: Vec<u32> = match f {
            F::Exact(p) => vec![*p],
            F::ZeroOr(p) => vec![0, *p],
            F::Any => {
                out.insert(None);
                vec![0, 1, 2, 3]
            }
            F::Reject => vec![],
        };
        let mut next = BTreeSet::new();
        for s in &sums {
            for o in &opts {
                next.insert(s + o);
            }
        }
        sums = next;
    }
    for s in sums {
        out.insert(Some(s));
    }
    out
}

fn ref_version(o: IpVersion, s: IpVersion) -> F {
    match (o, s) {
        (IpVersion::Any, _) => F::Any, // never emitted by an analyzer
        (_, IpVersion::Any) => F::Exact(0),
        (a, b) if a == b => F::Exact(0),
        _ => F::Reject,
    }
}

fn ref_pclass(o: PayloadSize, s: PayloadSize) -> F {
    match (o, s) {
        (PayloadSize::Any, _) => F::Any,
        (_, PayloadSize::Any) => F::Exact(0),
        (a, b) if a == b => F::Exact(0),
        _ => F::Reject,
    }
}

/// TTL: sig `N` is the initial TTL; an observation `t+d` carries the raw TTL t and the estimated
/// hop count d (initial estimate t+d); sig `N-` is a maximum for randomised TTLs (raw TTL <= N
/// conforms); `N+D` / `N+?` in a database are only judged against the identical / same-form value.
fn ref_ttl(o: &Ttl, s: &Ttl) -> F {
    let near = |raw: u32, init: u32| raw <= init && init - raw <= MAX_PLAUSIBLE_HOPS;
    match (o, s) {
        (Ttl::Distance(t, d), Ttl::Value(n)) => {
            let e = *t as u32 + *d as u32;
            if e > 255 {
                F::Any
            } else if e == *n as u32 {
                F::Exact(0)
            } else if near(*t as u32, *n as u32) {
                F::ZeroOr(P_TTL)
            } else {
                F::Exact(P_TTL)
            }
        }
        (Ttl::Value(t), Ttl::Value(n)) => {
            if t == n {
                F::Exact(0)
            } else if near(*t as u32, *n as u32) {
                F::ZeroOr(P_TTL)
            } else {
                F::Exact(P_TTL)
            }
        }
        (Ttl::Distance(t, d), Ttl::Distance(n, dd)) => {
            let (e, init) = (*t as u32 + *d as u32, *n as u32 + *dd as u32);
            if t == n && d == dd {
                F::Exact(0)
            } else if e > 255 || init > 255 {
                F::Any
            } else if e == init || near(*t as u32, init) {
                F::ZeroOr(P_TTL)
            } else {
                F::Exact(P_TTL)
            }
        }
        (Ttl::Guess(g), Ttl::Guess(n)) => {
            if g == n {
                F::Exact(0)
            } else {
                F::Exact(P_TTL)
            }
        }
        (Ttl::Bad(b), Ttl::Bad(n)) => {
            if b <= n {
                F::Exact(0)
            } else {
                F::Exact(P_TTL)
            }
        }
        (Ttl::Distance(t, _), Ttl::Bad(n)) | (Ttl::Value(t), Ttl::Bad(n)) => {
            if t <= n {
                F::Exact(0)
            } else {
                F::Any
            }
        }
        _ => F::Any,
    }
}

/// What the open finding C12-ttl-bad-form-unmatchable says the library does instead, on the
/// inputs of its precondition (sig `N-`, conforming observation that is not the identical `N-`).
fn badttl_applies(o: &Ttl, s: &Ttl) -> bool {
    match (o, s) {
        (Ttl::Bad(b), Ttl::Bad(n)) => b < n,
        (Ttl::Distance(t, _), Ttl::Bad(n)) | (Ttl::Value(t), Ttl::Bad(n)) => t <= n,
        _ => false,
    }
}
fn badttl_deviant(o: &Ttl) -> F {
    match o {
        Ttl::Bad(_) => F::Exact(P_TTL),
        _ => F::Reject,
    }
}

fn ref_wsize(o: &WindowSize, s: &WindowSize, obs_mss: Option<u16>) -> F {
    let same = |eq: bool| if eq { F::Exact(0) } else { F::Exact(P_WSIZE) };
    match (o, s) {
        (_, WindowSize::Any) => F::Exact(0),
        (WindowSize::Mss(a), WindowSize::Mss(b)) => same(a == b),
        (WindowSize::Mtu(a), WindowSize::Mtu(b)) => same(a == b),
        (WindowSize::Value(a), WindowSize::Value(b)) => same(a == b),
        (WindowSize::Mod(a), WindowSize::Mod(b)) => {
            if a == b {
                F::Exact(0)
            } else if *a == 0 || *b == 0 || a % b == 0 {
                // a window that is a multiple of a is also a multiple of its divisor b
                F::ZeroOr(P_WSIZE)
            } else {
                F::Exact(P_WSIZE)
            }
        }
        (WindowSize::Value(v), WindowSize::Mss(n)) => match obs_mss {
            Some(m) if m > 0 => {
                if *v as u32 == *n as u32 * m as u32 {
                    F::Exact(0)
                } else {
                    // a raw window and `mss*N` are comparable once the packet's MSS is known:
                    // the window is not N times the MSS -- a window that merely lies between
                    // N and N+1 times the MSS is no multiple either -- so the field differs and
                    // costs exactly its penalty
                    F::Exact(P_WSIZE)
                }
            }
            _ => F::Any,
        },
        _ => F::Any,
    }
}

fn ref_opt_field<T: PartialEq + Default>(o: &Option<T>, s: &Option<T>, p: u32) -> F {
    match (o, s) {
        (_, None) => F::Exact(0),
        (Some(a), Some(b)) => {
            if a == b {
                F::Exact(0)
            } else {
                F::Exact(p)
            }
        }
        // option absent in the packet vs a literal value: p0f reads an absent value as 0
        (None, Some(b)) => {
            if *b == T::default() {
                F::ZeroOr(p)
            } else {
                F::Exact(p)
            }
        }
    }
}

fn ref_quirks(o: &[Quirk], s: &[Quirk]) -> F {
    if o == s {
        return F::Exact(0);
    }
    // the same *set* in another order / multiplicity: p0f compares bit sets, the crate lists
    let subset = |a: &[Quirk], b: &[Quirk]| a.iter().all(|q| b.contains(q));
    if subset(o, s) && subset(s, o) {
        F::Any
    } else {
        F::Reject
    }
}

const TCP_FIELDS: [&str; 9] = ["version", "ittl", "olen", "mss", "wsize", "wscale", "olayout", "quirks", "pclass"];

fn ref_tcp(o: &TcpObservation, s: &tcp::Signature) -> [F; 9] {
    [
        ref_version(o.version, s.version),
        ref_ttl(&o.ittl, &s.ittl),
        if o.olen == s.olen { F::Exact(0) } else { F::Exact(P_OLEN) },
        ref_opt_field(&o.mss, &s.mss, P_MSS),
        ref_wsize(&o.wsize, &s.wsize, o.mss),
        ref_opt_field(&o.wscale, &s.wscale, P_WSCALE),
        if o.olayout == s.olayout { F::Exact(0) } else { F::Reject },
        ref_quirks(&o.quirks, &s.quirks),
        ref_pclass(o.pclass, s.pclass),
    ]
}

/// Judge one TCP comparison against the reference model.  Returns the library's answer.
fn judge_tcp(ctx: &mut Ctx, law: &'static str, o: &TcpObservation, s: &tcp::Signature) -> Option<Option<u32>> {
    count_law(law);
    let actual = match rt::guard(|| s.calculate_distance(o)) {
        Ok(a) => a,
        Err(p) => {
            ctx.judge(false, &[], "calculate_distance panicked (TCP)", || {
                json!({"law": law, "signature": siggen::tcp_sig_text(s), "observation": siggen::tcp_obs_text(o), "panic": p})
            });
            return None;
        }
    };
    let fields = ref_tcp(o, s);
    let spec = allowed(&fields);
    let ok = spec.contains(&actual);
    let mut dev_ok = false;
    if !ok && badttl_applies(&o.ittl, &s.ittl) {
        let mut f2 = fields;
        f2[1] = badttl_deviant(&o.ittl);
        dev_ok = allowed(&f2).contains(&actual);
    }
    ctx.judge(ok, &[(F_BADTTL, dev_ok)], "TCP distance outside what the signature semantics allow", || {
        let fl: Vec<String> = TCP_FIELDS.iter().zip(fields.iter()).map(|(n, f)| format!("{n}={}", f_name(f))).collect();
        json!({
            "law": law, "signature": siggen::tcp_sig_text(s), "observation": siggen::tcp_obs_text(o),
            "reference_fields": fl, "allowed_totals": format!("{spec:?}"), "actual": format!("{actual:?}"),
        })
    });
    Some(actual)
}

// ------------------------------------------------------------------------------- HTTP reference

fn band(k: u32) -> Option<u32> {
    match k {
        0..=2 => Some(0),
        3..=5 => Some(1),
        6..=8 => Some(2),
        9..=11 => Some(3),
        _ => None,
    }
}

/// Minimum number of errors over all order-preserving alignments of an observed header list with a
/// signature list.  Error kinds: required signature header missing (1), observed header that the
/// signature does not account for (1), required header present with a different value (1); an
/// optional header may be missing or carry another value at no cost.
fn min_errors(obs: &[Header], sig: &[Header]) -> u32 {
    let (n, m) = (obs.len(), sig.len());
    let mut c = vec![vec![0u32; m + 1]; n + 1];
    for j in (0..m).rev() {
        c[n][j] = c[n][j + 1] + if sig[j].optional { 0 } else { 1 };
    }
    for i in (0..n).rev() {
        c[i][m] = (n - i) as u32;
        for j in (0..m).rev() {
            let skip_sig = c[i][j + 1] + if sig[j].optional { 0 } else { 1 };
            let skip_obs = c[i + 1][j] + 1;
            let mut best = skip_sig.min(skip_obs);
            if obs[i].name == sig[j].name {
                let cost = if obs[i].value == sig[j].value || sig[j].optional { 0 } else { 1 };
                best = best.min(c[i + 1][j + 1] + cost);
            }
            c[i][j] = best;
        }
    }
    c[0][0]
}

/// Bounds on the error count of a list comparison: exact when known by construction.
#[derive(Clone, Copy, Debug)]
struct ListExp {
    lo: u32,
    hi: u32,
}

fn list_bounds(obs: &[Header], sig: &[Header]) -> ListExp {
    // any alignment counts at most every observed header and every required signature header
    let hi = obs.len() as u32 + sig.iter().filter(|h| !h.optional).count() as u32;
    ListExp { lo: min_errors(obs, sig), hi }
}

fn expsw_spec(obs: &str, sig: &str) -> u32 {
    // p0f: the signature names a substring expected inside the observed software string
    if obs.contains(sig) {
        0
    } else {
        P_EXPSW
    }
}
fn expsw_deviant(obs: &str, sig: &str) -> u32 {
    if sig.contains(obs) {
        0
    } else {
        P_EXPSW
    }
}
fn expsw_finding_applies(obs: &str, sig: &str) -> bool {
    obs.contains(sig) != sig.contains(obs)
}

fn http_allowed(version_ok: bool, h: ListExp, a: ListExp, expsw: u32) -> BTreeSet<Option<u32>> {
    let mut out = BTreeSet::new();
    if !version_ok {
        out.insert(None);
        return out;
    }
    for kh in h.lo..=h.hi.min(12).max(h.lo) {
        for ka in a.lo..=a.hi.min(12).max(a.lo) {
            match (band(kh), band(ka)) {
                (Some(x), Some(y)) => out.insert(Some(x + y + expsw)),
                _ => out.insert(None),
            };
        }
    }
    out
}

fn ref_http_version(o: Version, s: Version) -> Option<bool> {
    match (o, s) {
        (Version::Any, _) => None,
        (_, Version::Any) => Some(true),
        (a, b) => Some(a == b),
    }
}

/// Judge one HTTP comparison (both the request and the response implementation).
fn judge_http(ctx: &mut Ctx, law: &'static str, o: &HttpObs, s: &http::Signature, h: ListExp, a: ListExp) -> Option<Option<u32>> {
    count_law(law);
    let Some(version_ok) = ref_http_version(o.version, s.version) else {
        return None;
    };
    let (rq, rp) = (o.req(), o.resp());
    let r1 = rt::guard(|| DatabaseSignature::<HttpRequestObservation>::calculate_distance(s, &rq));
    let r2 = rt::guard(|| DatabaseSignature::<HttpResponseObservation>::calculate_distance(s, &rp));
    let (actual, actual2) = match (r1, r2) {
        (Ok(x), Ok(y)) => (x, y),
        (e1, e2) => {
            ctx.judge(false, &[], "calculate_distance panicked (HTTP)", || {
                json!({"law": law, "signature": siggen::http_sig_text(s), "observation": o.text(), "request": format!("{e1:?}"), "response": format!("{e2:?}")})
            });
            return None;
        }
    };
    let spec = http_allowed(version_ok, h, a, expsw_spec(&o.expsw, &s.expsw));
    let ok = spec.contains(&actual) && actual == actual2;
    let dev = !ok
        && actual == actual2
        && expsw_finding_applies(&o.expsw, &s.expsw)
        && http_allowed(version_ok, h, a, expsw_deviant(&o.expsw, &s.expsw)).contains(&actual);
    ctx.judge(ok, &[(F_EXPSW, dev)], "HTTP distance outside what the signature semantics allow", || {
        json!({
            "law": law, "signature": siggen::http_sig_text(s), "observation": o.text(),
            "horder_errors": [h.lo, h.hi], "habsent_errors": [a.lo, a.hi],
            "expsw_expected": expsw_spec(&o.expsw, &s.expsw),
            "allowed_totals": format!("{spec:?}"),
            "actual_request_impl": format!("{actual:?}"), "actual_response_impl": format!("{actual2:?}"),
        })
    });
    Some(actual)
}

// ------------------------------------------------------------------------------- L5: quality

fn quality_tables(ctx: &mut Ctx) {
    let tsig = base_tcp_sig();
    let hsig = http::Signature { version: Version::V11, horder: vec![], habsent: vec![], expsw: String::new() };
    let tables: [(&str, Box<dyn Fn(u32) -> f32>); 3] = [
        ("tcp", Box::new(move |d| tsig.get_quality_score(d))),
        ("http-request", {
            let h = hsig.clone();
            Box::new(move |d| DatabaseSignature::<HttpRequestObservation>::get_quality_score(&h, d))
        }),
        ("http-response", {
            let h = hsig.clone();
            Box::new(move |d| DatabaseSignature::<HttpResponseObservation>::get_quality_score(&h, d))
        }),
    ];
    // ranges of distances [lo, hi] handled by this shard
    let mut ranges: Vec<(u64, u64, u64)> = Vec::new(); // (lo, hi, stride)
    if ctx.thorough() {
        let per = (1u64 << 32) / ctx.nshards as u64;
        let lo = per * ctx.shard as u64;
        let hi = if ctx.shard + 1 == ctx.nshards { (1u64 << 32) - 1 } else { lo + per - 1 };
        ranges.push((lo, hi, 1));
    } else if ctx.miri() {
        ranges.push((0, 64, 1));
        ranges.push((u32::MAX as u64 - 16, u32::MAX as u64, 1));
    } else {
        // quick: 0..2^20 split over the shards, a stride-4099 sweep and the top 2^16 on two shards
        let per = (1u64 << 20) / ctx.nshards as u64;
        let lo = per * ctx.shard as u64;
        ranges.push((lo, if ctx.shard + 1 == ctx.nshards { 1 << 20 } else { lo + per - 1 }, 1));
        if ctx.shard == 1 % ctx.nshards {
            ranges.push((0, u32::MAX as u64, 4099));
        }
        if ctx.shard == 2 % ctx.nshards {
            ranges.push(((1u64 << 32) - (1 << 16), u32::MAX as u64, 1));
        }
    }
    for (name, f) in tables.iter() {
        let q0 = f(0);
        ctx.judge(q0 == 1.0, &[], "quality at distance 0 is not 1.0", || json!({"table": name, "quality(0)": q0}));
        for &(lo, hi, stride) in &ranges {
            // previous point: the predecessor in the sweep (or lo itself at the very start)
            let mut prev_d = if lo >= stride { lo - stride } else { lo };
            let mut prev = f(prev_d as u32);
            let mut d = lo;
            let mut n: u64 = 0;
            let mut bad: u64 = 0;
            while d <= hi {
                let q = f(d as u32);
                n += 1;
                let in_range = (0.05..=1.0).contains(&q);
                let monotone = d == prev_d || q <= prev;
                let one_only_at_zero = d == 0 || q != 1.0;
                if !(in_range && monotone && one_only_at_zero) {
                    bad += 1;
                    if bad <= 3 {
                        ctx.judge(false, &[], "quality table is not a non-increasing map into [0.05,1.0] that is 1.0 only at 0", || {
                            json!({"table": name, "distance": d, "quality": q, "previous_distance": prev_d, "previous_quality": prev,
                                   "in_range": in_range, "non_increasing": monotone, "one_only_at_zero": one_only_at_zero})
                        });
                    }
                }
                if q != prev && stride == 1 {
                    ctx.bucket(&format!("L5/{name}/step at {d}: {prev} -> {q}"));
                }
                prev = q;
                prev_d = d;
                d += stride;
            }
            ctx.evals(n);
            ctx.class_n(&format!("L5/{name}/distances"), n);
        }
    }
    if ctx.thorough() {
        ctx.exhaustive("L5: all 2^32 distances of the TCP and HTTP quality tables (non-increasing, within [0.05,1.0], 1.0 only at 0)");
    }
}

// ------------------------------------------------------------------- exhaustive scalar domains

fn base_tcp_sig() -> tcp::Signature {
    tcp::Signature {
        version: IpVersion::V4,
        ittl: Ttl::Value(64),
        olen: 0,
        mss: Some(1460),
        wsize: WindowSize::Value(8192),
        wscale: Some(3),
        olayout: vec![TcpOption::Mss, TcpOption::Nop, TcpOption::Ws],
        quirks: vec![Quirk::Df, Quirk::NonZeroID],
        pclass: PayloadSize::Zero,
    }
}

fn obs_of(s: &tcp::Signature) -> TcpObservation {
    TcpObservation {
        version: if s.version == IpVersion::Any { IpVersion::V4 } else { s.version },
        ittl: s.ittl.clone(),
        olen: s.olen,
        mss: s.mss,
        wsize: s.wsize.clone(),
        wscale: s.wscale,
        olayout: s.olayout.clone(),
        quirks: s.quirks.clone(),
        pclass: if s.pclass == PayloadSize::Any { PayloadSize::Zero } else { s.pclass },
    }
}

const TTL_D: [u8; 7] = [0, 1, 5, 30, 31, 100, 255];

fn ttl_forms(form: usize, a: u8) -> Vec<Ttl> {
    match form {
        0 => vec![Ttl::Value(a)],
        1 => TTL_D.iter().map(|d| Ttl::Distance(a, *d)).collect(),
        2 => vec![Ttl::Guess(a)],
        _ => vec![Ttl::Bad(a)],
    }
}
const TTL_FORM_NAMES: [&str; 4] = ["value", "dist", "guess", "bad"];

fn ttl_class(f: &F) -> &'static str {
    match f {
        F::Exact(0) => "conforms",
        F::Exact(_) => "differs",
        F::ZeroOr(_) => "ambiguous",
        F::Any => "crossform",
        F::Reject => "reject",
    }
}

fn exhaustive_ttl(ctx: &mut Ctx) {
    // two contexts: everything else conforming (d0 = 0) and a base with mss and wscale off (d0 = 3)
    let mut sig = base_tcp_sig();
    let mut obs = [obs_of(&sig), obs_of(&sig)];
    obs[1].mss = Some(1400);
    obs[1].wscale = Some(7);
    let step = if ctx.miri() { 37 } else { 1 };
    for of in 0..4 {
        for sf in 0..4 {
            let mut a = ctx.shard;
            while a < 256 {
                for ot in ttl_forms(of, a as u8) {
                    let mut b = 0usize;
                    while b < 256 {
                        for st in ttl_forms(sf, b as u8) {
                            sig.ittl = st;
                            for o in obs.iter_mut() {
                                o.ittl = ot.clone();
                            }
                            let f = ref_ttl(&ot, &sig.ittl);
                            let r0 = judge_tcp(ctx, "L3/ttl-exhaustive", &obs[0], &sig);
                            let r1 = judge_tcp(ctx, "L3/ttl-exhaustive+3", &obs[1], &sig);
                            // additivity: the contribution does not depend on the other fields
                            if let (Some(r0), Some(r1)) = (r0, r1) {
                                let ok = match (r0, r1) {
                                    (Some(x), Some(y)) => y == x + P_MSS + P_WSCALE,
                                    (None, None) => true,
                                    _ => false,
                                };
                                ctx.judge(ok, &[], "TTL contribution depends on unrelated fields", || {
                                    json!({"signature": siggen::tcp_sig_text(&sig), "observation": siggen::tcp_obs_text(&obs[0]),
                                           "distance_with_other_fields_conforming": format!("{r0:?}"), "distance_with_mss_and_wscale_off(+3)": format!("{r1:?}")})
                                });
                            }
                            ctx.bucket(&format!("ttl/obs-{}/sig-{}/{}", TTL_FORM_NAMES[of], TTL_FORM_NAMES[sf], ttl_class(&f)));
                        }
                        b += step;
                    }
                }
                a += ctx.nshards * step;
            }
        }
    }
    if !ctx.miri() {
        ctx.exhaustive("TTL: all 4x4 (observation form, signature form) pairs over 0..255 x 0..255 (hop-count byte of the N+D form on the grid {0,1,5,30,31,100,255})");
    }
}

fn u16_grid() -> Vec<u16> {
    let mut g: Vec<u16> = vec![
        0, 1, 2, 3, 4, 5, 255, 256, 257, 511, 512, 536, 1023, 1024, 1025, 1459, 1460, 1461, 2047, 2048, 2919, 2920, 2921, 4096, 5839,
        5840, 5841, 8192, 14600, 16384, 29200, 32767, 32768, 32769, 64240, 65534, 65535,
    ];
    // products of the MSS grid with small multipliers (so that Value-vs-mss*N has conforming points)
    for m in [1u32, 2, 536, 1460] {
        for n in [0u32, 1, 2, 4, 44, 45] {
            let v = m * n;
            if v <= 65535 && !g.contains(&(v as u16)) {
                g.push(v as u16);
            }
            if v + 1 <= 65535 && !g.contains(&((v + 1) as u16)) {
                g.push((v + 1) as u16);
            }
        }
    }
    g
}

fn wsize_forms(u8s: &[u8], u16s: &[u16], with_any: bool) -> Vec<WindowSize> {
    let mut v = Vec::new();
    for a in u8s {
        v.push(WindowSize::Mss(*a));
    }
    for a in u8s {
        v.push(WindowSize::Mtu(*a));
    }
    for a in u16s {
        v.push(WindowSize::Mod(*a));
    }
    for a in u16s {
        v.push(WindowSize::Value(*a));
    }
    if with_any {
        v.push(WindowSize::Any);
    }
    v
}

fn wname(w: &WindowSize) -> &'static str {
    match w {
        WindowSize::Mss(_) => "mss*N",
        WindowSize::Mtu(_) => "mtu*N",
        WindowSize::Mod(_) => "%N",
        WindowSize::Value(_) => "value",
        WindowSize::Any => "*",
    }
}

fn exhaustive_wsize(ctx: &mut Ctx) {
    let u8s: Vec<u8> = if ctx.quick() || ctx.miri() {
        vec![0, 1, 2, 3, 4, 5, 10, 44, 45, 46, 64, 127, 128, 254, 255]
    } else {
        (0..=255).collect()
    };
    let u16s = if ctx.miri() { vec![0, 1, 1460, 5840, 65535] } else { u16_grid() };
    let obs_forms = wsize_forms(&u8s, &u16s, false);
    let sig_forms = wsize_forms(&u8s, &u16s, true);
    let msss: [Option<u16>; 7] = [None, Some(0), Some(1), Some(2), Some(536), Some(1460), Some(65535)];
    let mut sig = base_tcp_sig();
    sig.mss = None; // the observation's MSS is free
    let mut obs = obs_of(&sig);
    for (i, ow) in obs_forms.iter().enumerate() {
        if !ctx.mine(i as u64) {
            continue;
        }
        for sw in &sig_forms {
            for m in msss {
                obs.wsize = ow.clone();
                obs.mss = m;
                sig.wsize = sw.clone();
                judge_tcp(ctx, "L3/window-exhaustive", &obs, &sig);
                let f = ref_wsize(ow, sw, m);
                ctx.bucket(&format!("wsize/obs-{}/sig-{}/{}", wname(ow), wname(sw), ttl_class(&f)));
            }
        }
    }
    ctx.exhaustive("window: all (observation form, signature form incl. *) pairs on a boundary grid x 7 observation MSS cases");
}

fn exhaustive_scalars(ctx: &mut Ctx) {
    let mut sig = base_tcp_sig();
    let mut obs = obs_of(&sig);
    // wscale: all 257 x 257 presence/value cases
    if ctx.mine(0) {
        let vals: Vec<Option<u8>> = std::iter::once(None).chain((0..=255u8).map(Some)).collect();
        let step = if ctx.miri() { 51 } else { 1 };
        for sw in vals.iter().step_by(step) {
            for ow in vals.iter().step_by(step) {
                sig.wscale = *sw;
                obs.wscale = *ow;
                judge_tcp(ctx, "L3/wscale-exhaustive", &obs, &sig);
                ctx.bucket(&format!("wscale/sig-{}/obs-{}/{}", sw.is_some(), ow.is_some(), ttl_class(&ref_opt_field(ow, sw, P_WSCALE))));
            }
        }
        ctx.exhaustive("wscale: all 257 x 257 (absent or 0..255) signature/observation cases");
        sig = base_tcp_sig();
        obs = obs_of(&sig);
    }
    // olen: all 256 x 256
    if ctx.mine(1) {
        let step = if ctx.miri() { 51 } else { 1 };
        for a in (0..=255u8).step_by(step) {
            for b in (0..=255u8).step_by(step) {
                sig.olen = a;
                obs.olen = b;
                judge_tcp(ctx, "L3/olen-exhaustive", &obs, &sig);
            }
        }
        ctx.bucket("olen/equal");
        ctx.bucket("olen/differs");
        ctx.exhaustive("olen: all 256 x 256 signature/observation values");
        sig = base_tcp_sig();
        obs = obs_of(&sig);
    }
    // (mss, wscale, olen) crossed on grids, with a window form that does not read the MSS
    if ctx.mine(2) {
        let msss: Vec<Option<u16>> = vec![None, Some(0), Some(1), Some(536), Some(1459), Some(1460), Some(1461), Some(65534), Some(65535)];
        let wss: Vec<Option<u8>> = vec![None, Some(0), Some(1), Some(7), Some(14), Some(255)];
        let olens = [0u8, 1, 40, 255];
        for sm in &msss {
            for om in &msss {
                for sw in &wss {
                    for ow in &wss {
                        for so in olens {
                            for oo in olens {
                                sig.mss = *sm;
                                obs.mss = *om;
                                sig.wscale = *sw;
                                obs.wscale = *ow;
                                sig.olen = so;
                                obs.olen = oo;
                                judge_tcp(ctx, "L3/mss-wscale-olen-cross", &obs, &sig);
                                ctx.bucket(&format!(
                                    "scalars/mss-{}/wscale-{}/olen-{}",
                                    ttl_class(&ref_opt_field(om, sm, P_MSS)),
                                    ttl_class(&ref_opt_field(ow, sw, P_WSCALE)),
                                    so == oo
                                ));
                            }
                        }
                    }
                }
            }
        }
        ctx.exhaustive("(mss, wscale, olen): all presence/equality cases crossed on boundary grids");
    }
    // quirk lists: all ordered lists WITH repetition up to length 3 over four quirks, on both sides
    // (a packet carrying an option twice records its quirk twice: `exws,exws`, `ts1-,ts1-`)
    if ctx.mine(4) {
        sig = base_tcp_sig();
        obs = obs_of(&sig);
        let alpha: Vec<Quirk> = if ctx.miri() {
            vec![Quirk::Df, Quirk::ExcessiveWindowScaling]
        } else {
            vec![Quirk::Df, Quirk::NonZeroID, Quirk::ExcessiveWindowScaling, Quirk::OwnTimestampZero]
        };
        let max_len = if ctx.miri() { 2 } else { 3 };
        let mut lists: Vec<Vec<Quirk>> = vec![vec![]];
        let mut frontier: Vec<Vec<Quirk>> = vec![vec![]];
        for _ in 0..max_len {
            let mut next = Vec::new();
            for l in &frontier {
                for q in &alpha {
                    let mut n = l.clone();
                    n.push(q.clone());
                    next.push(n);
                }
            }
            lists.extend(next.iter().cloned());
            frontier = next;
        }
        for sq in &lists {
            for oq in &lists {
                sig.quirks = sq.clone();
                obs.quirks = oq.clone();
                judge_tcp(ctx, "L2/quirk-lists-exhaustive", &obs, &sig);
                let dup = |l: &[Quirk]| l.iter().enumerate().any(|(i, q)| l[..i].contains(q));
                ctx.bucket(&format!(
                    "quirks/sig-len{}{}/obs-len{}{}/{}",
                    sq.len(),
                    if dup(sq) { "-dup" } else { "" },
                    oq.len(),
                    if dup(oq) { "-dup" } else { "" },
                    ttl_class(&ref_quirks(oq, sq))
                ));
            }
        }
        ctx.exhaustive("quirks: all pairs of ordered quirk lists with repetition up to length 3 over {df, id+, exws, ts1-}");
    }
    // full mss sweep against three signature values
    if ctx.mine(3) && !ctx.miri() {
        sig = base_tcp_sig();
        obs = obs_of(&sig);
        for sm in [Some(0u16), Some(1460), Some(65535), None] {
            sig.mss = sm;
            for om in 0..=65535u16 {
                obs.mss = Some(om);
                judge_tcp(ctx, "L3/mss-sweep", &obs, &sig);
            }
            obs.mss = None;
            judge_tcp(ctx, "L3/mss-sweep", &obs, &sig);
        }
        ctx.exhaustive("mss: all 65536 observation values (and absent) against signature mss 0, 1460, 65535 and *");
    }
}

// --------------------------------------------------------------- random TCP signature/instances

fn tcp_random(ctx: &mut Ctx) {
    let n = ctx.scale(1_200_000, 36_000_000, 40) / ctx.nshards as u64 + 1;
    let mut r = ctx.rng(120);
    for _ in 0..n {
        let wild = *r.pick(&[0u64, 30, 60, 100]);
        let tg = siggen::TcpGen::new(&mut r, 2, wild);
        let sig = tg.sig(&mut r);
        let sig_shape = format!(
            "v{}p{}ttl{}w{}m{}s{}",
            if sig.version == IpVersion::Any { '*' } else { 'c' },
            if sig.pclass == PayloadSize::Any { '*' } else { 'c' },
            match sig.ittl {
                Ttl::Value(_) => 'v',
                Ttl::Distance(..) => 'd',
                Ttl::Guess(_) => 'g',
                Ttl::Bad(_) => 'b',
            },
            wname(&sig.wsize),
            if sig.mss.is_none() { '*' } else { 'c' },
            if sig.wscale.is_none() { '*' } else { 'c' },
        );
        let mut one_sig_collection = None;
        for inst in siggen::tcp_instances(&sig, &mut r, 2) {
            // L1: generator and reference model must agree that this is an instance
            let fields = ref_tcp(&inst, &sig);
            if fields.iter().any(|f| *f != F::Exact(0)) {
                ctx.inconclusive("instance generator and reference model disagree (harness)");
                continue;
            }
            let Some(d) = judge_tcp(ctx, "L1/instance", &inst, &sig) else { continue };
            let q = sig.get_quality_score(0);
            ctx.judge(q == 1.0, &[], "quality of distance 0 is not 1.0", || json!({"quality": q}));
            // the same law at the point where an analyzer observes it: in a database that holds
            // just this signature the lookup must accept the instance with quality 1.0
            if d == Some(0) {
                let coll = one_sig_collection.get_or_insert_with(|| huginn_net_db::db::FingerprintCollection::new(vec![(siggen::gen_label(&mut r, 0), vec![sig.clone()])]));
                let got = rt::guard(|| huginn_net_db::db_matching_trait::FingerprintDb::find_best_match(&*coll, &inst).map(|(_, s, q)| (s == &sig, q)));
                ctx.judge(got == Ok(Some((true, 1.0))), &[], "an instance is not matched (quality 1.0) by a database holding only its signature", || {
                    json!({"signature": siggen::tcp_sig_text(&sig), "instance": siggen::tcp_obs_text(&inst), "lookup": format!("{got:?}")})
                });
                ctx.bucket(&format!("L1/tcp-lookup/{sig_shape}/obs-v{:?}-p{:?}", inst.version, inst.pclass));
            }
            ctx.bucket(&format!("L1/tcp/{sig_shape}"));
            if ctx.want_sample() {
                ctx.sample(json!({"law": "L1", "signature": siggen::tcp_sig_text(&sig), "instance": siggen::tcp_obs_text(&inst), "distance": format!("{d:?}")}));
            }
            // one-field perturbations of the instance and of an already perturbed observation
            let mut base = inst.clone();
            let mut base_d = d;
            for depth in 0..3 {
                let k = r.usize(siggen::TCP_PERTURBATIONS.len());
                let kind = siggen::TCP_PERTURBATIONS[k];
                let p = siggen::tcp_perturb(&base, k, &mut r);
                let before = ref_tcp(&base, &sig);
                let after = ref_tcp(&p, &sig);
                let law = if after.iter().any(|f| *f == F::Reject) { "L2/decisive" } else { "L3/single-change" };
                let Some(pd) = judge_tcp(ctx, law, &p, &sig) else { break };
                // metamorphic: exactly one reference field changed from conforming to a known verdict
                let changed: Vec<usize> = (0..9).filter(|i| before[*i] != after[*i]).collect();
                if changed.len() == 1 && before[changed[0]] == F::Exact(0) {
                    let i = changed[0];
                    let (ok, what) = match (after[i], base_d, pd) {
                        (F::Exact(pen), Some(d0), got) => (got == Some(d0 + pen), "exact penalty"),
                        (F::Reject, _, got) => (got.is_none(), "decisive"),
                        (_, Some(d0), Some(d1)) => (d1 >= d0, "never lowers"),
                        _ => (true, "unjudged"),
                    };
                    // inputs of the open TTL finding are excluded from the metamorphic law
                    // (and an MSS change while a raw window is read against `mss*N`: two fields move)
                    let mss_window = i == 3 && matches!((&p.wsize, &sig.wsize), (WindowSize::Value(_), WindowSize::Mss(_)));
                    let excluded = mss_window || badttl_applies(&p.ittl, &sig.ittl) || badttl_applies(&base.ittl, &sig.ittl);
                    if !excluded && what != "unjudged" {
                        ctx.judge(ok, &[], "one-field change: distance does not move by the field's rule", || {
                            json!({"rule": what, "field": TCP_FIELDS[i], "signature": siggen::tcp_sig_text(&sig),
                                   "before": siggen::tcp_obs_text(&base), "before_distance": format!("{base_d:?}"),
                                   "after": siggen::tcp_obs_text(&p), "after_distance": format!("{pd:?}"),
                                   "reference_verdict_after": f_name(&after[i])})
                        });
                        ctx.bucket(&format!("L3/tcp/{kind}/{}/{what}/depth{depth}", TCP_FIELDS[i]));
                    }
                }
                if pd.is_none() {
                    break;
                }
                base = p;
                base_d = pd;
            }
        }
        // p0f reading of `N-`: any raw TTL up to N conforms (open finding: the library rejects them)
        if let Ttl::Bad(nmax) = sig.ittl {
            let mut o = obs_of(&sig);
            if sig.mss.is_none() {
                o.mss = Some(1460);
            }
            if sig.wsize == WindowSize::Any {
                o.wsize = WindowSize::Value(1024);
            }
            let t = (r.below(nmax as u64 + 1)) as u8;
            let forms = [Ttl::Bad(0), Ttl::Value(t), Ttl::Distance(t, (r.below(31) as u8).min(255 - t)), Ttl::Bad(t)];
            for f in forms {
                o.ittl = f;
                if ref_tcp(&o, &sig).iter().all(|f| *f == F::Exact(0)) {
                    judge_tcp(ctx, "L1/instance-of-N-minus", &o, &sig);
                    ctx.bucket("L1/tcp/ttl-N-minus/raw<=N");
                }
            }
        }
    }
}

fn tcp_bundled(ctx: &mut Ctx) {
    let Ok(Ok(db)) = rt::guard(Database::load_default) else {
        ctx.inconclusive("bundled database does not load");
        return;
    };
    let mut idx = 0u64;
    for c in [&db.tcp_request, &db.tcp_response] {
        for (_, sigs) in &c.entries {
            for sig in sigs {
                idx += 1;
                if !ctx.mine(idx) {
                    continue;
                }
                let mut r = ctx.rng_global(121, idx);
                for inst in siggen::tcp_instances(sig, &mut r, ctx.scale(4, 40, 1) as usize) {
                    if ref_tcp(&inst, sig).iter().any(|f| *f != F::Exact(0)) {
                        ctx.inconclusive("instance generator and reference model disagree (harness)");
                        continue;
                    }
                    judge_tcp(ctx, "L1/bundled-instance", &inst, sig);
                    for k in 0..siggen::TCP_PERTURBATIONS.len() {
                        let p = siggen::tcp_perturb(&inst, k, &mut r);
                        judge_tcp(ctx, "L2L3/bundled-perturbed", &p, sig);
                    }
                }
                // analyzer-emittable TTLs for `N-` signatures
                if let Ttl::Bad(nmax) = sig.ittl {
                    let mut o = siggen::tcp_instances(sig, &mut r, 1).remove(0);
                    for t in [0u8, 1, nmax / 2, nmax] {
                        o.ittl = if t == 0 { Ttl::Bad(0) } else { Ttl::Distance(t, 64u8.saturating_sub(t).min(30)) };
                        if ref_tcp(&o, sig).iter().all(|f| *f == F::Exact(0)) {
                            judge_tcp(ctx, "L1/bundled-instance-of-N-minus", &o, sig);
                        }
                    }
                    ctx.bucket("L1/tcp/bundled/ttl-N-minus");
                }
                ctx.bucket(&format!("L1/tcp/bundled/{}", siggen::tcp_sig_text(sig)));
            }
        }
    }
}

// ------------------------------------------------------------------------------------ HTTP laws

fn distinct_names(l: &[Header]) -> bool {
    (0..l.len()).all(|i| (i + 1..l.len()).all(|j| l[i].name != l[j].name))
}

fn exact(k: u32) -> ListExp {
    ListExp { lo: k, hi: k }
}

const SW_CASES: [&str; 18] = [
    "", "F", "Fo", "Foo", "oo", "o", "Foo/1.0", "Mozilla/5.0 Foo/1.0", "Mozilla/5.0 Foo/1.0 Safari", "foo", "FOO", "???", "Bar",
    "FooBar", "oF", " ", "Foo ", "\u{e9}Foo\u{e9}",
];

fn expsw_cases(ctx: &mut Ctx) {
    if !ctx.mine(4) {
        return;
    }
    let hdr = vec![Header::new("Host"), Header::new("User-Agent")];
    for sv in [Version::V11, Version::Any] {
        for sig_sw in SW_CASES {
            for obs_sw in SW_CASES {
                let sig = http::Signature { version: sv, horder: hdr.clone(), habsent: vec![], expsw: sig_sw.to_string() };
                let o = HttpObs { version: Version::V11, horder: hdr.clone(), habsent: vec![], expsw: obs_sw.to_string() };
                judge_http(ctx, "L1L3/expsw-containment", &o, &sig, exact(0), exact(0));
                ctx.bucket(&format!(
                    "expsw/obs-contains-sig={}/sig-contains-obs={}/sig-empty={}/obs-empty={}",
                    obs_sw.contains(sig_sw),
                    sig_sw.contains(obs_sw),
                    sig_sw.is_empty(),
                    obs_sw.is_empty()
                ));
            }
        }
    }
    ctx.exhaustive("software string: all 18 x 18 containment cases (empty, equal, proper substring either way, prefix/suffix, case change, unrelated, non-ASCII)");
}

/// Controlled single-kind edits of a conforming list: `rem` required headers removed, `chg`
/// required headers given another value, `ext` foreign headers appended at the end.
fn edited_instance(sig: &[Header], mask: u64, rem: usize, chg: usize, ext: usize, r: &mut Rng) -> Option<Vec<Header>> {
    let mut obs = siggen::header_list_instance(sig, mask);
    // an optional header that the peer sends counts as present whatever value it carries (rule 3
    // of the crate's documented comparison: a differing value is an error only for required
    // headers): half of the instances give some of the optional headers they contain an own value
    if mask >> 63 == 1 {
        let optional: Vec<&str> = sig.iter().filter(|h| h.optional).map(|h| h.name.as_str()).collect();
        for (i, h) in obs.iter_mut().enumerate() {
            if optional.contains(&h.name.as_str()) && (mask >> (32 + i % 30)) & 1 == 1 {
                h.value = match &h.value {
                    None => Some("own".into()),
                    Some(v) => Some(format!("{v}'")),
                };
            }
        }
    }
    let req_names: Vec<String> = sig.iter().filter(|h| !h.optional).map(|h| h.name.clone()).collect();
    if rem + chg > req_names.len() {
        return None;
    }
    let mut pick: Vec<usize> = (0..req_names.len()).collect();
    r.shuffle(&mut pick);
    for i in &pick[..rem] {
        obs.retain(|h| h.name != req_names[*i]);
    }
    for i in &pick[rem..rem + chg] {
        for h in obs.iter_mut() {
            if h.name == req_names[*i] {
                h.value = match &h.value {
                    None => Some("changed".into()),
                    Some(v) => {
                        if r.chance(1, 4) {
                            None
                        } else {
                            Some(format!("{v}~"))
                        }
                    }
                };
            }
        }
    }
    for e in 0..ext {
        obs.push(Header { optional: false, name: format!("X-Extra-{e}"), value: if r.chance(1, 2) { Some("v".into()) } else { None } });
    }
    Some(obs)
}

fn header_bands(ctx: &mut Ctx) {
    // L4: exact bands on controlled edits; both lists, alone and together
    let rounds = ctx.scale(60, 1500, 1);
    let mut r = ctx.rng(124);
    let kinds = ["removed", "changed", "appended", "mixed"];
    for round in 0..rounds {
        let req = 14 + r.usize(4);
        let mut sig_list = siggen::gen_header_list(&mut r, req + 3, req + 6, 0, 50, false);
        // mark some as optional, keep >= 14 required
        let nopt = sig_list.len() - req;
        let mut idxs: Vec<usize> = (0..sig_list.len()).collect();
        r.shuffle(&mut idxs);
        for i in &idxs[..nopt] {
            sig_list[*i].optional = true;
        }
        let small = siggen::gen_header_list(&mut r, 0, 3, 30, 30, false);
        for (ki, kind) in kinds.iter().enumerate() {
            for k in 0..=14usize {
                if !ctx.mine((round * 1000 + ki as u64 * 20 + k as u64) as u64) {
                    continue;
                }
                let (rem, chg, ext) = match *kind {
                    "removed" => (k, 0, 0),
                    "changed" => (0, k, 0),
                    "appended" => (0, 0, k),
                    _ => {
                        let a = r.usize(k + 1);
                        let b = r.usize(k - a + 1);
                        (a, b, k - a - b)
                    }
                };
                let mask = r.next_u64();
                let Some(edited) = edited_instance(&sig_list, mask, rem, chg, ext, &mut r) else { continue };
                // self-check of the construction against the alignment optimum
                if min_errors(&edited, &sig_list) != k as u32 {
                    ctx.inconclusive("controlled edit count differs from the alignment optimum (harness)");
                    continue;
                }
                let other_inst = siggen::header_list_instance(&small, r.next_u64());
                for which in ["horder", "habsent"] {
                    let (sig, o) = if which == "horder" {
                        (
                            http::Signature { version: Version::Any, horder: sig_list.clone(), habsent: small.clone(), expsw: "Foo".into() },
                            HttpObs { version: *r.pick(&[Version::V10, Version::V11, Version::V20, Version::V30]), horder: edited.clone(), habsent: other_inst.clone(), expsw: "Foo".into() },
                        )
                    } else {
                        (
                            http::Signature { version: Version::V11, horder: small.clone(), habsent: sig_list.clone(), expsw: "".into() },
                            HttpObs { version: Version::V11, horder: other_inst.clone(), habsent: edited.clone(), expsw: "".into() },
                        )
                    };
                    let (h, a) = if which == "horder" { (exact(k as u32), exact(0)) } else { (exact(0), exact(k as u32)) };
                    judge_http(ctx, "L4/controlled-edits", &o, &sig, h, a);
                    ctx.bucket(&format!("L4/{which}/{kind}/k={k}/band={:?}", band(k as u32)));
                }
                // both lists edited at once: bands add up
                if *kind != "mixed" {
                    for k2 in [0usize, 2, 3, 5, 6, 8, 9, 11, 12] {
                        let mask2 = r.next_u64();
                        let Some(e2) = edited_instance(&sig_list, mask2, 0, 0, k2, &mut r) else { continue };
                        let sig = http::Signature { version: Version::V10, horder: sig_list.clone(), habsent: sig_list.clone(), expsw: "x".into() };
                        let o = HttpObs { version: Version::V10, horder: edited.clone(), habsent: e2, expsw: "y".into() };
                        judge_http(ctx, "L4/both-lists", &o, &sig, exact(k as u32), exact(k2 as u32));
                        ctx.bucket(&format!("L4/both/{:?}+{:?}", band(k as u32), band(k2 as u32)));
                    }
                }
            }
        }
    }
}

/// All header lists up to `max_len` over the given header variants.
fn all_lists(variants: &[Header], max_len: usize) -> Vec<Vec<Header>> {
    let mut out: Vec<Vec<Header>> = vec![vec![]];
    let mut frontier: Vec<Vec<Header>> = vec![vec![]];
    for _ in 0..max_len {
        let mut next = Vec::new();
        for l in &frontier {
            for v in variants {
                let mut n = l.clone();
                n.push(v.clone());
                next.push(n);
            }
        }
        out.extend(next.iter().cloned());
        frontier = next;
    }
    out
}

fn header_exhaustive(ctx: &mut Ctx) {
    let names = ["A", "B", "C", "D"];
    let mut sig_variants = Vec::new();
    let mut obs_variants = Vec::new();
    for n in names {
        for opt in [false, true] {
            for val in [None, Some("x")] {
                sig_variants.push(Header { optional: opt, name: n.into(), value: val.map(String::from) });
            }
        }
        for val in [None, Some("x")] {
            obs_variants.push(Header { optional: false, name: n.into(), value: val.map(String::from) });
        }
    }
    let (sig_len, obs_len) = if ctx.miri() { (1, 1) } else { (4, 4) };
    // thorough: (sig<=3 x obs<=4) and (sig==4 x obs<=3) completely; quick: a strided sample of both
    let sigs = all_lists(&sig_variants, sig_len);
    let obss = all_lists(&obs_variants, obs_len);
    let stride: u64 = ctx.scale(23, 1, 1);
    let mut idx: u64 = ctx.shard as u64 * 31;
    let mut pairs: u64 = 0;
    let mut above: u64 = 0;
    for (si, s) in sigs.iter().enumerate() {
        if si as u64 % ctx.nshards as u64 != ctx.shard as u64 {
            continue;
        }
        let sig_h = http::Signature { version: Version::V11, horder: s.clone(), habsent: vec![], expsw: String::new() };
        let sig_a = http::Signature { version: Version::V11, horder: vec![], habsent: s.clone(), expsw: String::new() };
        for o in obss.iter() {
            if s.len() == 4 && o.len() == 4 {
                continue; // 4 x 4 is beyond the budget (269 M pairs); covered by the random part
            }
            idx += 1;
            if idx % stride != 0 {
                continue;
            }
            pairs += 1;
            let b = list_bounds(o, s);
            let obs_h = HttpObs { version: Version::V11, horder: o.clone(), habsent: vec![], expsw: String::new() };
            let d1 = judge_http(ctx, "L4/exhaustive-small-lists(horder)", &obs_h, &sig_h, b, exact(0));
            let obs_a = HttpObs { version: Version::V11, horder: vec![], habsent: o.clone(), expsw: String::new() };
            let d2 = judge_http(ctx, "L4/exhaustive-small-lists(habsent)", &obs_a, &sig_a, exact(0), b);
            ctx.judge(d1 == d2, &[], "horder and habsent lists are compared differently", || {
                json!({"signature_list": siggen::http_sig_text(&sig_h), "observed_list": obs_h.text(), "as_horder": format!("{d1:?}"), "as_habsent": format!("{d2:?}")})
            });
            if let Some(Some(d)) = d1 {
                if Some(d) != band(b.lo) {
                    above += 1; // tolerated: the library's left-to-right alignment is not the optimum
                }
            }
            if pairs % 64 == 0 {
                ctx.bucket(&format!("L4/small/sig{}-obs{}/kmin{}-kmax{}", s.len(), o.len(), b.lo, b.hi));
            }
        }
    }
    ctx.class_n("L4/small-list pairs", pairs);
    ctx.class_n("L4/small-list pairs where the library's band is above the band of the optimal alignment (tolerated)", above);
    if ctx.thorough() {
        ctx.exhaustive("header lists: all pairs (signature list <= 3 x observed list <= 4) and (signature list of 4 x observed list <= 3) over names A-D with optional marks and values {none, x}: result within the bands of [alignment optimum, trivial upper bound], identical for horder and habsent, no panic");
    }
}

fn http_random(ctx: &mut Ctx) {
    let n = ctx.scale(300_000, 10_000_000, 20) / ctx.nshards as u64 + 1;
    let mut r = ctx.rng(125);
    for _ in 0..n {
        let wild = *r.pick(&[0u64, 40, 100]);
        let version = if r.chance(wild, 100) { Version::Any } else { *r.pick(&[Version::V10, Version::V11, Version::V20, Version::V30]) };
        let hmax = if r.chance(1, 5) { 20 } else { 9 };
        let sig = http::Signature {
            version,
            horder: siggen::gen_header_list(&mut r, 0, hmax, 30, 50, false),
            habsent: siggen::gen_header_list(&mut r, 0, 5, 15, 10, false),
            expsw: r.pick(&siggen::SOFTWARE).to_string(),
        };
        http_laws_for(ctx, &sig, &mut r, "random", 3);
    }
}

fn http_laws_for(ctx: &mut Ctx, sig: &http::Signature, r: &mut Rng, origin: &str, per_filling: usize) {
    if !distinct_names(&sig.horder) || !distinct_names(&sig.habsent) {
        ctx.class("http signature with repeated header names: instances not judged");
        return;
    }
    for inst in siggen::http_instances(sig, r, per_filling) {
        // L1 (the software string embeds the expected substring: see the open expsw finding)
        let d_inst = judge_http(ctx, "L1/instance", &inst, sig, exact(0), exact(0));
        if d_inst == Some(Some(0)) {
            // at the lookup: a request / response database holding just this signature
            let req = inst.req();
            let coll = huginn_net_db::db::FingerprintCollection::new(vec![(siggen::gen_label(r, 0), vec![sig.clone()])]);
            let got = rt::guard(|| huginn_net_db::db_matching_trait::FingerprintDb::find_best_match(&coll, &req).map(|(_, s, q)| (s == sig, q)));
            ctx.judge(got == Ok(Some((true, 1.0))), &[], "an instance is not matched (quality 1.0) by a database holding only its signature", || {
                json!({"signature": siggen::http_sig_text(sig), "instance": inst.text(), "lookup": format!("{got:?}"), "table": "http request"})
            });
            let resp = inst.resp();
            let coll = huginn_net_db::db::FingerprintCollection::new(vec![(siggen::gen_label(r, 0), vec![sig.clone()])]);
            let got = rt::guard(|| huginn_net_db::db_matching_trait::FingerprintDb::find_best_match(&coll, &resp).map(|(_, s, q)| (s == sig, q)));
            ctx.judge(got == Ok(Some((true, 1.0))), &[], "an instance is not matched (quality 1.0) by a database holding only its signature", || {
                json!({"signature": siggen::http_sig_text(sig), "instance": inst.text(), "lookup": format!("{got:?}"), "table": "http response"})
            });
        }
        let q = DatabaseSignature::<HttpRequestObservation>::get_quality_score(sig, 0);
        ctx.judge(q == 1.0, &[], "quality of distance 0 is not 1.0", || json!({"quality": q}));
        ctx.bucket(&format!(
            "L1/http/{origin}/sigv{}/obsv{}/opt{}/sw-{}",
            siggen::http_version_text(sig.version),
            siggen::http_version_text(inst.version),
            (siggen::optional_count(&sig.horder) + siggen::optional_count(&sig.habsent)).min(3),
            if inst.expsw == sig.expsw { "equal" } else { "embedded" }
        ));
        if ctx.want_sample() && inst.expsw != sig.expsw {
            ctx.sample(json!({"law": "L1", "signature": siggen::http_sig_text(sig), "instance": inst.text()}));
        }
        // L2: version is decisive
        if sig.version != Version::Any {
            for v in [Version::V10, Version::V11, Version::V20, Version::V30] {
                if v != inst.version {
                    let mut o = inst.clone();
                    o.version = v;
                    judge_http(ctx, "L2/version", &o, sig, exact(0), exact(0));
                    ctx.bucket(&format!("L2/http/sigv{}/obsv{}", siggen::http_version_text(sig.version), siggen::http_version_text(v)));
                }
            }
        }
        // L3: software string changed
        for k in 0..2 {
            let mut o = inst.clone();
            o.expsw = match k {
                0 => format!("{}#", r.pick(&siggen::SOFTWARE)),
                _ => {
                    if sig.expsw.is_empty() {
                        "???".to_string()
                    } else {
                        let mut t = sig.expsw.clone();
                        t.pop();
                        t
                    }
                }
            };
            judge_http(ctx, "L3/expsw", &o, sig, exact(0), exact(0));
        }
        // random perturbations: bounded by the alignment optimum
        let k = r.usize(siggen::HTTP_PERTURBATIONS.len());
        let p = siggen::http_perturb(&inst, k, r);
        let (bh, ba) = (list_bounds(&p.horder, &sig.horder), list_bounds(&p.habsent, &sig.habsent));
        let d0 = judge_http(ctx, "L3L4/perturbed", &inst, sig, exact(0), exact(0));
        let d1 = judge_http(ctx, "L3L4/perturbed", &p, sig, bh, ba);
        if let (Some(Some(d0)), Some(Some(d1))) = (d0, d1) {
            if p.expsw == inst.expsw {
                ctx.judge(d1 >= d0, &[], "a header-list difference lowered the distance", || {
                    json!({"signature": siggen::http_sig_text(sig), "instance": inst.text(), "instance_distance": d0, "perturbed": p.text(), "perturbed_distance": d1})
                });
            }
        }
        ctx.bucket(&format!("L3/http/{}", siggen::HTTP_PERTURBATIONS[k]));
    }
}

fn http_bundled(ctx: &mut Ctx) {
    let Ok(Ok(db)) = rt::guard(Database::load_default) else {
        ctx.inconclusive("bundled database does not load");
        return;
    };
    let mut idx = 1000u64;
    let per = ctx.scale(4, 30, 1) as usize;
    for entries in [&db.http_request.entries, &db.http_response.entries] {
        for (_, sigs) in entries.iter() {
            for sig in sigs {
                idx += 1;
                if ctx.mine(idx) {
                    let mut r = ctx.rng_global(126, idx);
                    http_laws_for(ctx, sig, &mut r, "bundled", per);
                }
            }
        }
    }
}

pub fn run(ctx: &mut Ctx) {
    quality_tables(ctx);
    exhaustive_ttl(ctx);
    exhaustive_wsize(ctx);
    exhaustive_scalars(ctx);
    tcp_random(ctx);
    tcp_bundled(ctx);
    expsw_cases(ctx);
    header_bands(ctx);
    header_exhaustive(ctx);
    http_random(ctx);
    http_bundled(ctx);
    if let Ok(m) = LAW_COUNTS.lock() {
        for (law, n) in m.iter() {
            ctx.class_n(&format!("law:{law}"), *n);
        }
    }
}

pub fn spec() -> PropSpec {
    PropSpec {
        id: "C12",
        run,
        shards: super::shards_16,
        rule: "the library's calculate_distance is compared with a field-by-field reference model of the p0f signature semantics and the crate's documented penalties: exhaustively over all TTL form pairs (0..255 x 0..255), all window form pairs on a boundary grid, all (mss, wscale, olen) presence/equality cases, all software-string containment cases, header lists with a controlled number of single-kind edits (0..14, bands 0-2/3-5/6-8/9-11/>=12) and all small header-list pairs (bounded by the alignment optimum), plus seeded random signature/instance pairs with one-field perturbations (decisive => None, comparable => exact penalty, otherwise never lower) and the bundled signatures; both quality tables are swept (all 2^32 distances in the thorough tier); a bucket is a distinct (law, field, form pair / edit kind / signature shape, verdict class) combination",
        assumptions: &[
            "signature TTL `N`: an observation t+d conforms iff t+d = N (hop count d); raw TTLs within 35 hops below N whose estimate differs are ambiguous (0 or +2 tolerated); database TTLs of the forms N+D and N+? are judged only against the identical / same-form value",
            "signature TTL `N-` (p0f: maximum of randomised TTLs): every observation with raw TTL <= N conforms; open finding C12-ttl-bad-form-unmatchable models the library's different answer",
            "window: same-form comparisons are exact (equal 0, different +2; %a against %b with b dividing a is ambiguous); observed raw value against `mss*N` conforms iff value = N x observed MSS, anything else costs the window penalty; all other cross-form pairs are crash-only",
            "an absent MSS / window-scale option against a literal 0 in the signature is ambiguous (p0f reads absent as 0)",
            "quirk lists that are permutations of each other are crash-only (p0f compares bit sets, the crate ordered lists)",
            "HTTP header values are compared for equality (the crate's documented error kinds); p0f's substring reading of name=[value] is not judged",
            "HTTP instances are judged only for signatures whose header names are distinct within a list; exact error counts only for controlled single-kind edits (required headers removed, values of required headers changed, foreign headers appended at the end); arbitrary list pairs must lie between the band of the optimal alignment and the band of the trivial upper bound",
            "observations with wildcard IP version / payload class / HTTP version (never emitted by an analyzer) are not judged",
        ],
        parent_stage: None,
    }
}
