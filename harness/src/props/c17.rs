//! C17 — Akamai HTTP/2 fingerprints follow the published format, incrementally too.
//!
//! Oracle: `ref_akamai`, an independent implementation of the published `S|WU|P|PS` format over
//! the harness' own frame splitter and HPACK decoder, plus the independent SHA-256.  For the
//! incremental extractor the whole history of `add_bytes` return values is compared with the rule
//! "Some exactly once, on the chunk that completes the first SETTINGS frame, equal to the one-shot
//! fingerprint of the bytes received so far; None on every other call".
//!
//! Known defects are modelled exactly (`lib_oneshot_model`, `lib_incremental_model`): a wrong
//! answer is a KNOWN-FINDING only if the finding's precondition holds on the input, the model
//! differs from the expectation and the library's answer equals the model.

use crate::h2gen as g;
use crate::h2gen::{Encoder, HeadersOpts, Indexing, PrioritySpec, RawFrame, Repr};
use crate::rt::{self, hex, Ctx, PropSpec, Rng};
use crate::sha256;
use huginn_net_http::akamai_extractor::{extract_akamai_fingerprint, extract_akamai_fingerprint_from_bytes};
use huginn_net_http::http2_fingerprint_extractor::Http2FingerprintExtractor;
use huginn_net_http::http2_parser::Http2Frame;
use serde_json::json;

pub const F_FLAGS: &str = "C17-headers-flags-unstripped";
pub const F_CONT: &str = "C17-continuation-not-reassembled";
pub const F_FORGET: &str = "C17-incremental-forgets-frames";

// ------------------------------------------------------------------------------------------------
// reference model
// ------------------------------------------------------------------------------------------------

#[derive(Clone, Debug, PartialEq, Eq)]
pub enum RefFp {
    /// no SETTINGS frame on stream 0 among the complete frames: no fingerprint
    NoSettings,
    /// outside the judged sub-domain (reason)
    Unjudged(&'static str),
    /// `ps` = None: the first HEADERS block is not complete in the bytes — PS part not judged
    Fp { s: String, wu: String, p: String, ps: Option<String> },
}

fn data_start(bytes: &[u8]) -> usize {
    if bytes.starts_with(g::PREFACE) {
        24
    } else {
        0
    }
}

fn pseudo_letter(name: &str) -> Option<&'static str> {
    match name {
        ":method" => Some("m"),
        ":path" => Some("p"),
        ":authority" => Some("a"),
        ":scheme" => Some("s"),
        ":status" => Some("st"),
        _ => None,
    }
}

/// The Akamai passive HTTP/2 client fingerprint (Shuster et al., Black Hat EU 2017) of the
/// complete frames in `frames`.
pub fn ref_akamai(frames: &[RawFrame]) -> RefFp {
    let Some(st) = frames.iter().find(|f| f.ftype == g::T_SETTINGS && f.stream == 0) else {
        return RefFp::NoSettings;
    };
    if st.payload.is_empty() {
        return RefFp::Unjudged("first SETTINGS frame has no parameters");
    }
    if st.payload.len() % 6 != 0 {
        return RefFp::Unjudged("SETTINGS length not a multiple of 6");
    }
    let s = st
        .payload
        .chunks(6)
        .map(|c| format!("{}:{}", u16::from_be_bytes([c[0], c[1]]), u32::from_be_bytes([c[2], c[3], c[4], c[5]])))
        .collect::<Vec<_>>()
        .join(";");
    let wu = match frames.iter().find(|f| f.ftype == g::T_WINDOW_UPDATE && f.stream == 0) {
        None => "00".to_string(),
        Some(f) => {
            if f.payload.len() != 4 {
                return RefFp::Unjudged("WINDOW_UPDATE length != 4");
            }
            let inc = u32::from_be_bytes([f.payload[0], f.payload[1], f.payload[2], f.payload[3]]) & 0x7fff_ffff;
            if inc == 0 {
                "00".to_string()
            } else {
                inc.to_string()
            }
        }
    };
    let mut pr: Vec<String> = Vec::new();
    for f in frames.iter().filter(|f| f.ftype == g::T_PRIORITY) {
        if f.payload.len() != 5 {
            return RefFp::Unjudged("PRIORITY length != 5");
        }
        let dep = u32::from_be_bytes([f.payload[0], f.payload[1], f.payload[2], f.payload[3]]);
        pr.push(format!("{}:{}:{}:{}", f.stream, dep >> 31, dep & 0x7fff_ffff, f.payload[4] as u32 + 1));
    }
    let p = if pr.is_empty() { "0".to_string() } else { pr.join(",") };
    let ps = match frames.iter().position(|f| f.ftype == g::T_HEADERS && f.stream > 0) {
        None => Some(String::new()),
        Some(i) => {
            let h = &frames[i];
            let Some(mut block) = g::headers_fragment(h) else {
                return RefFp::Unjudged("HEADERS payload shorter than its flags require");
            };
            let mut complete = h.flags & g::F_END_HEADERS != 0;
            let mut k = i + 1;
            while !complete && k < frames.len() {
                let f = &frames[k];
                if f.ftype != g::T_CONTINUATION || f.stream != h.stream {
                    return RefFp::Unjudged("header block interrupted by another frame");
                }
                block.extend_from_slice(&f.payload);
                complete = f.flags & g::F_END_HEADERS != 0;
                k += 1;
            }
            if !complete {
                None
            } else {
                let Ok(list) = g::Decoder::new().decode(&block) else {
                    return RefFp::Unjudged("header block is not valid HPACK");
                };
                let mut letters = Vec::new();
                for (n, _) in &list {
                    if n.first() == Some(&b':') {
                        match std::str::from_utf8(n).ok().and_then(pseudo_letter) {
                            Some(l) => letters.push(l),
                            None => return RefFp::Unjudged("unknown pseudo-header"),
                        }
                    }
                }
                Some(letters.join(","))
            }
        }
    };
    RefFp::Fp { s, wu, p, ps }
}

fn hash_of(fp: &str) -> String {
    sha256::hex_prefix(fp.as_bytes(), 32)
}

// ------------------------------------------------------------------------------------------------
// model of the library under the open findings
// ------------------------------------------------------------------------------------------------

#[derive(Clone, Copy, Debug)]
pub struct Quirks {
    /// PS decoded from the raw HEADERS payload (Pad Length / priority fields / padding included)
    pub unstripped: bool,
    /// PS decoded from the HEADERS frame's fragment alone (CONTINUATION frames ignored)
    pub first_fragment_only: bool,
    /// the incremental extractor fingerprints only the frames parsed in the current call
    pub forget: bool,
}

impl Quirks {
    fn open(ctx: &Ctx) -> Quirks {
        Quirks { unstripped: ctx.finding_open(F_FLAGS), first_fragment_only: ctx.finding_open(F_CONT), forget: ctx.finding_open(F_FORGET) }
    }
}

/// Fingerprint string the library is predicted to produce for these frames (None = no fingerprint).
pub fn lib_oneshot_model(frames: &[RawFrame], q: Quirks) -> Option<String> {
    let st = frames.iter().find(|f| f.ftype == g::T_SETTINGS && f.stream == 0)?;
    let pairs: Vec<String> = st
        .payload
        .chunks_exact(6)
        .map(|c| format!("{}:{}", u16::from_be_bytes([c[0], c[1]]), u32::from_be_bytes([c[2], c[3], c[4], c[5]])))
        .collect();
    if pairs.is_empty() {
        return None;
    }
    let wu = frames
        .iter()
        .find(|f| f.ftype == g::T_WINDOW_UPDATE && f.stream == 0)
        .and_then(|f| if f.payload.len() < 4 { None } else { Some(u32::from_be_bytes([f.payload[0] & 0x7f, f.payload[1], f.payload[2], f.payload[3]])) })
        .unwrap_or(0);
    let wu = if wu == 0 { "00".to_string() } else { wu.to_string() };
    let pr: Vec<String> = frames
        .iter()
        .filter(|f| f.ftype == g::T_PRIORITY && f.payload.len() >= 5)
        .map(|f| {
            let dep = u32::from_be_bytes([f.payload[0], f.payload[1], f.payload[2], f.payload[3]]);
            format!("{}:{}:{}:{}", f.stream, dep >> 31, dep & 0x7fff_ffff, f.payload[4] as u32 + 1)
        })
        .collect();
    let p = if pr.is_empty() { "0".to_string() } else { pr.join(",") };
    let mut ps = String::new();
    if let Some(i) = frames.iter().position(|f| f.ftype == g::T_HEADERS && f.stream > 0) {
        let h = &frames[i];
        let frag = if q.unstripped { Some(h.payload.clone()) } else { g::headers_fragment(h) };
        if let Some(mut block) = frag {
            if !q.first_fragment_only {
                let mut complete = h.flags & g::F_END_HEADERS != 0;
                let mut k = i + 1;
                while !complete && k < frames.len() && frames[k].ftype == g::T_CONTINUATION && frames[k].stream == h.stream {
                    block.extend_from_slice(&frames[k].payload);
                    complete = frames[k].flags & g::F_END_HEADERS != 0;
                    k += 1;
                }
            }
            if let Ok(list) = g::Decoder::new().decode(&block) {
                let mut letters: Vec<String> = Vec::new();
                for (n, v) in &list {
                    let (Ok(n), Ok(_)) = (std::str::from_utf8(n), std::str::from_utf8(v)) else { continue };
                    if n.starts_with(':') {
                        letters.push(pseudo_letter(n).map(|l| l.to_string()).unwrap_or_else(|| format!("?{n}")));
                    }
                }
                ps = letters.join(",");
            }
        }
    }
    Some(format!("{}|{}|{}|{}", pairs.join(";"), wu, p, ps))
}

/// Predicted return values of `add_bytes` for the chunking given by the chunk end offsets.
pub fn lib_incremental_model(bytes: &[u8], ends: &[usize], q: Quirks) -> Vec<Option<String>> {
    let mut out = Vec::with_capacity(ends.len());
    let mut parsed_offset = 0usize;
    let mut done = false;
    for &e in ends {
        if done {
            out.push(None);
            continue;
        }
        let buf = &bytes[..e];
        let start = if parsed_offset == 0 && buf.starts_with(g::PREFACE) { 24 } else { parsed_offset };
        let mut res = None;
        if buf.len() - start >= 9 {
            let frames = g::split_frames(&buf[start..], g::MAX_FRAME);
            if let Some(last) = frames.last() {
                parsed_offset = start + last.end;
                res = if q.forget {
                    lib_oneshot_model(&frames, q)
                } else {
                    lib_oneshot_model(&g::split_frames(&buf[data_start(buf)..], g::MAX_FRAME), q)
                };
            }
        }
        if res.is_some() {
            done = true;
        }
        out.push(res);
    }
    out
}

// ------------------------------------------------------------------------------------------------
// stream description (for buckets and preconditions)
// ------------------------------------------------------------------------------------------------

struct Info {
    frames: Vec<RawFrame>,
    start: usize,
    s_class: &'static str,
    wu_class: &'static str,
    p_class: String,
    h_class: String,
    before_settings: bool,
    pre_flags: bool,
    pre_cont: bool,
}

fn describe(bytes: &[u8]) -> Info {
    let start = data_start(bytes);
    let frames = g::split_frames(&bytes[start..], g::MAX_FRAME);
    let si = frames.iter().position(|f| f.ftype == g::T_SETTINGS && f.stream == 0);
    let s_class = match si {
        None => "none",
        Some(i) => {
            let ids: Vec<u16> = frames[i].payload.chunks_exact(6).map(|c| u16::from_be_bytes([c[0], c[1]])).collect();
            let mut sorted = ids.clone();
            sorted.sort_unstable();
            let dup = sorted.windows(2).any(|w| w[0] == w[1]);
            let unknown = ids.iter().any(|i| !(1..=6).contains(i));
            match (ids.is_empty(), dup, unknown) {
                (true, _, _) => "empty",
                (_, true, true) => "dup+unknown",
                (_, true, false) => "dup",
                (_, false, true) => "unknown-id",
                _ => "known",
            }
        }
    };
    let wus: Vec<&RawFrame> = frames.iter().filter(|f| f.ftype == g::T_WINDOW_UPDATE).collect();
    let wu_class = match wus.iter().find(|f| f.stream == 0) {
        None => {
            if wus.is_empty() {
                "absent"
            } else {
                "stream-only"
            }
        }
        Some(f) if f.payload.len() == 4 => {
            let raw = u32::from_be_bytes([f.payload[0], f.payload[1], f.payload[2], f.payload[3]]);
            let first_is_stream = wus[0].stream != 0;
            match (raw & 0x7fff_ffff == 0, raw >> 31 == 1, first_is_stream) {
                (true, false, _) => "zero",
                (true, true, _) => "zero+rbit",
                (false, true, _) => "value+rbit",
                (false, false, true) => "value-after-stream-wu",
                (false, false, false) => "value",
            }
        }
        Some(_) => "bad-length",
    };
    let prs: Vec<&RawFrame> = frames.iter().filter(|f| f.ftype == g::T_PRIORITY).collect();
    let excl = prs.iter().any(|f| f.payload.first().map(|b| b & 0x80 != 0).unwrap_or(false));
    let p_class = format!("{}{}", match prs.len() { 0 => "0", 1 => "1", 2..=4 => "2-4", _ => "5+" }, if excl { "E" } else { "" });
    let hi = frames.iter().position(|f| f.ftype == g::T_HEADERS && f.stream > 0);
    let (h_class, pre_flags, pre_cont) = match hi {
        None => ("none".to_string(), false, false),
        Some(i) => {
            let f = &frames[i];
            let padded = f.flags & g::F_PADDED != 0;
            let prio = f.flags & g::F_PRIORITY != 0;
            let cont = f.flags & g::F_END_HEADERS == 0;
            let mut c = String::new();
            if padded {
                c.push_str("padded+");
            }
            if prio {
                c.push_str("priority+");
            }
            if cont {
                c.push_str("cont+");
            }
            if c.is_empty() {
                c.push_str("plain+");
            }
            c.pop();
            if si.map(|s| i < s).unwrap_or(false) {
                c.push_str("@before-settings");
            }
            (c, padded || prio, cont)
        }
    };
    Info { before_settings: si.map(|i| i > 0).unwrap_or(false), frames, start, s_class, wu_class, p_class, h_class, pre_flags, pre_cont }
}

// ------------------------------------------------------------------------------------------------
// checks
// ------------------------------------------------------------------------------------------------

fn expected_pair(r: &RefFp) -> Option<Option<(String, Option<String>)>> {
    // outer None = unjudged; inner None = no fingerprint; (prefix "S|WU|P|", Some(ps))
    match r {
        RefFp::Unjudged(_) => None,
        RefFp::NoSettings => Some(None),
        RefFp::Fp { s, wu, p, ps } => Some(Some((format!("{s}|{wu}|{p}|"), ps.clone()))),
    }
}

/// Does the library's (fingerprint, hash) equal the expectation?  With an unjudged PS part only the
/// `S|WU|P|` prefix and the hash-of-own-string are compared.
fn matches(actual: &Option<(String, String)>, exp: &Option<(String, Option<String>)>) -> bool {
    match (actual, exp) {
        (None, None) => true,
        (Some((fp, h)), Some((prefix, ps))) => {
            let body_ok = match ps {
                Some(ps) => fp == &format!("{prefix}{ps}"),
                None => fp.starts_with(prefix.as_str()) && !fp[prefix.len()..].contains('|'),
            };
            body_ok && h == &hash_of(fp)
        }
        _ => false,
    }
}

fn show_exp(exp: &Option<(String, Option<String>)>) -> String {
    match exp {
        None => "None".into(),
        Some((p, Some(ps))) => format!("{p}{ps} hash={}", hash_of(&format!("{p}{ps}"))),
        Some((p, None)) => format!("{p}<PS not judged>"),
    }
}

fn one_shot(ctx: &mut Ctx, bytes: &[u8], tag: &str) -> bool {
    let info = describe(bytes);
    let r = ref_akamai(&info.frames);
    let Some(exp) = expected_pair(&r) else {
        let g1 = rt::guard(|| extract_akamai_fingerprint_from_bytes(bytes).map(|f| f.fingerprint));
        ctx.judge(g1.is_ok(), &[], "panic in extract_akamai_fingerprint_from_bytes (unjudged input)", || json!({"bytes_hex": hex(bytes), "panic": g1.clone().err()}));
        ctx.class("oneshot/crash-only");
        if let RefFp::Unjudged(why) = r {
            ctx.bucket(&format!("oneshot|unjudged|{why}"));
        }
        return false;
    };
    let q = Quirks::open(ctx);
    let lib_frames: Vec<Http2Frame> = info.frames.iter().map(|f| Http2Frame::new(f.ftype, f.flags, f.stream, f.payload.clone())).collect();
    let results = [
        ("from_bytes", rt::guard(|| extract_akamai_fingerprint_from_bytes(bytes).map(|f| (f.fingerprint, f.hash)))),
        ("from_frames", rt::guard(|| extract_akamai_fingerprint(&lib_frames).map(|f| (f.fingerprint, f.hash)))),
    ];
    let mut oc = Vec::new();
    for (api, res) in results {
        let actual = match res {
            Ok(a) => a,
            Err(p) => {
                ctx.judge(false, &[], "panic in the Akamai extractor", || json!({"api": api, "bytes_hex": hex(bytes), "panic": p}));
                continue;
            }
        };
        let ok = matches(&actual, &exp);
        let mut dev = false;
        let mut model_s = String::new();
        if !ok {
            let model = lib_oneshot_model(&info.frames, q).map(|m| {
                let h = hash_of(&m);
                (m, h)
            });
            dev = !matches(&model, &exp) && model == actual;
            model_s = format!("{model:?}");
        }
        let devs = [(F_FLAGS, dev && info.pre_flags), (F_CONT, dev && info.pre_cont)];
        oc.push(if ok {
            "ok".to_string()
        } else if let Some((id, _)) = devs.iter().find(|(id, m)| *m && ctx.finding_open(id)) {
            format!("known:{id}")
        } else {
            "VIOLATION".into()
        });
        ctx.judge(ok, &devs, "Akamai fingerprint differs from the published format", || {
            json!({
                "api": api, "workload": tag, "bytes_hex": hex(bytes),
                "frames": info.frames.iter().map(|f| format!("type={} flags={:#x} stream={} len={}", f.ftype, f.flags, f.stream, f.payload.len())).collect::<Vec<_>>(),
                "expected": show_exp(&exp), "actual": format!("{actual:?}"), "model_of_open_findings": model_s,
            })
        });
    }
    ctx.bucket(&format!(
        "oneshot|{tag}|preface={}|S={}|WU={}|P={}|H={}|beforeS={}|{}",
        info.start == 24,
        info.s_class,
        info.wu_class,
        info.p_class,
        info.h_class,
        info.before_settings,
        oc.join("/")
    ));
    ctx.class(&format!("oneshot/{tag}"));
    if ctx.want_sample() && ctx.shard == 0 && info.frames.len() >= 4 {
        ctx.sample(json!({"workload": tag, "bytes_hex": hex(bytes), "expected": show_exp(&exp), "outcome": oc}));
    }
    true
}

/// Position class of a chunk boundary relative to the first SETTINGS frame and the frame grid.
fn cut_class(info: &Info, cut: usize) -> String {
    if cut < info.start {
        return "in-preface".into();
    }
    let rel = cut - info.start;
    let on_boundary = rel == 0 || info.frames.iter().any(|f| f.end == rel);
    let si = info.frames.iter().find(|f| f.ftype == g::T_SETTINGS && f.stream == 0);
    let pos = match si {
        None => "no-settings",
        Some(f) => {
            if rel <= f.start {
                "before-settings"
            } else if rel < f.start + 9 {
                "in-settings-header"
            } else if rel < f.end {
                "in-settings-payload"
            } else if rel == f.end {
                "at-settings-end"
            } else {
                "after-settings"
            }
        }
    };
    format!("{pos}{}", if on_boundary { "/frame-boundary" } else { "/mid-frame" })
}

/// One chunking of one stream.  `cuts` are strictly increasing positions in 1..len.
thread_local! {
    static REUSED: std::cell::RefCell<Option<Http2FingerprintExtractor>> = const { std::cell::RefCell::new(None) };
    static REUSE_COUNTER: std::cell::Cell<u64> = const { std::cell::Cell::new(0) };
}

fn incremental(ctx: &mut Ctx, bytes: &[u8], info: &Info, cuts: &[usize], kind: &str) {
    let mut ends: Vec<usize> = cuts.to_vec();
    ends.push(bytes.len());
    // expectation
    let full = ref_akamai(&info.frames);
    let settings_end = info.frames.iter().find(|f| f.ftype == g::T_SETTINGS && f.stream == 0).map(|f| info.start + f.end);
    let mut exp: Vec<Option<(String, Option<String>)>> = vec![None; ends.len()];
    let mut cstar = None;
    match (&full, settings_end) {
        (RefFp::Unjudged(_), _) => return,
        (RefFp::NoSettings, _) | (_, None) => {}
        (RefFp::Fp { .. }, Some(se)) => {
            let c = ends.iter().position(|e| *e >= se).expect("last chunk ends at the end");
            let prefix = &bytes[..ends[c]];
            let pf = g::split_frames(&prefix[data_start(prefix)..], g::MAX_FRAME);
            match expected_pair(&ref_akamai(&pf)) {
                Some(e) => exp[c] = e,
                None => return,
            }
            cstar = Some(c);
        }
    }
    // library
    // every second history runs on an extractor that has already served other connections and
    // was reset() for this one ("Reset the extractor to process a new connection"): it must
    // behave like a new one
    let reused = REUSE_COUNTER.with(|c| {
        c.set(c.get() + 1);
        c.get() % 2 == 0
    });
    let run = rt::guard(|| {
        let mut ex = if reused {
            let mut e = REUSED.with(|e| e.borrow_mut().take()).unwrap_or_default();
            e.reset();
            e
        } else {
            Http2FingerprintExtractor::new()
        };
        let mut out: Vec<Result<Option<(String, String)>, String>> = Vec::with_capacity(ends.len());
        let mut prev = 0usize;
        for &e in &ends {
            out.push(ex.add_bytes(&bytes[prev..e]).map(|o| o.map(|f| (f.fingerprint, f.hash))).map_err(|e| format!("{e}")));
            prev = e;
        }
        let last = ex.get_fingerprint().map(|f| (f.fingerprint.clone(), f.hash.clone()));
        let flag = ex.fingerprint_extracted();
        if reused {
            REUSED.with(|e| *e.borrow_mut() = Some(ex));
        }
        (out, last, flag)
    });
    let (out, last, flag) = match run {
        Ok(x) => x,
        Err(p) => {
            ctx.judge(false, &[], "panic in Http2FingerprintExtractor", || json!({"bytes_hex": hex(bytes), "chunk_ends": ends, "panic": p, "extractor_reused_after_reset": reused}));
            return;
        }
    };
    let no_err = out.iter().all(|o| o.is_ok());
    let actual: Vec<Option<(String, String)>> = out.iter().map(|o| o.clone().unwrap_or(None)).collect();
    let reported: Vec<&(String, String)> = actual.iter().flatten().collect();
    let getter_ok = match reported.first() {
        Some(f) => last.as_ref() == Some(*f) && flag,
        None => last.is_none() && !flag,
    };
    let ok = no_err && getter_ok && actual.len() == exp.len() && actual.iter().zip(exp.iter()).all(|(a, e)| matches(a, e));
    let q = Quirks::open(ctx);
    let mut dev = false;
    let mut model_s = String::new();
    if !ok && no_err && getter_ok {
        let model: Vec<Option<(String, String)>> = lib_incremental_model(bytes, &ends, q)
            .into_iter()
            .map(|m| {
                m.map(|m| {
                    let h = hash_of(&m);
                    (m, h)
                })
            })
            .collect();
        let model_ok = model.iter().zip(exp.iter()).all(|(a, e)| matches(a, e));
        dev = !model_ok && model == actual;
        model_s = format!("{model:?}");
    }
    // precondition of the forgetting defect: a complete frame ended inside an earlier chunk than
    // the one that completes the first SETTINGS frame
    let pre_forget = match cstar {
        Some(c) if c > 0 => info.frames.iter().any(|f| info.start + f.end <= ends[c - 1]),
        _ => false,
    };
    let devs = [(F_FORGET, dev && pre_forget), (F_FLAGS, dev && info.pre_flags), (F_CONT, dev && info.pre_cont)];
    let oc = if ok {
        "ok".to_string()
    } else if let Some((id, _)) = devs.iter().find(|(id, m)| *m && ctx.finding_open(id)) {
        format!("known:{id}")
    } else {
        "VIOLATION".into()
    };
    ctx.judge(ok, &devs, "incremental extractor: history of add_bytes results differs from the one-shot rule", || {
        json!({
            "bytes_hex": hex(bytes), "chunk_ends": ends, "chunking": kind, "extractor_reused_after_reset": reused,
            "frames": info.frames.iter().map(|f| format!("type={} flags={:#x} stream={} start={} end={}", f.ftype, f.flags, f.stream, info.start + f.start, info.start + f.end)).collect::<Vec<_>>(),
            "expected_history": exp.iter().map(show_exp).collect::<Vec<_>>(),
            "actual_history": out.iter().map(|o| format!("{o:?}")).collect::<Vec<_>>(),
            "get_fingerprint": format!("{last:?}"), "fingerprint_extracted": flag,
            "model_of_open_findings": model_s,
        })
    });
    let cc = if cuts.len() == 1 { cut_class(info, cuts[0]) } else { format!("k={}", match cuts.len() { 0 => "0", 2 => "2", 3..=8 => "3-8", _ => "9+" }) };
    ctx.bucket(&format!(
        "inc|{kind}|{cc}|preface={}|WU={}|P={}|H={}|beforeS={}|{oc}",
        info.start == 24,
        info.wu_class,
        info.p_class,
        info.h_class,
        info.before_settings
    ));
    ctx.class(&format!("incremental/{kind}"));
}

/// All chunkings of one stream that a tier asks for.
fn chunkings(ctx: &mut Ctx, r: &mut Rng, bytes: &[u8], level: u8) {
    let info = describe(bytes);
    let n = bytes.len();
    if n < 2 {
        return;
    }
    incremental(ctx, bytes, &info, &[], "one-chunk");
    // every 2-chunk partition
    if level >= 1 {
        for c in 1..n {
            incremental(ctx, bytes, &info, &[c], "two-chunks");
        }
        let all: Vec<usize> = (1..n).collect();
        incremental(ctx, bytes, &info, &all, "byte-by-byte");
    } else {
        for _ in 0..4 {
            let c = r.range(1, n as u64 - 1) as usize;
            incremental(ctx, bytes, &info, &[c], "two-chunks");
        }
    }
    // chunk boundaries on / next to the frame grid, all pairs
    let mut pts: Vec<usize> = Vec::new();
    for f in &info.frames {
        for d in [-1i64, 0, 1, 9] {
            let p = (info.start + f.start) as i64 + d;
            if p >= 1 && (p as usize) < n {
                pts.push(p as usize);
            }
        }
        let e = info.start + f.end;
        if e >= 1 && e < n {
            pts.push(e);
        }
    }
    pts.sort_unstable();
    pts.dedup();
    if level >= 2 {
        for i in 0..pts.len() {
            for j in i + 1..pts.len() {
                incremental(ctx, bytes, &info, &[pts[i], pts[j]], "three-chunks-grid");
            }
        }
    }
    // frame by frame
    let grid: Vec<usize> = {
        let mut v: Vec<usize> = info.frames.iter().map(|f| info.start + f.end).filter(|e| *e < n).collect();
        if info.start > 0 {
            v.insert(0, info.start);
        }
        v.dedup();
        v
    };
    if !grid.is_empty() {
        incremental(ctx, bytes, &info, &grid, "frame-by-frame");
    }
    // random k-cuts
    let reps = if level >= 2 { 12 } else { 3 };
    for _ in 0..reps {
        let k = r.range(2, 12.min(n as u64 - 1)) as usize;
        let mut cuts: Vec<usize> = (0..k).map(|_| if !pts.is_empty() && r.chance(1, 2) { *r.pick(&pts) } else { r.range(1, n as u64 - 1) as usize }).collect();
        cuts.sort_unstable();
        cuts.dedup();
        incremental(ctx, bytes, &info, &cuts, "random-k-cuts");
    }
}

// ------------------------------------------------------------------------------------------------
// generators
// ------------------------------------------------------------------------------------------------

const PROFILES: [(&str, &[(u16, u32)], u32); 7] = [
    ("chrome", &[(1, 65536), (2, 0), (4, 6291456), (6, 262144)], 15663105),
    ("chrome-old", &[(1, 65536), (3, 1000), (4, 6291456), (6, 262144)], 15663105),
    ("firefox", &[(1, 65536), (4, 131072), (5, 16384)], 12517377),
    ("safari", &[(2, 0), (4, 4194304), (3, 100)], 10485760),
    ("safari17", &[(2, 0), (3, 100), (4, 2097152), (8, 1), (9, 1)], 10420225),
    ("curl", &[(3, 100), (4, 33554432), (2, 0)], 33488897),
    ("go", &[(2, 0), (4, 4194304), (6, 10485760)], 1073741824),
];

const FIREFOX_PRIO: [(u32, bool, u32, u8); 6] = [(3, false, 0, 200), (5, false, 0, 100), (7, false, 0, 0), (9, false, 7, 0), (11, false, 3, 0), (13, false, 0, 240)];

fn pseudo_block(order: &[&str], r: Option<&mut Rng>) -> Vec<u8> {
    let mut enc = Encoder::new();
    let mut out = Vec::new();
    let mut rng = r;
    // a block may open with a dynamic table size update (RFC 7541 4.2); together with the
    // back-reference below this makes the block sensitive to decoder state that another
    // connection could have left behind
    if let Some(r) = rng.as_deref_mut() {
        if r.chance(1, 4) {
            enc.size_update(&mut out, *r.pick(&[0usize, 64, 4096, 4096]));
        }
    }
    // a client may (against RFC 7540 8.1.2.1, but decodable) put a regular field in front of
    // some pseudo-headers; PS still lists every pseudo-header of the block, in order
    let mut early: Option<usize> = None;
    if let Some(r) = rng.as_deref_mut() {
        if !order.is_empty() && r.chance(1, 5) {
            early = Some(r.usize(order.len()));
        }
    }
    for (pos, name) in order.iter().enumerate() {
        if early == Some(pos) {
            enc.field(&mut out, b"x-early", b"1", Repr::lit(Indexing::Without, false, false));
        }
        let value = match *name {
            ":method" => "GET",
            ":path" => "/",
            ":scheme" => "https",
            ":authority" => "www.example.com",
            _ => "200",
        };
        let repr = match rng.as_deref_mut() {
            None => Repr::Indexed,
            Some(r) => {
                if r.chance(1, 2) {
                    Repr::Indexed
                } else {
                    Repr::Literal {
                        indexing: *r.pick(&[Indexing::Incremental, Indexing::Without, Indexing::Never]),
                        name_ref: r.chance(1, 2),
                        huff_name: r.chance(1, 2),
                        huff_value: r.chance(1, 2),
                    }
                }
            }
        };
        enc.field(&mut out, name.as_bytes(), value.as_bytes(), repr);
    }
    let extra: &[(&str, &str)] = &[("user-agent", "Mozilla/5.0"), ("accept", "*/*"), ("accept-encoding", "gzip, deflate")];
    let n = match rng.as_deref_mut() {
        None => 2,
        Some(r) => r.usize(4),
    };
    for (k, v) in extra.iter().take(n) {
        enc.field(&mut out, k.as_bytes(), v.as_bytes(), Repr::lit(Indexing::Incremental, true, true));
    }
    if let Some(r) = rng.as_deref_mut() {
        if r.chance(1, 3) {
            // a field inserted into the dynamic table and referred back to by its index (62 in a
            // fresh table; sent as a literal again when the table has no room for it)
            let v = format!("v{}", r.below(1000));
            enc.field(&mut out, b"x-ref", v.as_bytes(), Repr::lit(Indexing::Incremental, false, false));
            enc.field(&mut out, b"x-ref", v.as_bytes(), Repr::Indexed);
        }
    }
    out
}

fn headers_variant(block: &[u8], stream: u32, variant: usize) -> Vec<u8> {
    let mut o = HeadersOpts::plain(stream);
    let pr = PrioritySpec { exclusive: true, dependency: 0, weight: 255 };
    match variant {
        0 => {}
        1 => o.pad = Some(0),
        2 => o.pad = Some(7),
        3 => o.priority = Some(pr),
        4 => {
            o.pad = Some(132);
            o.priority = Some(pr);
        }
        5 => o.cuts = vec![1],
        6 => o.cuts = vec![2, 3],
        7 => o.cuts = vec![block.len()],
        8 => {
            o.priority = Some(pr);
            o.cuts = vec![block.len() / 2];
        }
        _ => {
            o.pad = Some(3);
            o.cuts = vec![4.min(block.len())];
        }
    }
    g::headers_frames(block, &o)
}

fn gen_priority_frame(r: &mut Rng) -> Vec<u8> {
    let stream = *r.pick(&[0u32, 1, 3, 5, 7, 9, 11, 13, 0x7fff_ffff, 0x8000_0003]);
    let p = PrioritySpec { exclusive: r.chance(1, 3), dependency: *r.pick(&[0u32, 0, 3, 7, 13, 0x7fff_ffff]), weight: r.u8() };
    g::priority(stream, p)
}

fn gen_wu(r: &mut Rng) -> Vec<u8> {
    let stream = if r.chance(3, 4) { 0 } else { *r.pick(&[1u32, 3, 0x8000_0000]) };
    let inc = match r.below(8) {
        0 => 0,
        1 => 0x8000_0000,
        2 => 0xffff_ffff,
        3 => 0x8000_0001,
        4 => 1,
        5 => 0x7fff_ffff,
        6 => *r.pick(&[15663105u32, 12517377, 10485760, 33488897]),
        _ => r.u32(),
    };
    g::window_update(stream, inc)
}

fn gen_settings_pairs(r: &mut Rng) -> Vec<(u16, u32)> {
    if r.chance(1, 3) {
        return r.pick(&PROFILES).1.to_vec();
    }
    let n = r.range(1, 10) as usize;
    let mut v = Vec::new();
    for _ in 0..n {
        let id = match r.below(6) {
            0..=2 => r.range(1, 6) as u16,
            3 => *r.pick(&[0u16, 7, 8, 9, 16, 0x0a0a, 0x1a1a, 0xfafa, 0xffff]),
            4 => r.u16(),
            _ => {
                if v.is_empty() {
                    4
                } else {
                    let k: &(u16, u32) = r.pick(&v);
                    k.0
                }
            }
        };
        let val = match r.below(5) {
            0 => *r.pick(&[0u32, 1, 100, 1000, 4096, 16384, 65535, 65536, 131072, 262144, 6291456]),
            1 => *r.pick(&[0x7fff_ffffu32, 0x8000_0000, 0xffff_ffff]),
            _ => r.u32(),
        };
        v.push((id, val));
    }
    v
}

const ORDERS: [[&str; 4]; 4] = [
    [":method", ":authority", ":scheme", ":path"],
    [":method", ":path", ":authority", ":scheme"],
    [":method", ":scheme", ":path", ":authority"],
    [":method", ":scheme", ":authority", ":path"],
];

fn other_frame(r: &mut Rng) -> Vec<u8> {
    match r.below(4) {
        0 => g::ping(r.chance(1, 2), [9; 8]),
        1 => {
            let t = r.range(0x0a, 0xff) as u8;
            let n = r.below(12) as usize;
            g::frame(t, r.u8(), if r.chance(1, 2) { 0 } else { 5 }, &r.bytes(n))
        }
        2 => g::settings_ack(),
        _ => g::data(1, b"hello", false, None),
    }
}

fn gen_stream(r: &mut Rng) -> Vec<u8> {
    let mut v = if r.chance(3, 4) { g::PREFACE.to_vec() } else { Vec::new() };
    // frames before SETTINGS
    if r.chance(1, 3) {
        for _ in 0..r.range(1, 3) {
            match r.below(6) {
                0 | 1 => v.extend_from_slice(&gen_wu(r)),
                2 | 3 => v.extend_from_slice(&gen_priority_frame(r)),
                4 => v.extend_from_slice(&g::ping(false, [7; 8])),
                _ => {
                    let t = r.range(0x0a, 0xff) as u8;
                    v.extend_from_slice(&g::frame(t, 0, 0, &[1, 2, 3]));
                }
            }
        }
    }
    v.extend_from_slice(&g::settings(&gen_settings_pairs(r)));
    let mut have_headers = false;
    for _ in 0..r.below(9) {
        match r.below(10) {
            0 | 1 => v.extend_from_slice(&gen_wu(r)),
            2 | 3 | 4 => v.extend_from_slice(&gen_priority_frame(r)),
            5 => v.extend_from_slice(&g::settings(&gen_settings_pairs(r))),
            6 | 7 => {
                let mut order: Vec<&str> = r.pick(&ORDERS).to_vec();
                if r.chance(1, 3) {
                    r.shuffle(&mut order);
                }
                if r.chance(1, 6) {
                    order.retain(|n| *n != ":authority");
                }
                if r.chance(1, 10) {
                    order = vec![":status"];
                }
                let block = pseudo_block(&order, Some(r));
                let stream = if have_headers { 3 } else { *r.pick(&[1u32, 1, 3, 15, 0x8000_0001]) };
                let variant = if r.chance(1, 2) { 0 } else { r.usize(10) };
                v.extend_from_slice(&headers_variant(&block, stream, variant));
                have_headers = true;
            }
            _ => v.extend_from_slice(&other_frame(r)),
        }
    }
    if r.chance(1, 6) {
        let f = g::data(1, &r.bytes(20), true, None);
        let keep = r.range(1, f.len() as u64 - 1) as usize;
        v.extend_from_slice(&f[..keep]);
    }
    v
}

fn ref_self_check() {
    // the worked examples every Akamai-format implementation publishes
    let mut v = g::PREFACE.to_vec();
    v.extend_from_slice(&g::settings(PROFILES[0].1));
    v.extend_from_slice(&g::window_update(0, 15663105));
    let block = pseudo_block(&ORDERS[0], None);
    let mut o = HeadersOpts::plain(1);
    o.priority = Some(PrioritySpec { exclusive: true, dependency: 0, weight: 255 });
    v.extend_from_slice(&g::headers_frames(&block, &o));
    let fr = g::split_frames(&v[24..], g::MAX_FRAME);
    assert_eq!(
        ref_akamai(&fr),
        RefFp::Fp { s: "1:65536;2:0;4:6291456;6:262144".into(), wu: "15663105".into(), p: "0".into(), ps: Some("m,a,s,p".into()) },
        "C17 reference self-check (Chrome)"
    );
    let mut v = g::settings(PROFILES[2].1);
    v.extend_from_slice(&g::window_update(0, 12517377));
    for (s, e, d, w) in FIREFOX_PRIO {
        v.extend_from_slice(&g::priority(s, PrioritySpec { exclusive: e, dependency: d, weight: w }));
    }
    v.extend_from_slice(&g::headers_frames(&pseudo_block(&ORDERS[1], None), &HeadersOpts::plain(15)));
    let fr = g::split_frames(&v, g::MAX_FRAME);
    assert_eq!(
        ref_akamai(&fr),
        RefFp::Fp {
            s: "1:65536;4:131072;5:16384".into(),
            wu: "12517377".into(),
            p: "3:0:0:201,5:0:0:101,7:0:0:1,9:0:7:1,11:0:3:1,13:0:0:241".into(),
            ps: Some("m,p,a,s".into())
        },
        "C17 reference self-check (Firefox)"
    );
}

// ------------------------------------------------------------------------------------------------
// run
// ------------------------------------------------------------------------------------------------

pub fn run(ctx: &mut Ctx) {
    g::self_check();
    sha256::self_check();
    ref_self_check();
    let quick = ctx.quick();
    let mut idx: u64 = 0;
    let mut r = ctx.rng(17);

    macro_rules! each {
        ($bytes:expr, $tag:expr, $level:expr) => {{
            idx += 1;
            // under Miri (single in-process shard) only a stride of the enumerations is run
            if ctx.mine(idx) && (!ctx.miri() || idx % 211 == 0) {
                let b: Vec<u8> = $bytes;
                if one_shot(ctx, &b, $tag) {
                    chunkings(ctx, &mut r, &b, $level);
                }
            }
        }};
    }

    // X1: every PRIORITY weight 0..=255 x exclusive bit x dependency, on several streams
    for w in 0..=255u8 {
        for excl in [false, true] {
            for (stream, dep) in [(3u32, 0u32), (0x7fff_ffff, 0x7fff_ffff), (0, 1)] {
                each!(
                    {
                        let mut v = if w % 2 == 0 { g::PREFACE.to_vec() } else { Vec::new() };
                        v.extend_from_slice(&g::settings(PROFILES[2].1));
                        v.extend_from_slice(&g::priority(stream, PrioritySpec { exclusive: excl, dependency: dep, weight: w }));
                        v
                    },
                    "priority-weights",
                    0
                );
            }
        }
    }
    ctx.exhaustive("every PRIORITY weight 0..=255 x exclusive bit x 3 (stream, dependency) pairs");

    // X1b: a frame of (nearly) the largest legal size, 16370..=16384 octets of payload, in front of
    // or between the frames that matter: DATA, an extension type, a full-size SETTINGS
    for len in 16370..=16384usize {
        for (k, t) in [0u8, 0x0b, 0x09].iter().enumerate() {
            each!(
                {
                    let mut v = if len % 2 == 0 { g::PREFACE.to_vec() } else { Vec::new() };
                    let big = g::frame(*t, 0, 1, &vec![0x42; len]);
                    let prof = PROFILES[(len + k) % PROFILES.len()];
                    if k == 1 {
                        v.extend_from_slice(&big);
                    }
                    v.extend_from_slice(&g::settings(prof.1));
                    if k != 1 {
                        v.extend_from_slice(&big);
                    }
                    v.extend_from_slice(&g::window_update(0, prof.2));
                    v.extend_from_slice(&g::priority(3, PrioritySpec { exclusive: false, dependency: 0, weight: 200 }));
                    v
                },
                "boundary-size-frame",
                0
            );
        }
    }

    // X2: every pseudo-header order x every HEADERS framing variant
    let names = [":method", ":path", ":authority", ":scheme"];
    for p in permutations(4) {
        let order: Vec<&str> = p.iter().map(|k| names[*k]).collect();
        for variant in 0..10usize {
            for (pi, prof) in PROFILES.iter().enumerate() {
                if quick && (pi + variant + p[0]) % 4 != 0 {
                    continue;
                }
                each!(
                    {
                        let mut v = g::PREFACE.to_vec();
                        v.extend_from_slice(&g::settings(prof.1));
                        v.extend_from_slice(&g::window_update(0, prof.2));
                        if prof.0 == "firefox" {
                            for (s, e, d, w) in FIREFOX_PRIO {
                                v.extend_from_slice(&g::priority(s, PrioritySpec { exclusive: e, dependency: d, weight: w }));
                            }
                        }
                        let block = pseudo_block(&order, None);
                        v.extend_from_slice(&headers_variant(&block, if prof.0 == "firefox" { 15 } else { 1 }, variant));
                        v
                    },
                    "pseudo-order-x-framing",
                    if variant < 5 { 1 } else { 2 }
                );
            }
        }
    }
    ctx.exhaustive("all 24 pseudo-header orders x 10 HEADERS framings (PADDED/PRIORITY/CONTINUATION) over browser SETTINGS profiles; every 2-chunk partition and byte-by-byte for each");

    // X3: WINDOW_UPDATE variants x position relative to SETTINGS
    let incs = [0u32, 1, 15663105, 0x7fff_ffff, 0x8000_0000, 0x8000_0001, 0xffff_ffff];
    for inc in incs {
        for placement in 0..6u8 {
            for with_preface in [true, false] {
                each!(
                    {
                        let mut v = if with_preface { g::PREFACE.to_vec() } else { Vec::new() };
                        let st = g::settings(PROFILES[0].1);
                        let wu0 = g::window_update(0, inc);
                        let wus = g::window_update(3, 424242);
                        match placement {
                            0 => {
                                v.extend_from_slice(&st);
                                v.extend_from_slice(&wu0);
                            }
                            1 => {
                                v.extend_from_slice(&wu0);
                                v.extend_from_slice(&st);
                            }
                            2 => {
                                v.extend_from_slice(&st);
                                v.extend_from_slice(&wus);
                                v.extend_from_slice(&wu0);
                            }
                            3 => {
                                v.extend_from_slice(&st);
                                v.extend_from_slice(&wus);
                            }
                            4 => {
                                v.extend_from_slice(&st);
                                v.extend_from_slice(&wu0);
                                v.extend_from_slice(&g::window_update(0, 777));
                            }
                            _ => {
                                v.extend_from_slice(&g::priority(3, PrioritySpec { exclusive: false, dependency: 0, weight: 200 }));
                                v.extend_from_slice(&wu0);
                                v.extend_from_slice(&g::ping(false, [1; 8]));
                                v.extend_from_slice(&st);
                                v.extend_from_slice(&g::priority(5, PrioritySpec { exclusive: true, dependency: 3, weight: 0 }));
                            }
                        }
                        v.extend_from_slice(&headers_variant(&pseudo_block(&ORDERS[0], None), 1, 0));
                        v
                    },
                    "window-update",
                    2
                );
            }
        }
    }

    // X4: SETTINGS identifiers and values: every id 0..=20 and high ids, boundary values,
    // duplicates, a second SETTINGS frame that must be ignored, SETTINGS on a non-zero stream
    let ids: Vec<u16> = (0..=20u16).chain([0x0a0a, 0x7fff, 0x8000, 0xfffe, 0xffff]).collect();
    for id in &ids {
        for val in [0u32, 1, 65535, 0x7fff_ffff, 0x8000_0000, 0xffff_ffff] {
            each!(
                {
                    let mut v = g::PREFACE.to_vec();
                    v.extend_from_slice(&g::settings(&[(*id, val), (4, 65535), (*id, val ^ 1)]));
                    v.extend_from_slice(&g::settings(&[(1, 1)]));
                    v.extend_from_slice(&g::window_update(0, 5));
                    v
                },
                "settings-ids",
                if quick { 0 } else { 1 }
            );
        }
    }
    for k in 0..4u8 {
        each!(
            {
                // no SETTINGS at all / only an ACK / SETTINGS after an ACK / SETTINGS on stream 1
                let mut v = g::PREFACE.to_vec();
                match k {
                    0 => v.extend_from_slice(&g::window_update(0, 5)),
                    1 => v.extend_from_slice(&g::settings_ack()),
                    2 => {
                        v.extend_from_slice(&g::settings_ack());
                        v.extend_from_slice(&g::settings(&[(1, 2)]));
                    }
                    _ => {
                        v.extend_from_slice(&g::frame(g::T_SETTINGS, 0, 1, &g::settings_payload(&[(3, 4)])));
                        v.extend_from_slice(&g::settings(&[(1, 2)]));
                    }
                }
                v.extend_from_slice(&headers_variant(&pseudo_block(&ORDERS[1], None), 1, 0));
                v
            },
            "settings-presence",
            1
        );
    }

    // R: seeded random streams
    let n = ctx.scale(10_000, 400_000, 20) / ctx.nshards as u64 + 1;
    let mut rr = ctx.rng(1700);
    for k in 0..n {
        let b = gen_stream(&mut rr);
        if one_shot(ctx, &b, "random") {
            let level = if b.len() <= 160 { 2 } else if b.len() <= 400 { 1 } else { 0 };
            chunkings(ctx, &mut rr, &b, if quick && k % 4 != 0 { level.min(1) } else { level });
        }
        if k % 64 == 0 {
            rt::progress(ctx, &format!("random stream {k}/{n}"));
        }
    }

    // crash-only: malformed control frames and random octets, one-shot and chunked
    let m = ctx.scale(20_000, 400_000, 30) / ctx.nshards as u64 + 1;
    for _ in 0..m {
        let mut v = if rr.chance(1, 2) { g::PREFACE.to_vec() } else { Vec::new() };
        for _ in 0..rr.range(1, 5) {
            let t = *rr.pick(&[g::T_SETTINGS, g::T_WINDOW_UPDATE, g::T_PRIORITY, g::T_HEADERS, g::T_CONTINUATION, 0x40]);
            let n = rr.below(14) as usize;
            v.extend_from_slice(&g::frame(t, rr.u8(), if rr.chance(1, 2) { 0 } else { 1 }, &rr.bytes(n)));
        }
        let cuts: Vec<usize> = {
            let mut c: Vec<usize> = (0..rr.below(4)).map(|_| rr.range(1, v.len() as u64 - 1) as usize).collect();
            c.sort_unstable();
            c.dedup();
            c
        };
        let res = rt::guard(|| {
            let _ = extract_akamai_fingerprint_from_bytes(&v);
            let mut ex = Http2FingerprintExtractor::new();
            let mut prev = 0;
            for c in cuts.iter().copied().chain(std::iter::once(v.len())) {
                let _ = ex.add_bytes(&v[prev..c]);
                prev = c;
            }
        });
        ctx.judge(res.is_ok(), &[], "panic in the Akamai extractors on malformed frames", || json!({"bytes_hex": hex(&v), "cuts": cuts, "panic": res.clone().err()}));
        ctx.class("crash-only/malformed-frames");
    }
    oversized_frames(ctx);
}

/// Streams with a frame larger than the default SETTINGS_MAX_FRAME_SIZE (16385..20000 octets of
/// payload) in front of, between or behind the frames that matter.  What the fingerprint of such
/// a stream is lies outside the reference's domain, but the incremental rule does not need it:
/// whatever the one-shot extraction makes of the bytes received so far is what the incremental
/// extractor has to report, once, on the first chunk for which the one-shot extraction of the
/// prefix yields a fingerprint.
fn oversized_frames(ctx: &mut Ctx) {
    let n = ctx.scale(400, 6000, 1) / ctx.nshards as u64 + 1;
    let mut r = ctx.rng(177);
    for _ in 0..n {
        let mut parts: Vec<Vec<u8>> = Vec::new();
        let prof = PROFILES[r.usize(PROFILES.len())];
        parts.push(g::settings(prof.1));
        if r.chance(2, 3) {
            parts.push(g::window_update(0, prof.2));
        }
        for _ in 0..r.below(3) {
            parts.push(g::priority(3 + 2 * r.below(5) as u32, PrioritySpec { exclusive: r.chance(1, 2), dependency: 0, weight: r.u8() }));
        }
        if r.chance(1, 2) {
            let block = pseudo_block(&[":method", ":authority", ":scheme", ":path"], Some(&mut r));
            parts.push(g::headers_frames(&block, &HeadersOpts::plain(1)));
        }
        // the oversized frame: an extension type, DATA on an idle stream, or a padded PING-like blob
        let big_len = 16385 + r.usize(3700);
        let big = g::frame(*r.pick(&[0x0bu8, 0x10, 0x00, 0xfe]), 0, if r.chance(1, 2) { 0 } else { 1 }, &vec![0x5a; big_len]);
        let pos = r.usize(parts.len() + 1);
        // every fourth stream carries, instead, a run of legal full-size DATA frames that makes
        // the prefix up to the first SETTINGS frame (or the frames after it that arrive in the
        // same chunk) longer than 64 KiB
        let long_prefix = r.chance(1, 4);
        if long_prefix {
            let k = 3 + r.usize(4);
            let mut run = Vec::new();
            for i in 0..k {
                let len = if i + 1 == k { 16384 - r.usize(40) } else { 16384 };
                run.extend_from_slice(&g::frame(0x00, 0, 1 + 2 * r.below(3) as u32, &vec![0x44; len]));
            }
            parts.insert(pos, run);
        } else {
            parts.insert(pos, big);
        }
        let mut bytes = if r.chance(1, 2) { g::PREFACE.to_vec() } else { Vec::new() };
        for p in &parts {
            bytes.extend_from_slice(p);
        }
        // chunkings: whole, at frame boundaries, random
        let mut bounds = Vec::new();
        let mut o = bytes.len() - parts.iter().map(|p| p.len()).sum::<usize>();
        for p in &parts {
            o += p.len();
            bounds.push(o);
        }
        if long_prefix {
            let info = describe(&bytes);
            let cuts: Vec<usize> = if r.chance(1, 2) { vec![] } else { bounds.iter().copied().filter(|b| *b < bytes.len()).collect() };
            incremental(ctx, &bytes, &info, &cuts, "long-prefix");
        }
        for variant in 0..4 {
            let mut ends: Vec<usize> = match variant {
                0 => vec![],
                1 => bounds.clone(),
                2 => (0..1 + r.below(5)).map(|_| r.range(1, bytes.len() as u64 - 1) as usize).collect(),
                _ => bounds.iter().map(|b| b.saturating_sub(r.usize(9))).filter(|b| *b > 0).collect(),
            };
            ends.push(bytes.len());
            ends.sort_unstable();
            ends.dedup();
            let run = rt::guard(|| {
                let mut ex = Http2FingerprintExtractor::new();
                let mut got = Vec::new();
                let mut want = Vec::new();
                let mut prev = 0usize;
                let mut seen = false;
                for &e in &ends {
                    got.push(ex.add_bytes(&bytes[prev..e]).ok().flatten().map(|f| (f.fingerprint, f.hash)));
                    let os = extract_akamai_fingerprint_from_bytes(&bytes[..e]).map(|f| (f.fingerprint, f.hash));
                    want.push(if seen { None } else { os.clone() });
                    seen |= os.is_some();
                    prev = e;
                }
                (got, want)
            });
            match run {
                Ok((got, want)) => {
                    ctx.judge(got == want, &[], "incremental extractor differs from the one-shot extraction of the bytes received so far (stream with an oversized frame or a prefix longer than 64 KiB)", || {
                        json!({"frames": parts.iter().map(|p| json!({"type": p[3], "payload_octets": p.len() - 9})).collect::<Vec<_>>(), "oversized_frame_position": pos, "chunk_ends": ends,
                               "incremental": got, "one_shot_on_prefixes": want, "bytes_hex_head": hex(&bytes[..bytes.len().min(96)])})
                    });
                    ctx.bucket(&format!("{}/pos{}of{}/chunking{variant}/{}", if long_prefix { "long-prefix" } else { "oversized" }, pos, parts.len(), if want.iter().any(|w| w.is_some()) { "fingerprint" } else { "none" }));
                }
                Err(p) => {
                    ctx.judge(false, &[], "panic in the Akamai extractors on a stream with an oversized frame", || json!({"panic": p, "chunk_ends": ends}));
                }
            }
        }
    }
}

fn permutations(n: usize) -> Vec<Vec<usize>> {
    fn rec(cur: &mut Vec<usize>, used: &mut Vec<bool>, n: usize, out: &mut Vec<Vec<usize>>) {
        if cur.len() == n {
            out.push(cur.clone());
            return;
        }
        for i in 0..n {
            if !used[i] {
                used[i] = true;
                cur.push(i);
                rec(cur, used, n, out);
                cur.pop();
                used[i] = false;
            }
        }
    }
    let mut out = Vec::new();
    rec(&mut Vec::new(), &mut vec![false; n], n, &mut out);
    out
}

pub fn spec() -> PropSpec {
    PropSpec {
        id: "C17",
        run,
        shards: super::shards_16,
        rule: "frame sequences (SETTINGS with known/unknown/duplicate ids and boundary values, WINDOW_UPDATE absent/zero/reserved bit/on a stream/before SETTINGS, PRIORITY with every weight 0..255 and exclusive bit, HEADERS with all 24 pseudo-header orders x PADDED/PRIORITY/CONTINUATION framings, frames before SETTINGS, with/without preface) are fingerprinted by both one-shot entry points and compared with an independent S|WU|P|PS reference and SHA-256; each stream is then fed to Http2FingerprintExtractor in every 2-chunk partition, byte by byte, frame by frame, all pairs of frame-grid cut points and random k-cuts, and the whole history of return values is compared with the one-shot rule. A bucket is a distinct (entry point or chunking class, cut position class, preface, SETTINGS/WU/PRIORITY/HEADERS class, outcome) tuple",
        assumptions: &[
            "streams with more than 64 KiB before or around the first SETTINGS frame are judged against the reference and against the one-shot extraction of each received prefix",
            "a fingerprint exists iff a SETTINGS frame on stream 0 is among the complete frames; streams whose first such frame has no parameters, a SETTINGS length not divisible by 6, WINDOW_UPDATE length != 4, PRIORITY length != 5, an interrupted or undecodable first header block, or pseudo-headers other than :method/:path/:authority/:scheme/:status are run crash-only; frames are <= 16384 octets",
            "WU is the first WINDOW_UPDATE on stream 0 with the reserved bit cleared, 00 if absent or zero; P lists every PRIORITY frame (any stream) as stream:exclusive:dependency:weight+1; PS is empty when no HEADERS frame on a non-zero stream is complete in the bytes; when the first HEADERS frame is present but its CONTINUATION frames are not, the PS part is not judged",
            "incremental rule: add_bytes returns Ok(Some) exactly once, on the chunk that completes the first SETTINGS frame on stream 0, equal to the one-shot fingerprint of the bytes received so far (trailing incomplete frame ignored); Ok(None) otherwise; get_fingerprint()/fingerprint_extracted() agree with what was returned",
            "the deviation models of the open findings re-implement each defect with the harness' own frame splitter and HPACK decoder; they suppress only answers equal to the model where the finding's precondition holds and the model differs from the expectation",
        ],
        parent_stage: None,
    }
}
